"""
Bounded symbolic text (SymInput) and a priority-exact symbolic evaluation of
Python `re` patterns over it (SymRe).

Alphabet: tab, LF, CR, ASCII 32..126 and five non-ASCII representatives mapped
to codes 128..132.  Character-class tables are computed by asking the real
`re` / `str` of the running interpreter, never written by hand.
"""
import re
try:
    import re._parser as sp
    import re._constants as sc
except ImportError:  # pragma: no cover  (python < 3.11)
    import sre_parse as sp
    import sre_constants as sc
import z3

from .alg import And, Or, Not, Xor

EXT = {128: 'é', 129: 'É', 130: '٣', 131: ' ', 132: '€'}
CODES = [9, 10, 13] + list(range(32, 127)) + sorted(EXT)
CODESET = frozenset(CODES)


def code2chr(k):
    return EXT.get(k, chr(k))


CHR2CODE = {code2chr(k): k for k in CODES}
_W = re.compile(r'\w')
_D = re.compile(r'\d')
_S = re.compile(r'\s')
CAT = {
    sc.CATEGORY_WORD: frozenset(k for k in CODES if _W.match(code2chr(k))),
    sc.CATEGORY_DIGIT: frozenset(k for k in CODES if _D.match(code2chr(k))),
    sc.CATEGORY_SPACE: frozenset(k for k in CODES if _S.match(code2chr(k))),
}
CAT[sc.CATEGORY_NOT_WORD] = CODESET - CAT[sc.CATEGORY_WORD]
CAT[sc.CATEGORY_NOT_DIGIT] = CODESET - CAT[sc.CATEGORY_DIGIT]
CAT[sc.CATEGORY_NOT_SPACE] = CODESET - CAT[sc.CATEGORY_SPACE]
WORD = CAT[sc.CATEGORY_WORD]

# case folding as done by `str.lower()` comparison (StrMatch.ignore_case) and
# by re.IGNORECASE: computed from the real functions.
_LOWER = {}
for _k in CODES:
    _LOWER.setdefault(code2chr(_k).lower(), set()).add(_k)
FOLDSET = {k: frozenset(_LOWER[code2chr(k).lower()]) for k in CODES}
REFOLD = {}
for _k in CODES:
    _rx = re.compile(re.escape(code2chr(_k)), re.IGNORECASE)
    REFOLD[_k] = frozenset(j for j in CODES if _rx.fullmatch(code2chr(j)))


class Unsupported(Exception):
    """The artefact uses a feature the encoder does not model: the obligation
    is skipped (never a verdict)."""


def text_codes(s):
    try:
        return [CHR2CODE[c] for c in s]
    except KeyError as e:
        raise Unsupported('character outside the alphabet: %r' % e.args[0])


class SymInput:
    """A text of concrete length; each character is an int code (concrete) or
    a z3 BitVec(8) constrained to the alphabet."""

    def __init__(self, chars):
        self.chars = list(chars)
        self.n = len(self.chars)
        self.sets = set()          # every code set a free char was tested against
        self.free = [i for i, c in enumerate(self.chars) if not isinstance(c, int)]
        self._cache = {}

    @classmethod
    def symbolic(cls, n, name='c'):
        return cls([z3.BitVec('%s%d' % (name, i), 8) for i in range(n)])

    @classmethod
    def concrete(cls, text):
        return cls(text_codes(text))

    @classmethod
    def template(cls, pre, w, post, name='w'):
        return cls(text_codes(pre) + [z3.BitVec('%s%d' % (name, i), 8) for i in range(w)]
                   + text_codes(post))

    def domain(self):
        return [self.inset(i, CODESET, record=False) for i in self.free]

    def inset(self, i, codes, record=True):
        c = self.chars[i]
        if isinstance(c, int):
            return c in codes
        codes = codes if isinstance(codes, frozenset) else frozenset(codes)
        codes = codes & CODESET
        if not codes:
            return False
        key = (i, codes)
        r = self._cache.get(key)
        if r is not None:
            return r
        if record:
            self.sets.add(codes)
        cs = sorted(codes)
        out = []
        lo = prev = cs[0]
        for k in cs[1:] + [None]:
            if k is not None and k == prev + 1:
                prev = k
                continue
            if lo == prev:
                out.append(c == lo)
            else:
                out.append(z3.And(z3.UGE(c, lo), z3.ULE(c, prev)))
            if k is not None:
                lo = prev = k
        r = Or(*out)
        self._cache[key] = r
        return r

    def eqchar(self, i, j_or_code_list):
        return self.inset(i, j_or_code_list)

    def decode(self, model):
        out = []
        for c in self.chars:
            if isinstance(c, int):
                out.append(code2chr(c))
            else:
                out.append(code2chr(model.eval(c, model_completion=True).as_long()))
        return ''.join(out)

    def partition(self):
        """Partition of the alphabet into classes no recorded test separates.
        Two texts whose characters are class-wise equal are indistinguishable
        for every formula built so far."""
        sig = {}
        sets = sorted(self.sets, key=lambda s: sorted(s))
        for k in CODES:
            sig.setdefault(tuple(k in s for s in sets), []).append(k)
        return [frozenset(v) for v in sig.values()]

    def block_class(self, text, classes=None):
        """z3 constraint excluding every text that is class-wise equal to
        `text` on the free positions."""
        classes = classes or self.partition()
        cls_of = {}
        for c in classes:
            for k in c:
                cls_of[k] = c
        lits = []
        for i in self.free:
            lits.append(self.inset(i, cls_of[CHR2CODE[text[i]]], record=False))
        return Not(And(*lits))


PREFERRED = [ord(c) for c in 'ab0x1 \n,;']


def representative(cls):
    for p in PREFERRED:
        if p in cls:
            return p
    return min(cls)


# ------------------------------------------------------------------ regex
class SymRe:
    """Priority-exact (backtracking order) evaluation of a compiled Python
    regular expression over a SymInput."""

    def __init__(self, pattern, flags, inp):
        self.inp = inp
        self.flags = flags
        if flags & re.VERBOSE:
            raise Unsupported('re.VERBOSE')
        self.tree = sp.parse(pattern, flags)
        self.flags = self.tree.state.flags
        self.memo = {}
        self.ic = bool(self.flags & re.IGNORECASE)
        self.keep = []   # keep item lists alive (ids are memo keys)

    def _lit(self, av):
        ch = chr(av)
        if ch not in CHR2CODE:
            return frozenset()
        k = CHR2CODE[ch]
        return REFOLD[k] if self.ic else frozenset([k])

    def charset(self, op, av):
        if op is sc.LITERAL:
            return self._lit(av)
        if op is sc.NOT_LITERAL:
            return CODESET - self._lit(av)
        if op is sc.ANY:
            return CODESET if self.flags & re.DOTALL else CODESET - {10}
        if op is sc.IN:
            neg = False
            s = set()
            for o, a in av:
                if o is sc.NEGATE:
                    neg = True
                elif o is sc.LITERAL:
                    s |= self._lit(a)
                elif o is sc.RANGE:
                    for k in CODES:
                        if a[0] <= ord(code2chr(k)) <= a[1]:
                            s |= (REFOLD[k] if self.ic else {k})
                elif o is sc.CATEGORY:
                    if a not in CAT:
                        raise Unsupported('regex category %r' % (a,))
                    s |= CAT[a]
                else:
                    raise Unsupported('regex set item %r' % (o,))
            return CODESET - s if neg else frozenset(s)
        raise Unsupported('regex op %r' % (op,))

    def word(self, i):
        if i < 0 or i >= self.inp.n:
            return False
        return self.inp.inset(i, WORD)

    def seq(self, items, idx, pos):
        key = (id(items), idx, pos)
        r = self.memo.get(key)
        if r is not None:
            return r
        if idx == len(items):
            r = [(True, pos)]
        else:
            r = []
            for c, p in self.node(items[idx], pos):
                for d, q in self.seq(items, idx + 1, p):
                    cd = And(c, d)
                    if cd is not False:
                        r.append((cd, q))
        self.memo[key] = r
        return r

    def node(self, item, pos):
        op, av = item
        n = self.inp.n
        if op in (sc.LITERAL, sc.NOT_LITERAL, sc.ANY, sc.IN):
            if pos >= n:
                return []
            c = self.inp.inset(pos, self.charset(op, av))
            return [] if c is False else [(c, pos + 1)]
        if op is sc.BRANCH:
            r = []
            for alt in av[1]:
                r += self.seq(alt, 0, pos)
            return r
        if op is sc.SUBPATTERN:
            group, add_flags, del_flags, sub = av
            if add_flags or del_flags:
                raise Unsupported('inline regex flags')
            return self.seq(sub, 0, pos)
        if op in (sc.MAX_REPEAT, sc.MIN_REPEAT):
            lo, hi, sub = av
            return self.rep(item, sub, lo, hi, pos, 0, op is sc.MAX_REPEAT)
        if op is sc.AT:
            if av is sc.AT_BOUNDARY or av is sc.AT_NON_BOUNDARY:
                c = Xor(self.word(pos - 1), self.word(pos))
                if av is sc.AT_NON_BOUNDARY:
                    c = Not(c)
            elif av is sc.AT_END:
                if self.flags & re.MULTILINE:
                    c = True if pos == n else self.inp.inset(pos, [10])
                else:
                    c = True if pos == n else (
                        self.inp.inset(pos, [10]) if pos == n - 1 else False)
            elif av is sc.AT_END_STRING:
                c = pos == n
            elif av is sc.AT_BEGINNING:
                if self.flags & re.MULTILINE:
                    c = True if pos == 0 else self.inp.inset(pos - 1, [10])
                else:
                    c = pos == 0
            elif av is sc.AT_BEGINNING_STRING:
                c = pos == 0
            else:
                raise Unsupported('regex anchor %r' % (av,))
            return [] if c is False else [(c, pos)]
        if op in (sc.ASSERT, sc.ASSERT_NOT):
            direction, sub = av
            if direction == 1:
                c = Or(*[c for c, _ in self.seq(sub, 0, pos)])
            else:
                lo, hi = sub.getwidth()
                if lo != hi:
                    raise Unsupported('variable-width look-behind')
                if pos - lo < 0:
                    c = False
                else:
                    c = Or(*[c for c, e in self.seq(sub, 0, pos - lo) if e == pos])
            if op is sc.ASSERT_NOT:
                c = Not(c)
            return [] if c is False else [(c, pos)]
        raise Unsupported('regex op %r' % (op,))

    def rep(self, item, sub, lo, hi, pos, count, greedy):
        ckey = min(count, lo) if hi is sc.MAXREPEAT else count
        key = (id(item), pos, ckey)
        r = self.memo.get(key)
        if r is not None:
            return r
        more = []
        if hi is sc.MAXREPEAT or count < hi:
            for c, p in self.seq(sub, 0, pos):
                if p == pos and count >= lo:
                    continue  # empty iteration: CPython's matcher stops looping
                for d, q in self.rep(item, sub, lo, hi, p, count + 1, greedy):
                    cd = And(c, d)
                    if cd is not False:
                        more.append((cd, q))
        stop = [(True, pos)] if count >= lo else []
        r = more + stop if greedy else stop + more
        self.memo[key] = r
        return r

    def entries(self, pos):
        """ordered (cond, end) list for regex.match(text, pos)."""
        return self.seq(self.tree.data, 0, pos)

    def match(self, pos):
        """dict end -> cond with mutually exclusive conds: the end position
        CPython's regex.match(text, pos) reports (absent: no match)."""
        key = ('m', pos)
        r = self.memo.get(key)
        if r is not None:
            return r
        out = {}
        none_before = True
        for c, e in self.entries(pos):
            sel = And(none_before, c)
            if sel is not False:
                out[e] = Or(out.get(e, False), sel)
            if c is True:
                break
            none_before = And(none_before, Not(c))
            if none_before is False:
                break
        self.memo[key] = out
        return out
