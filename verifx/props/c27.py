"""
C27 — model parameters are validated and reach every loaded model.

Path-exhaustive (level P) over *symbolic parameter names*: the declared
parameter names d_1..d_k and the keyword names g_1..g_m passed to the real
`model_from_str` / `model_from_file` are opaque name atoms (str subclass
`SymKey`: usable as **kwargs keys, hash-constant, equality decided by z3 on an
uninterpreted sort), so one run of the real code stands for every choice of
names with the same equality pattern; symx forks on each comparison the real
code makes (dict lookups in ModelParamDefinitions.store, ModelParams.store)
and z3 prunes infeasible patterns.  Further selectors: number of declared /
given names, load kind (string, string-with-file-name, file), provider
(ImportURI search-path, ImportURI glob, GlobalRepo, two registered languages
importing each other's files) and global repository on/off; the import closure
is a fixed three-file graph with a cycle (two languages: A -> B -> A plus A).
On every feasible path:
  * the load is rejected with TextXError 'unknown parameter'  iff  the path
    condition implies that some given name equals no declared name
    (validity of the z3 formula under the path condition, c.must);
  * after an accepted load every model of the closure (main model and every
    model reachable through its repository) exposes `_tx_model_params` with
    exactly the given names and values.
"""
import os
import tempfile

import z3

from ..alg import And, Or, Not
from ..common import Check, pmap, src_hash
from ..symx import Ctx, SymBool, NameSort

PROP = 'C27'

GRAMMAR = """
Model: imports*=Import items*=Item;
Import: 'import' importURI=STRING;
Item: 'item' name=ID ('->' ref=[Item])?;
"""
FILES = {
    'main.m': 'import "a.m" item m1 -> a1 item m2 -> m1',
    'a.m': 'import "sub/b.m" item a1 -> b1',
    'sub/b.m': 'import "../a.m" item b1 -> a1',
}
PROVIDERS = ['search-path', 'glob', 'global-repo-provider', 'two-languages']
FILES2 = {          # language A (*.qa) imports language B (*.qb), which imports language A again
    'main.qa': 'import "mid.qb" import "same.qa" item m1 -> s1',
    'mid.qb': 'import "leaf.qa" item b1',
    'leaf.qa': 'item l1',
    'same.qa': 'item s1',
}
KINDS = ['file', 'str-with-file-name', 'str']


class SymKey(str):
    """a str (so it can be a **kwargs key) standing for an arbitrary parameter
    name: hash-constant, equality with another SymKey decided by z3; assumed
    different from every concrete string ('project_root', the built-in
    parameter)"""

    def __new__(cls, label):
        o = str.__new__(cls, '<%s>' % label)
        o.t = z3.Const(label, NameSort)
        o.label = label
        return o

    def __eq__(self, o):
        if isinstance(o, SymKey):
            if o.t.eq(self.t):
                return True
            return bool(SymBool(self.t == o.t))
        return False

    def __ne__(self, o):
        return not self.__eq__(o)

    def __hash__(self):
        return 0


def write_files(tmp, files=None):
    for fn, content in (files or FILES).items():
        p = os.path.join(tmp, fn)
        os.makedirs(os.path.dirname(p), exist_ok=True)
        with open(p, 'w') as f:
            f.write(content)


def closure(model):
    """every model created by the load: main + everything reachable through
    repositories and _tx_loaded_models"""
    from textx import get_children
    seen, todo = [], [model]
    while todo:
        m = todo.pop()
        if any(m is s for s in seen):
            continue
        seen.append(m)
        repo = getattr(m, '_tx_model_repository', None)
        if repo is not None:
            todo += list(repo.all_models) + list(repo.local_models)
        for imp in get_children(lambda x: hasattr(x, '_tx_loaded_models'), m):
            todo += list(imp._tx_loaded_models)
    return seen


def explore(item):
    pi, ki, global_repo, timeout_ms, maxn = item
    from textx import metamodel_from_str
    from textx.exceptions import TextXError
    import textx.scoping.providers as P
    tmp = tempfile.mkdtemp(prefix='c27_')
    two = PROVIDERS[pi] == 'two-languages'
    write_files(tmp, FILES2 if two else None)
    ctx = Ctx(timeout_ms, max_paths=50000)
    D = [SymKey('d%d' % i) for i in range(maxn)]
    G = [SymKey('g%d' % i) for i in range(maxn)]
    VALS = [0, ('v', 1), ''][:maxn]         # values are opaque to textX: falsy ones are values like any other

    def count(c, what):
        for k in range(maxn):
            if c.branch(z3.Bool('%s_%d' % (what, k))):
                return k
        return maxn

    def path(c):
        nd = count(c, 'declare')
        ng = count(c, 'give')
        mm = metamodel_from_str(GRAMMAR, global_repository=global_repo)
        prov = PROVIDERS[pi]
        if prov == 'search-path':
            mm.register_scope_providers({'*.*': P.PlainNameImportURI(search_path=[])})
        elif prov == 'glob':
            mm.register_scope_providers({'*.*': P.FQNImportURI()})
        elif prov == 'two-languages':
            # the imported language declares no parameter of its own: parameters given to the
            # load are validated by the loading metamodel only and travel through every import
            import textx.registration as REG
            mm.register_scope_providers({'*.*': P.PlainNameImportURI()})
            mmb = metamodel_from_str(GRAMMAR, global_repository=global_repo)
            mmb.register_scope_providers({'*.*': P.PlainNameImportURI()})
            REG.clear_language_registrations()
            REG.register_language(REG.LanguageDesc('c27qa', pattern='*.qa', description='', metamodel=mm))
            REG.register_language(REG.LanguageDesc('c27qb', pattern='*.qb', description='', metamodel=mmb))
        else:
            mm.register_scope_providers({'*.*': P.PlainNameGlobalRepo(os.path.join(tmp, '**', '*.m'),
                                                                      glob_args={'recursive': True})})
        for d in D[:nd]:
            mm.model_param_defs.add(d, 'declared %s' % d.label)
        # by selector: while the outer load is building its models, user code (a processor of a match rule)
        # loads another text with the same metamodel and NO parameters — the outer models keep theirs
        # (only without a metamodel-wide repository: with one, the nested load meets the unfinished outer model
        # in that repository and textX fails with AttributeError on the marker resolver — not a C27 matter)
        c._nested = (not global_repo) and c.branch(z3.Bool('nested_load_without_parameters'))
        if c._nested:
            busy = []

            def id_proc(value):
                if not busy:
                    busy.append(1)
                    try:
                        mm.model_from_str('item nested')
                    finally:
                        busy.pop()
                return value
            mm.register_obj_processors({'ID': id_proc})
        kw = {}
        for g, v in zip(G[:ng], VALS):
            kw[g] = v
        declared, given = D[:nd], list(kw.keys())
        # the built-in parameter project_root, spelled relative to the working directory and not normalised:
        # it reaches every model of the load exactly as given, like any other parameter
        c._project_root = c.branch(z3.Bool('project_root_given'))
        if c._project_root:
            kw['project_root'] = os.path.join(os.path.relpath(tmp), '.', '')
        # accepted  <=>  every given name equals some declared name
        ok_formula = And(*[Or(*[g.t == d.t for d in declared]) for g in given])
        files = FILES2 if two else FILES
        mainname = 'main.qa' if two else 'main.m'
        main = os.path.join(tmp, mainname)
        try:
            if KINDS[ki] == 'file':
                model = mm.model_from_file(main, **kw)
            elif KINDS[ki] == 'str-with-file-name':
                model = mm.model_from_str(files[mainname], file_name=main, **kw)
            else:
                model = mm.model_from_str('item x item y -> x', **kw)
            outcome = 'accepted'
        except TextXError as e:
            if 'unknown parameter' not in str(e):
                return ('harness', 'unexpected error: %s' % e, None)
            outcome = 'rejected'
        except Exception as e:  # noqa
            return ('bad', 'load raised %s: %s' % (type(e).__name__, e), describe(c, D, G, nd, ng))
        if outcome == 'accepted':
            v, mdl = c.must(ok_formula)
            if v != 'unsat':
                return ('bad' if v == 'sat' else 'unknown', 'undeclared parameter accepted',
                        describe(c, D, G, nd, ng))
            models = closure(model)
            want = 1 if KINDS[ki] == 'str' else (4 if two else 3)
            if len(models) < want:
                return ('harness', 'closure has %d models, expected %d' % (len(models), want), None)
            for m in models:
                p = getattr(m, '_tx_model_params', None)
                fn = os.path.basename(getattr(m, '_tx_filename', None) or '<str>')
                if p is None:
                    return ('bad', 'model %s has no _tx_model_params' % fn, describe(c, D, G, nd, ng))
                if len(p) != len(kw):
                    return ('bad', 'model %s exposes %d parameters, %d given' % (fn, len(p), len(kw)),
                            describe(c, D, G, nd, ng))
                missing = object()
                for g, val in kw.items():
                    # the whole read interface of the mapping
                    if g not in p or p[g] is not val or p.get(g) is not val or p.get(g, missing) is not val \
                            or not any(k == g and v is val for k, v in p.items()):
                        return ('bad', 'model %s: parameter %s missing or changed' % (fn, g),
                                describe(c, D, G, nd, ng))
            return ('ok-accepted', len(models), None)
        v, mdl = c.must(Not(ok_formula))
        if v != 'unsat':
            return ('bad' if v == 'sat' else 'unknown', 'declared parameters rejected',
                    describe(c, D, G, nd, ng))
        return ('ok-rejected', None, None)
    try:
        outs = ctx.explore(path)
    finally:
        import shutil
        shutil.rmtree(tmp, ignore_errors=True)
        if two:
            import textx.registration as REG
            REG.clear_language_registrations()
    return {'provider': PROVIDERS[pi], 'kind': KINDS[ki], 'global_repo': global_repo, 'paths': ctx.paths,
            'queries': ctx.queries, 'solver_s': ctx.secs, 'truncated': ctx.truncated,
            'accepted': sum(1 for o in outs if o[0] == 'ok-accepted'),
            'rejected': sum(1 for o in outs if o[0] == 'ok-rejected'),
            'unknown': sum(1 for o in outs if o[0] == 'unknown'),
            'harness': [o[1] for o in outs if o[0] == 'harness'][:2],
            'bad': [(o[1], o[2]) for o in outs if o[0] == 'bad'][:3]}


def describe(c, D, G, nd, ng):
    """a concrete naming realising the path's equality pattern"""
    m = c.model()
    if m is None:
        return None
    names = {}

    def name(k):
        v = str(m.eval(k.t, model_completion=True))
        return names.setdefault(v, 'p%d' % len(names))
    return {'declared': [name(d) for d in D[:nd]], 'given': [name(g) for g in G[:ng]],
            'project_root': bool(getattr(c, '_project_root', False)), 'nested': bool(getattr(c, '_nested', False))}


def replay_concrete(pi, ki, global_repo, declared, given, project_root=False, nested=False):
    """the same scenario with ordinary strings"""
    from textx import metamodel_from_str
    from textx.exceptions import TextXError
    import textx.scoping.providers as P
    import shutil
    tmp = tempfile.mkdtemp(prefix='c27r_')
    two = PROVIDERS[pi] == 'two-languages'
    try:
        write_files(tmp, FILES2 if two else None)
        mm = metamodel_from_str(GRAMMAR, global_repository=global_repo)
        prov = PROVIDERS[pi]
        if prov == 'search-path':
            mm.register_scope_providers({'*.*': P.PlainNameImportURI(search_path=[])})
        elif prov == 'glob':
            mm.register_scope_providers({'*.*': P.FQNImportURI()})
        elif two:
            import textx.registration as REG
            mm.register_scope_providers({'*.*': P.PlainNameImportURI()})
            mmb = metamodel_from_str(GRAMMAR, global_repository=global_repo)
            mmb.register_scope_providers({'*.*': P.PlainNameImportURI()})
            REG.clear_language_registrations()
            REG.register_language(REG.LanguageDesc('c27qa', pattern='*.qa', description='', metamodel=mm))
            REG.register_language(REG.LanguageDesc('c27qb', pattern='*.qb', description='', metamodel=mmb))
        else:
            mm.register_scope_providers({'*.*': P.PlainNameGlobalRepo(os.path.join(tmp, '**', '*.m'),
                                                                      glob_args={'recursive': True})})
        for d in declared:
            mm.model_param_defs.add(d, 'declared')
        if nested:
            busy = []

            def id_proc(value):
                if not busy:
                    busy.append(1)
                    try:
                        mm.model_from_str('item nested')
                    finally:
                        busy.pop()
                return value
            mm.register_obj_processors({'ID': id_proc})
        kw = {g: v for g, v in zip(given, [0, ('v', 1), ''])}
        should_accept = all(g in declared for g in kw)
        if project_root:
            kw['project_root'] = os.path.join(os.path.relpath(tmp), '.', '')
        mainname = 'main.qa' if two else 'main.m'
        main = os.path.join(tmp, mainname)
        try:
            if KINDS[ki] == 'file':
                model = mm.model_from_file(main, **kw)
            elif KINDS[ki] == 'str-with-file-name':
                model = mm.model_from_str((FILES2 if two else FILES)[mainname], file_name=main, **kw)
            else:
                model = mm.model_from_str('item x item y -> x', **kw)
        except TextXError as e:
            if should_accept:
                return True, 'declared parameters rejected: %s' % e
            return False, 'rejected as expected'
        except Exception as e:  # noqa
            return True, 'load raised %s: %s' % (type(e).__name__, e)
        if not should_accept:
            return True, 'undeclared parameter accepted'
        for m in closure(model):
            p = getattr(m, '_tx_model_params', None)
            fn = os.path.basename(getattr(m, '_tx_filename', None) or '<str>')
            if p is None or dict(p) != kw or any(p[k] is not v or p.get(k, p) is not v for k, v in kw.items()):
                return True, 'model %s exposes %r, given %r' % (fn, dict(p) if p is not None else None, kw)
        return False, 'parameters reach every model'
    finally:
        shutil.rmtree(tmp, ignore_errors=True)
        if two:
            import textx.registration as REG
            REG.clear_language_registrations()


def special_names_scenario():
    """parameter names that coincide with names used inside textX's own signatures are names like any other"""
    from textx import metamodel_from_str
    from textx.exceptions import TextXError
    problems = []
    for name in ('source', 'name', 'kwargs', 'args', 'params', 'debug_'):
        mm = metamodel_from_str(GRAMMAR)
        mm.model_param_defs.add(name, 'declared')
        try:
            m = mm.model_from_str('item x item y -> x', **{name: 'v'})
            if dict(m._tx_model_params) != {name: 'v'}:
                problems.append('declared parameter %r: the model exposes %r' % (name, dict(m._tx_model_params)))
        except TypeError as e:
            if name in ('self', 'file_name', 'model_str'):
                continue        # these ARE parameters of model_from_str itself: Python rejects the call
            problems.append('declared parameter %r is rejected: TypeError: %s' % (name, e))
        except Exception as e:  # noqa
            problems.append('declared parameter %r is rejected: %s: %s' % (name, type(e).__name__, e))
        mm2 = metamodel_from_str(GRAMMAR)
        try:
            mm2.model_from_str('item x', **{name: 'v'})
            problems.append('undeclared parameter %r is accepted' % name)
        except TextXError:
            pass
        except TypeError as e:
            if name not in ('self', 'file_name', 'model_str'):
                problems.append('undeclared parameter %r: TypeError instead of a TextXError: %s' % (name, e))
    return problems


def main():
    import textx.metamodel as MM
    import textx.model_params as MP
    import textx.scoping as S
    import textx.scoping.providers as P
    chk = Check(PROP, 'exploration')
    maxn = 2 if chk.tier == 'quick' else 3
    items = [(pi, ki, gr, 20000, maxn) for pi in range(len(PROVIDERS)) for ki in range(len(KINDS))
             for gr in (False, True)]
    results = pmap(explore, items)
    special = special_names_scenario()
    chk.cov['functions_encoded'] = src_hash(
        MP.ModelParamDefinitions.check_params, MP.ModelParamDefinitions.add, MP.ModelParams.__getitem__,
        MM.TextXMetaModel.model_from_str, MM.TextXMetaModel.model_from_file,
        MM.TextXMetaModel.internal_model_from_file, S.GlobalModelRepository.load_model,
        S.GlobalModelRepository.load_models_using_filepattern, S.GlobalModelRepository.load_model_using_search_path,
        P.ImportURI._load_referenced_models, P.GlobalRepo.load_models_in_model_repo)
    chk.cov['bounds'] = {'declared_names': '0..%d' % maxn, 'given_names': '0..%d' % maxn, 'providers': PROVIDERS, 'load_kinds': KINDS,
                         'global_repository': [False, True], 'import_graph': 'main -> a -> sub/b -> a (cycle); two languages: main.qa -> mid.qb -> leaf.qa, main.qa -> same.qa'}
    chk.cov['stubs'] = ['parameter names are SymKey atoms (str subclass, constant hash, z3-decided equality)']
    chk.cov['outside_claim'] = ['more than two declared / given names', 'names equal to the built-in project_root',
                                'other import graphs and providers', 'imported languages that declare parameters of their own']
    chk.assumptions = ['symbolic names differ from every concrete string in the definitions (project_root)',
                       'equality patterns enumerated exhaustively; acceptance compared with a z3 formula under '
                       'the path condition']
    paths = accepted = rejected = 0
    for it, (st, r, secs) in zip(items, results):
        if st != 'ok':
            chk.harness_error(r)
            continue
        chk.add_queries(r['queries'], r['solver_s'])
        paths += r['paths']
        accepted += r['accepted']
        rejected += r['rejected']
        if r['truncated'] or r['unknown']:
            chk.cov['inconclusive'] += 1
        for h in r['harness']:
            chk.harness_error('%s/%s: %s' % (r['provider'], r['kind'], h))
        if r['accepted'] == 0 or (r['rejected'] == 0):
            chk.harness_error('vacuous: %s/%s accepted %d rejected %d' % (r['provider'], r['kind'],
                                                                          r['accepted'], r['rejected']))
        for what, naming in r['bad'][:1]:
            naming = naming or {'declared': [], 'given': []}
            bad, detail = replay_concrete(it[0], it[1], it[2], naming['declared'], naming['given'], naming.get('project_root', False),
                                         naming.get('nested', False))
            chk.cov['traces_validated_against_impl'] += 1
            if bad:
                chk.violation('%s, %s load, global repository %s, declared %s, given %s: %s (replay: %s)' % (
                    r['provider'], r['kind'], r['global_repo'], naming['declared'], naming['given'], what, detail),
                    {'provider': it[0], 'kind': it[1], 'global_repo': it[2], 'declared': naming['declared'],
                     'given': naming['given'], 'project_root': naming.get('project_root', False),
                     'nested': naming.get('nested', False)})
            else:
                chk.harness_error('symbolic run reports %r but the concrete replay does not reproduce it (%s)'
                                  % (what, detail))
        chk.sample({'provider': r['provider'], 'load': r['kind'], 'global_repository': r['global_repo'],
                    'equality_patterns': r['paths'], 'accepted': r['accepted'], 'rejected': r['rejected']})
    for pr in special[:3]:
        chk.violation(pr, {'special_names': True})
    chk.cov['bounds']['special_names'] = "parameter names 'source', 'name', 'kwargs', ... declared / undeclared (concrete)"
    chk.cov['paths_explored'] = paths
    chk.cov['evaluations'] = paths
    chk.cov['distinct_nontrivial'] = accepted
    chk.cov['exhaustive'] = chk.cov['inconclusive'] == 0
    return chk.finish('one path per (number of declared / given names, equality pattern between them) and '
                      'configuration = one real load; non-trivial = accepted loads whose whole closure was inspected')


def replay(data):
    if data.get('special_names'):
        pr = special_names_scenario()
        return bool(pr), pr[:3]
    return replay_concrete(data['provider'], data['kind'], data['global_repo'], data['declared'], data['given'],
                           data.get('project_root', False), data.get('nested', False))
