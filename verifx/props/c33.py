"""
C33 — errors raised by processors carry the location of the processed text.

symx runs whole real loads (strings and files) in which an object processor
(common rule) or a match processor (match rule) fails on the k-th processed
object / match (k symbolic selector).  The raised TextXError carries a
symbolic subset of {line, col, filename, nchar} (four symbolic booleans) whose
integer values are symbolic integers; alternatively a non-textX exception is
raised through `textxerror_wrap`.  The real code under test
(TextXMetaModel.process, call_obj_processors + get_location, process_match,
textxerror_wrap) then fills in the missing fields.  On every path, z3 validity:
  * supplied fields are kept (for all symbolic values),
  * missing line / col = line / column of the first character of the processed
    object or match, computed independently from the text,
  * missing filename = the model's file name (None for strings),
  * object processors: missing nchar = length of the object's text.
"""
import os
import tempfile

import z3

from ..common import Check, pmap, src_hash
from .. import symx
from ..symx import Ctx, SymInt

PROP = 'C33'
KNOWN_NCHAR = 'C33-nchar-not-set'

GRAMMAR = r"""
Model: items+=Item;
Item: Box | Val;
Box: 'box' name=ID '{' items*=Item '}';
Val: 'val' name=ID '=' v=Ver ('@' w=Num)?;
Ver: Num ('.' Num)?;
Num: /(\d+)/;
"""
# Num matches also occur as later parts of the multi-part match rule Ver, and as a directly assigned terminal (w=Num)
TEXTS = [
    "box a {\n  val x = 1.5\n  box b {\n\n   val y = 22 .\n 4 @\n\n     12}\n}\nval z = 333 @ 5",
    "\n\n val q = 7 box c { val r = 8\n\t.\n\t 66 @\n 3 val s = 9 }",
]


def build_mm(grammar_file, regexp_group=False):
    """the grammar given as a string, or loaded from a .tx file (then the classes carry the
    grammar's file name, which must never be mistaken for the model's); regexp_group: the
    metamodel option use_regexp_group (the value of Num's one-group regex is then that group: the same text)"""
    from textx import metamodel_from_str, metamodel_from_file
    if not grammar_file:
        return metamodel_from_str(GRAMMAR, use_regexp_group=bool(regexp_group))
    d = tempfile.mkdtemp(prefix='c33g_')
    p = os.path.join(d, 'lang.tx')
    try:
        with open(p, 'w') as f:
            f.write(GRAMMAR)
        return metamodel_from_file(p, use_regexp_group=bool(regexp_group))
    finally:
        os.remove(p)
        os.rmdir(d)


def linecol(text, pos):
    line = text.count('\n', 0, pos) + 1
    col = pos - (text.rfind('\n', 0, pos) + 1) + 1
    return line, col


def term(v):
    if isinstance(v, SymInt):
        return v.t
    if v is None:
        return None
    return z3.IntVal(int(v))


def run(item):
    ti, target, wrap, from_file, timeout_ms = item[:5]
    grammar_file = len(item) > 5 and item[5]
    regexp_group = len(item) > 6 and item[6]
    from textx import metamodel_from_str
    from textx.exceptions import TextXError
    from textx.model import textxerror_wrap
    text = TEXTS[ti]
    tmpd = tempfile.mkdtemp(prefix='c33_')
    fn = os.path.join(tmpd, 'm.txt')
    with open(fn, 'w') as f:
        f.write(text)
    ctx = Ctx(timeout_ms, max_paths=20000, free_selectors=True)
    L, C, N = z3.Int('L'), z3.Int('C'), z3.Int('N')
    K = z3.Int('K')

    def path(c):
        mm = build_mm(grammar_file, regexp_group)
        count = [0]
        info = {}
        supplied = {}

        armed = [False]

        def failing(x):
            if not armed[0]:
                return None          # the earlier load of the history below
            i = count[0]
            count[0] += 1
            # symbolic selector: fail on exactly one processed element
            if not c.branch(z3.Bool('fail_at_%d' % i)):
                return None
            info['index'] = i
            if target == 'obj':
                info['pos'], info['end'] = x._tx_position, x._tx_position_end
                info['what'] = '%s %s' % (type(x).__name__, x.name)
            else:
                info['value'] = x
            if wrap:
                raise ValueError('boom')
            kw = {}
            if c.branch(z3.Bool('has_line')):
                kw['line'] = supplied['line'] = SymInt(L)
            if c.branch(z3.Bool('has_col')):
                kw['col'] = supplied['col'] = SymInt(C)
            if c.branch(z3.Bool('has_file')):
                kw['filename'] = supplied['filename'] = 'supplied.file'
            if c.branch(z3.Bool('has_nchar')):
                kw['nchar'] = supplied['nchar'] = SymInt(N)
            # the class of the error the processor raises (the subclasses forward the location themselves)
            info['error_class'] = 'TextXError'
            if c.branch(z3.Bool('raises_semantic_error')):
                info['error_class'] = 'TextXSemanticError'
            elif c.branch(z3.Bool('raises_syntax_error')):
                info['error_class'] = 'TextXSyntaxError'
            raise error_class(info['error_class'])('boom', **kw)
        proc = textxerror_wrap(failing) if wrap else failing
        if target == 'obj':
            mm.register_obj_processors({'Val': proc, 'Box': proc})
        else:
            mm.register_obj_processors({'Num': proc})
        # by selector the same metamodel has loaded another text before, under the same file name: the same
        # tokens at the same offsets, but on other lines (spaces <-> newlines)
        info['prior'] = c.branch(z3.Bool('prior_load_same_name_other_layout'))
        if info['prior']:
            other = text.replace(' ', chr(10))
            if from_file:
                with open(fn, 'w') as f_:
                    f_.write(other)
                mm.model_from_file(fn)
                with open(fn, 'w') as f_:
                    f_.write(text)
            else:
                mm.model_from_str(other)
        armed[0] = True
        try:
            if from_file:
                mm.model_from_file(fn)
            else:
                mm.model_from_str(text)
            return ('noerror', None)
        except TextXError as e:
            err = e
        except Exception as e:  # noqa
            return ('bad', {'detail': 'load raised %s: %s' % (type(e).__name__, e), 'info': info})
        if 'index' not in info:
            return ('noerror', None)
        # expected location
        if target == 'obj':
            pos, end = info['pos'], info['end']
        else:
            # the i-th Num match: position of the i-th integer literal in the text
            import re
            ms = list(re.finditer(r'(?<![\w])\d+', text))
            pos = ms[info['index']].start()
            end = ms[info['index']].end()
        eline, ecol = linecol(text, pos)
        problems = []

        def expect(field, got, want_term, desc):
            if want_term is None:
                if got is not None:
                    problems.append('%s = %r, expected None' % (field, got))
                return
            if got is None:
                problems.append('%s is None, expected %s' % (field, desc))
                return
            v, mdl = c.must(term(got) == want_term)
            if v == 'sat':
                problems.append('%s = %s, expected %s' % (field, mdl.eval(term(got), model_completion=True), desc))
            elif v == 'unknown':
                problems.append('unknown')
        expect('line', err.line, supplied['line'].t if 'line' in supplied else z3.IntVal(eline),
               'supplied' if 'line' in supplied else str(eline))
        expect('col', err.col, supplied['col'].t if 'col' in supplied else z3.IntVal(ecol),
               'supplied' if 'col' in supplied else str(ecol))
        want_file = supplied.get('filename', fn if from_file else None)
        if err.filename != want_file:
            problems.append('filename = %r, expected %r' % (err.filename, want_file))
        if target == 'obj':
            expect('nchar', err.nchar, supplied['nchar'].t if 'nchar' in supplied else z3.IntVal(end - pos),
                   'supplied' if 'nchar' in supplied else str(end - pos))
        elif 'nchar' in supplied:
            expect('nchar', err.nchar, supplied['nchar'].t, 'supplied')
        if problems:
            return ('bad', {'problems': problems, 'index': info['index'], 'supplied': sorted(supplied),
                            'what': info.get('what', info.get('value')), 'prior': info.get('prior', False),
                            'error_class': info.get('error_class', 'TextXError')})
        return ('ok', None)
    try:
        outs = ctx.explore(path)
    finally:
        os.remove(fn)
        os.rmdir(tmpd)
    res = {'case': 'text%d %s %s %s%s' % (ti, target, 'wrap' if wrap else 'raise', 'file' if from_file else 'str',
                                         ' grammar-from-file' if grammar_file else ''),
           'paths': ctx.paths, 'queries': ctx.queries, 'solver_s': ctx.secs, 'bad': [], 'ok': 0, 'noerror': 0,
           'item': list(item)}
    for o in outs:
        if o[0] == 'ok':
            res['ok'] += 1
        elif o[0] == 'noerror':
            res['noerror'] += 1
        else:
            res['bad'].append(o[1])
    return res


def classify(b):
    probs = b.get('problems', [])
    if probs and all(p.startswith('nchar is None') for p in probs):
        return KNOWN_NCHAR
    return None


def error_class(name):
    import textx.exceptions as X
    return getattr(X, name)


def replay_case(item, index, supplied_fields, prior=False, err_cls='TextXError'):
    """concrete replay: the same failure with concrete supplied values"""
    ti, target, wrap, from_file = item[:4]
    grammar_file = len(item) > 5 and item[5]
    regexp_group = len(item) > 6 and item[6]
    from textx import metamodel_from_str
    from textx.exceptions import TextXError
    from textx.model import textxerror_wrap
    import re
    text = TEXTS[ti]
    tmpd = tempfile.mkdtemp(prefix='c33r_')
    fn = os.path.join(tmpd, 'm.txt')
    with open(fn, 'w') as f:
        f.write(text)
    vals = {'line': 71, 'col': 72, 'filename': 'supplied.file', 'nchar': 73}
    mm = build_mm(grammar_file, regexp_group)
    count = [0]
    info = {}

    armed = [False]

    def failing(x):
        if not armed[0]:
            return None
        i = count[0]
        count[0] += 1
        if i != index:
            return None
        if target == 'obj':
            info['pos'], info['end'] = x._tx_position, x._tx_position_end
        if wrap:
            raise ValueError('boom')
        raise error_class(err_cls)('boom', **{k: vals[k] for k in supplied_fields})
    proc = textxerror_wrap(failing) if wrap else failing
    mm.register_obj_processors({'Val': proc, 'Box': proc} if target == 'obj' else {'Num': proc})
    if prior:
        other = text.replace(' ', chr(10))
        if from_file:
            with open(fn, 'w') as f_:
                f_.write(other)
            mm.model_from_file(fn)
            with open(fn, 'w') as f_:
                f_.write(text)
        else:
            mm.model_from_str(other)
    armed[0] = True
    try:
        try:
            mm.model_from_file(fn) if from_file else mm.model_from_str(text)
            return True, 'no error raised'
        except TextXError as e:
            err = e
        except Exception as e:  # noqa
            return True, 'load raised %s: %s' % (type(e).__name__, e)
    finally:
        os.remove(fn)
        os.rmdir(tmpd)
    if target == 'obj':
        pos, end = info['pos'], info['end']
    else:
        ms = list(re.finditer(r'(?<![\w])\d+', text))
        pos, end = ms[index].start(), ms[index].end()
    el, ec = linecol(text, pos)
    want = {'line': el, 'col': ec, 'filename': fn if from_file else None}
    if target == 'obj':
        want['nchar'] = end - pos
    for k in supplied_fields:
        want[k] = vals[k]
    got = {k: getattr(err, k) for k in want}
    return got != want, {'got': got, 'expected': want}


def main():
    import textx.metamodel as MM
    import textx.model as M
    chk = Check(PROP, 'model_checking')
    quick = chk.tier == 'quick'
    items = []
    for ti in range(1 if quick else len(TEXTS)):
        for target in ('obj', 'match'):
            for wrap in (False, True):
                for from_file in (False, True):
                    items.append((ti, target, wrap, from_file, 20000, False))
                    items.append((ti, target, wrap, from_file, 20000, True))
                    if target == 'match':
                        items.append((ti, target, wrap, from_file, 20000, False, True))     # use_regexp_group
    results = pmap(run, items)
    chk.cov['functions_encoded'] = src_hash(MM.TextXMetaModel.process, M.get_location, M.textxerror_wrap,
                                            M.parse_tree_to_objgraph)
    chk.cov['bounds'] = {'texts': len(TEXTS) if not quick else 1, 'supplied_field_subsets': 16,
                         'supplied_values': 'symbolic integers (all values)'}
    chk.cov['stubs'] = ['the failing processor is the harness; positions come from the real model objects']
    chk.cov['outside_claim'] = ['other grammars / layouts than the listed texts',
                                'positions are taken from concrete multi-line texts (line/col arithmetic is checked '
                                'against an independent computation on every object, not symbolically)']
    chk.assumptions = ['z3 validity per path over the supplied integer values']
    paths = 0
    seen = set()
    for it, (st, r, secs) in zip(items, results):
        if st != 'ok':
            chk.harness_error(r)
            continue
        chk.add_queries(r['queries'], r['solver_s'])
        paths += r['paths']
        if r['ok'] + len(r['bad']) == 0:
            chk.harness_error('vacuous case %s: no failing path' % r['case'])
        for b in r['bad']:
            if 'index' not in b:
                chk.violation('%s: %s' % (r['case'], b), {'item': r['item'], 'detail': b})
                continue
            bad, detail = replay_case(r['item'], b['index'], b.get('supplied', []), b.get('prior', False),
                                      b.get('error_class', 'TextXError'))
            chk.cov['traces_validated_against_impl'] += 1
            if not bad:
                chk.cov['model_mismatches'] += 1
                chk.sample({'model_mismatch': b, 'case': r['case']})
                continue
            fid = classify(b)
            if fid and chk.is_known(fid):
                chk.known_hit(fid, '%s: %s' % (r['case'], b['problems']))
                continue
            key = (r['case'], tuple(b.get('supplied', [])))
            if key in seen:
                continue
            seen.add(key)
            if len(chk.violations) < 6:
                chk.violation('%s, failing element #%d (%s), processor supplied %s: %s' % (
                    r['case'], b['index'], b.get('what'), b.get('supplied'), detail),
                    {'item': r['item'], 'index': b['index'], 'supplied': b.get('supplied', []), 'prior': b.get('prior', False),
                     'error_class': b.get('error_class', 'TextXError')})
        chk.sample({'case': r['case'], 'paths': r['paths'], 'discharged': r['ok']})
    chk.cov['paths_explored'] = paths
    chk.cov['distinct_nontrivial'] = paths
    if chk.cov['model_mismatches']:
        chk.harness_error('a symbolic path result did not reproduce concretely')
    return chk.finish('one exploration per (text, object/match processor, raise/wrap, string/file); each path = one '
                      'failing element x one subset of supplied fields; supplied values are symbolic integers '
                      'decided by z3')


def replay(data):
    return replay_case(data['item'], data['index'], data.get('supplied', []), data.get('prior', False),
                       data.get('error_class', 'TextXError'))
