"""
C06 — object source spans and locations are exact.

Inputs are solver-enumerated: per corpus grammar and length n <= N one witness
per accepted character-class string of the live parser model, the classes being
refined so that newline, carriage return and tab are told apart — every parse
structure with every layout of whitespace / comments of that length.  Each
witness is loaded by the real textX (as a string, and a subset from a file) and
compared with the reference derivation (refpeg, concrete mode):
  * `_tx_position` / `_tx_position_end` of every object = first matched
    character / one past the last matched character of the object in the given
    input (suppressed matches included), a non-empty slice;
  * each child's slice lies inside its parent's, list siblings are ordered and
    disjoint;
  * get_location(obj) = line / column of `_tx_position` (computed independently
    from the input text), nchar = slice length, filename = the model's file.
The verdict is by replay on solver-enumerated inputs (exploration).
"""
import os
import tempfile

from ..common import Check, pmap, src_hash, tier
from ..symtext import SymInput, CHR2CODE, Unsupported
from ..refpeg import RefPeg, Obj
from .. import corpus, pegcheck, gram
from ..pegcheck import Formulas, real_load

PROP = 'C06'
KNOWN_SUPPRESSED = 'C06-suppressed-edge-matches-excluded'


def corpus_list():
    names = ('seq-choice', 'plus-sep-obj', 'eolterm', 'ung-sep', 'suppress-str', 'suppress-match-rule',
             'abstract', 'abstract-seq', 'nested-obj', 'recursive', 'comment-line', 'comment-block',
             'noskipws-rule', 'ws-rule', 'optional-attrs', 'bool-assign', 'objref', 'kinds-chain',
             'kw-same-keyword-suppressed-later')
    extra = [corpus.G('suppressed-edges', [corpus.Rule('M', corpus.Asg('bs', '+=', corpus.Ref('B'))),
                                           corpus.Rule('B', corpus.S(corpus.Sup(corpus.Str('<')),
                                                                     corpus.Asg('n', '=', corpus.INT),
                                                                     corpus.Sup(corpus.Str('>'))))]),
             # an alias-like match rule referenced first with the suppress operator, then plainly at the
             # edge of an object
             corpus.G('alias-suppressed-then-plain', [
                 corpus.Rule('M', corpus.S(corpus.Asg('hs', '*=', corpus.Ref('H')), corpus.Asg('ds', '+=', corpus.Ref('D')))),
                 corpus.Rule('H', corpus.S(corpus.Sup(corpus.Ref('Kw')), corpus.Asg('n', '=', corpus.INT))),
                 corpus.Rule('D', corpus.S(corpus.Ref('Kw'), corpus.Asg('name', '=', corpus.ID), corpus.Ref('Kw'))),
                 corpus.Rule('Kw', corpus.Ref('Key')), corpus.Rule('Key', corpus.Str('k'))]),
             # the text matched by an object may start or end with whitespace (a regex that matches blanks,
             # a rule that does not skip whitespace): the span is what was matched, blanks included
             corpus.G('span-ends-with-blanks', [
                 corpus.Rule('M', corpus.Asg('ls', '+=', corpus.Ref('L'))),
                 corpus.Rule('L', corpus.S(corpus.Str('s'), corpus.Asg('t', '=', corpus.Re(r'[a ]*'))))]),
             corpus.G('span-starts-with-blanks', [
                 corpus.Rule('M', corpus.S(corpus.Asg('ls', '+=', corpus.Ref('L')), corpus.Str(';'))),
                 corpus.Rule('L', corpus.S(corpus.Asg('t', '=', corpus.Re(r' +')), corpus.Asg('n', '=', corpus.INT)),
                             skipws=False)])]
    return [g for g in corpus.ALL if g['name'] in names] + extra


def pairs(ref, real, out):
    """parallel walk of reference and real model -> [(ref Obj, real obj)]"""
    if isinstance(ref, Obj):
        if not hasattr(type(real), '_tx_attrs'):
            return
        out.append((ref, real))
        for a, v in ref.items():
            if a.startswith('_'):
                continue
            rv = getattr(real, a, None)
            if isinstance(v, list) and isinstance(rv, list):
                for x, y in zip(v, rv):
                    pairs(x, y, out)
            else:
                pairs(v, rv, out)


def linecol(text, pos):
    return text.count('\n', 0, pos) + 1, pos - (text.rfind('\n', 0, pos) + 1) + 1


def check_model(g, text, model, refmodel, filename):
    from textx import get_location
    probs = []
    ps = []
    pairs(refmodel, model, ps)
    for ref, real in ps:
        want = ref.get('_span_all')
        got = (getattr(real, '_tx_position', None), getattr(real, '_tx_position_end', None))
        what = '%s %r' % (ref['_cls'], text[got[0]:got[1]] if None not in got else None)
        if want is None:
            continue
        if got != want:
            kind = 'suppressed' if got == ref.get('_span') else 'span'
            probs.append((kind, '%s spans %s, matched text is %s %r' % (what, got, want, text[want[0]:want[1]])))
        if got[1] is not None and got[0] is not None and got[1] <= got[0]:
            probs.append(('span', '%s has an empty slice %s' % (what, got)))
        try:
            loc = get_location(real)
        except Exception as e:  # noqa
            probs.append(('location', 'get_location raised %s: %s' % (type(e).__name__, e)))
            continue
        el, ec = linecol(text, got[0])
        exp = {'line': el, 'col': ec, 'nchar': got[1] - got[0], 'filename': filename}
        if loc != exp:
            probs.append(('location', '%s: get_location %s, expected %s' % (what, loc, exp)))
    # containment / sibling order
    for ref, real in ps:
        for a, v in ref.items():
            if a.startswith('_'):
                continue
            rv = getattr(real, a, None)
            kids = [x for x in (rv if isinstance(rv, list) else [rv]) if hasattr(type(x), '_tx_attrs')
                    and hasattr(x, 'parent') and x.parent is real]
            last = None
            for k in kids:
                if not (real._tx_position <= k._tx_position and k._tx_position_end <= real._tx_position_end):
                    probs.append(('nesting', 'child slice %s outside parent slice %s' % (
                        (k._tx_position, k._tx_position_end), (real._tx_position, real._tx_position_end))))
                if isinstance(rv, list):
                    if last is not None and k._tx_position < last:
                        probs.append(('nesting', 'list elements of %s overlap or are out of order' % a))
                    last = k._tx_position_end
    return probs


def obligation(item):
    gi, n, wlimit, timeout_ms, known_ids = item
    g = corpus_list()[gi]
    res = {'grammar': g['name'], 'n': n, 'queries': {}, 'solver_s': 0.0, 'violations': [], 'known': {},
           'witnesses': 0, 'objects': 0, 'validated': 0}
    try:
        mm = pegcheck.build_mm(g)
        inp = SymInput.symbolic(n)
        f = Formulas(g, mm, inp, want_patched=False, want_ref=False)
        for ch in '\n\r\t':
            for i in inp.free[:1]:
                inp.inset(i, frozenset([CHR2CODE[ch]]))
        texts, exhausted, z = pegcheck.enumerate_classes(inp, f.acc_i, wlimit, timeout_ms)
    except Unsupported as e:
        res['unsupported'] = str(e)
        return res
    res['queries'] = z.queries
    res['solver_s'] = z.secs
    rcfg = pegcheck.ref_cfg(g)
    tmpd = None
    for ti, text in enumerate(texts):
        ok, refmodel = RefPeg(g['rules'], SymInput.concrete(text), **rcfg).model()
        if not ok or not isinstance(refmodel, Obj):
            continue
        variants = [(None, text)]
        if ti % 5 == 0:
            variants.append(('file', text))
        for mode, t in variants:
            fn = None
            if mode == 'file':
                tmpd = tmpd or tempfile.mkdtemp(prefix='c06_')
                fn = os.path.join(tmpd, 'm%d.txt' % ti)
                with open(fn, 'w', newline='') as fh:
                    fh.write(t)
                try:
                    from textx.exceptions import TextXError
                    try:
                        model = mm.model_from_file(fn)
                        kind = 'ok'
                    except TextXError:
                        kind = 'err'
                finally:
                    os.remove(fn)
            else:
                kind, model = real_load(mm, t)
            res['validated'] += 1
            if kind != 'ok':
                continue
            if mode == 'file':
                # universal newlines: the file reader may have translated line ends;
                # positions refer to the text the parser saw
                seen = model._tx_parser.input
                if seen != t:
                    continue
            res['witnesses'] += 1
            probs = check_model(g, t, model, refmodel, fn)
            res['objects'] += 1
            for kind_, msg in probs:
                if kind_ == 'suppressed' and KNOWN_SUPPRESSED in known_ids:
                    res['known'].setdefault(KNOWN_SUPPRESSED, {'text': t, 'detail': msg})
                elif len(res['violations']) < 3:
                    res['violations'].append({'grammar': g['name'], 'text': t, 'from_file': mode == 'file',
                                              'kind': kind_, 'detail': msg})
    if tmpd:
        try:
            os.rmdir(tmpd)
        except OSError:
            pass
    return res


# ---------------------------------------------------------------- user classes x several models in one load
UC_GRAMMAR = """
Model: imports*=Import boxes*=Box;
Import: 'import' importURI=STRING;
Box: 'box' name=ID '{' items*=Item '}';
Item: 'item' name=ID ('->' to=[Item])?;
"""
UC_FILES = {
    'main.m': 'import "lib.m"\n\nbox m1 {\n  item a -> x\n\titem b\n}\n box m2 { item c -> a }',
    'lib.m': '\n box l1 { item x\n item y -> x }\n',
}


def user_class_scenario(layout):
    """objects of user classes, main model + imported model built in one load:
    every Box / Item span must be exactly its own text, siblings ordered,
    get_location consistent (positions computed from the file text)"""
    import os
    import re
    import shutil
    import tempfile
    from textx import metamodel_from_str, get_location, get_children
    import textx.scoping.providers as P

    def init(self, parent=None, **kw):
        self.parent = parent
        for k, v in kw.items():
            setattr(self, k, v)
    classes = [type(n, (object,), {'__init__': init}) for n in (['Box', 'Item'] if layout.startswith('user') else [])]
    tmp = tempfile.mkdtemp(prefix='c06u_')
    problems = []
    try:
        for fn, text in UC_FILES.items():
            with open(os.path.join(tmp, fn), 'w') as f:
                f.write(text)
        mm = metamodel_from_str(UC_GRAMMAR, classes=classes)
        mm.register_scope_providers({'*.*': P.PlainNameImportURI()})
        if layout.endswith('+processors'):
            # object processors: one returns nothing, one replaces an item by the (already existing) item it
            # refers to — the surviving objects keep their own spans
            mm.register_obj_processors({'Box': lambda b: None,
                                        'Item': lambda it: it.to if it.name in ('c', 'y') else None})
        main = mm.model_from_file(os.path.join(tmp, 'main.m'))
        models = {os.path.basename(m._tx_filename): m for m in main._tx_model_repository.all_models}
        models['main.m'] = main
        for fn, m in models.items():
            text = UC_FILES[fn]
            for o in get_children(lambda x: type(x).__name__ in ('Box', 'Item'), m):
                kw = 'box' if type(o).__name__ == 'Box' else 'item'
                mo = re.search(r'%s %s\b' % (kw, o.name), text)
                start = mo.start()
                if kw == 'box':
                    end = text.index('}', start) + 1
                else:
                    end = mo.end()
                    arrow = re.match(r'\s*->\s*\w+', text[end:])
                    if arrow:
                        end += arrow.end()
                if (o._tx_position, o._tx_position_end) != (start, end):
                    problems.append('%s %s in %s: span (%s, %s), its text is at (%d, %d)' % (
                        kw, o.name, fn, o._tx_position, o._tx_position_end, start, end))
                    continue
                loc = get_location(o)
                line = text.count('\n', 0, start) + 1
                col = start - (text.rfind('\n', 0, start) + 1) + 1
                want = {'line': line, 'col': col, 'nchar': end - start, 'filename': os.path.join(tmp, fn)}
                if loc != want:
                    problems.append('%s %s in %s: get_location %s, expected %s' % (kw, o.name, fn, loc, want))
        return problems
    finally:
        shutil.rmtree(tmp, ignore_errors=True)


def main():
    import textx.model as M
    chk = Check(PROP, 'exploration')
    quick = chk.tier == 'quick'
    N = 6 if quick else 8
    WL = 80 if quick else 600
    gs = corpus_list()
    items = [(gi, n, WL, 30000, sorted(chk.known_ids)) for gi in range(len(gs)) for n in range(1, N + 1)]
    items.sort(key=lambda it: -it[1])
    results = pmap(obligation, items)
    chk.cov['functions_encoded'] = src_hash(M.get_model_parser)
    chk.cov['replayed_through'] = src_hash(M.parse_tree_to_objgraph, M.get_location)
    chk.cov['bounds'] = {'input_chars': N, 'witness_classes_per_obligation': WL, 'grammars': len(gs)}
    chk.cov['outside_claim'] = ['longer inputs', 'grammars outside the corpus', 'encodings other than utf-8']
    chk.assumptions = ['one representative per character-class string (classes refined by \\n, \\r, \\t)',
                       'reference spans from the reference derivation (refpeg)']
    wit = 0
    seen = set()
    for it, (st, r, secs) in zip(items, results):
        if st != 'ok':
            chk.harness_error(r)
            continue
        if 'unsupported' in r:
            chk.cov['unsupported'] += 1
            continue
        chk.add_queries(r['queries'], r['solver_s'])
        chk.cov['traces_validated_against_impl'] += r['validated']
        wit += r['witnesses']
        for fid, k in r['known'].items():
            chk.known_hit(fid, 'grammar %s, input %r: %s' % (r['grammar'], k['text'], k['detail']))
        for v in r['violations']:
            key = (v['grammar'], v['kind'])
            if key in seen:
                continue
            seen.add(key)
            chk.violation('grammar %s, input %r%s: %s' % (v['grammar'], v['text'],
                                                         ' (from file)' if v['from_file'] else '', v['detail']), v)
        chk.sample({'grammar': r['grammar'], 'n': r['n'], 'models_checked': r['witnesses']})
    for layout in ('generic', 'user-classes', 'generic+processors', 'user-classes+processors'):
        for pr in user_class_scenario(layout)[:2]:
            chk.violation('two-file load, %s: %s' % (layout, pr), {'user_class_scenario': layout})
        wit += 2
    chk.cov['bounds']['two_file_scenario'] = 'main.m imports lib.m, generic classes and user classes, without and with object processors (one replacing an object by an existing one) (concrete)'
    chk.cov['witness_replays'] = wit
    chk.cov['evaluations'] = max(chk.cov['evaluations'], wit)
    chk.cov['distinct_nontrivial'] = wit
    return chk.finish('one real load per accepted character-class string (refined by newline / CR / tab) per '
                      '(grammar, length); every object of every model is checked')


def replay(data):
    if 'user_class_scenario' in data:
        pr = user_class_scenario(data['user_class_scenario'])
        return bool(pr), pr[:2]
    return _replay(data)


def _replay(data):
    g = next(x for x in corpus_list() if x['name'] == data['grammar'])
    mm = pegcheck.build_mm(g)
    text = data['text']
    ok, refmodel = RefPeg(g['rules'], SymInput.concrete(text), **pegcheck.ref_cfg(g)).model()
    kind, model = real_load(mm, text)
    if kind != 'ok' or not ok:
        return False, 'not loadable'
    probs = [p for p in check_model(g, text, model, refmodel, None) if p[0] == data['kind']]
    return bool(probs), probs[:2]
