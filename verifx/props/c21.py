"""
C21 — autokwd matches keyword-like literals only on word boundaries.

Solver obligations on the live parser models of the same grammar compiled with
autokwd=True (K) and autokwd=False (P), per grammar and input length n <= N:
 (1) for every string literal the reference classifies as identifier-like
     (full match of [^\\d\\W]\\w*, decided by the real `re` on the literal): its
     live matcher in K, started at any position p, never succeeds when the
     character right after the literal is a word character          UNSAT;
 (2) for every other literal the live matchers of K and P agree at every
     position, for every input                                        UNSAT;
 (3) acc_K(s) and not glue(s) and (not acc_P(s) or fingerprints differ) UNSAT,
     where glue(s) = at some position some identifier-like literal of the
     grammar occurs in s (case-folded under ignore_case) directly followed by a
     word character.
Counterexamples are replayed on the two real metamodels.
"""
import re

from arpeggio import Match, StrMatch, RegExMatch

from ..alg import And, Or, Not, Xor, Eq
from ..common import Check, pmap, src_hash, tier
from ..symtext import SymInput, CHR2CODE, FOLDSET, WORD, Unsupported
from ..sympeg import SymPeg, FpIndex
from .. import corpus, pegcheck, gram, modelcmp
from ..pegcheck import Z3, class_text, real_load

PROP = 'C21'
KNOWN_SPELLING = 'C21-ignore-case-keyword-value-spelling'
KW = re.compile(r'[^\d\W]\w*')


def corpus_list():
    return corpus.KEYWORDS + [g for g in corpus.BASIC if g['name'] in ('seq-choice', 'pred-not', 'pred-not-kw',
                                                                       'ung-optional', 'bool-assign', 'kw-ident')]


def literals(g):
    out = []
    for name, params, body in g['rules']:
        for x in gram.subexprs(body):
            if x[0] == 'str' and x[1] not in out:
                out.append(x[1])
    return out


def matchers(mm):
    """literal text -> list of live Match objects"""
    out = {}
    seen = set()

    def walk(e):
        if id(e) in seen:
            return
        seen.add(id(e))
        if isinstance(e, Match):
            key = e.to_match if isinstance(e, StrMatch) else getattr(e, 'to_match', None)
            out.setdefault(key, []).append(e)
        for ch in getattr(e, 'nodes', []) or []:
            walk(ch)
        if getattr(e, 'sep', None) is not None:
            walk(e.sep)
    walk(mm._parser_blueprint.parser_model)
    return out


def glue_term(inp, lits, ignore_case):
    alts = []
    for s in lits:
        if not s or not KW.fullmatch(s):
            continue
        for p in range(0, inp.n - len(s)):
            cs = []
            for i, ch in enumerate(s):
                k = CHR2CODE.get(ch)
                if k is None:
                    cs = [False]
                    break
                cs.append(inp.inset(p + i, FOLDSET[k] if ignore_case else frozenset([k]), record=False))
            cs.append(inp.inset(p + len(s), WORD, record=False))
            alts.append(And(*cs))
    return Or(*alts)


def occurs_term(inp, lits, ignore_case):
    """some identifier-like literal of the grammar occurs in the input (at its very start)"""
    alts = []
    for s in lits:
        if not s or not KW.fullmatch(s) or len(s) > inp.n:
            continue
        cs = []
        for i, ch in enumerate(s):
            k = CHR2CODE.get(ch)
            if k is None:
                cs = [False]
                break
            cs.append(inp.inset(i, FOLDSET[k] if ignore_case else frozenset([k]), record=False))
        alts.append(And(*cs))
    return Or(*alts)


def only_case_differs(cfg, m1, m2):
    """root cause of the known finding: under ignore_case the two models differ only in the letter case of
    string values (keyword regex match vs string match)"""
    if not cfg.get('ignore_case'):
        return False

    def low(x):
        if isinstance(x, dict):
            return {k: low(v) for k, v in x.items()}
        if isinstance(x, list):
            return [low(v) for v in x]
        return x.lower() if isinstance(x, str) else x
    return modelcmp.same(low(modelcmp.canon_real(m1)), low(modelcmp.canon_real(m2)))


def compare_real(g, text, cfg):
    mk = pegcheck.build_mm(g, autokwd=True, **cfg)
    mp = pegcheck.build_mm(g, autokwd=False, **cfg)
    k1, m1 = real_load(mk, text)
    k2, m2 = real_load(mp, text)
    return k1, m1, k2, m2


def obligation(item):
    gi, n, timeout_ms = item[:3]
    known_ids = item[4] if len(item) > 4 else ()
    g = corpus_list()[gi]
    cfg = {k: v for k, v in g['cfg'].items() if k != 'autokwd'}
    if len(item) > 3 and item[3]:
        cfg['ignore_case'] = True
    res = {'grammar': g['name'], 'n': n, 'queries': {}, 'solver_s': 0.0, 'violations': [], 'mismatch': [],
           'validated': 0, 'twin': None, 'obligations': 0, 'discharged': 0, 'unknown': 0, 'known': {}}
    try:
        mk = pegcheck.build_mm(g, autokwd=True, **cfg)
        mp = pegcheck.build_mm(g, autokwd=False, **cfg)
        inp = SymInput.symbolic(n)
        fi = FpIndex(n + 2)
        spk = SymPeg.for_metamodel(mk, inp, fpindex=fi)
        spp = SymPeg.for_metamodel(mp, inp, fpindex=fi)
        ak, _, fk = spk.accept_attrs(mk._parser_blueprint.parser_model)
        ap, _, fp = spp.accept_attrs(mp._parser_blueprint.parser_model)
    except Unsupported as e:
        res['unsupported'] = str(e)
        return res
    z = Z3(timeout_ms)
    z.add(*inp.domain())
    lits = literals(g)
    mK, mP = matchers(mk), matchers(mp)
    ic = bool(cfg.get('ignore_case'))
    # (1) / (2) per literal
    for s in lits:
        kw = bool(s) and bool(KW.fullmatch(s))
        for m in mK.get(s, []):
            for p in range(0, n + 1):
                outk = spk.match1(m, p)
                if kw:
                    c = Or(*[And(cond, inp.inset(end, WORD, record=False)) for (end, k), cond in outk.items()
                             if end < n])
                    what = 'keyword %r matches at %d although a word character follows' % (s, p)
                else:
                    outs_p = [spp.match1(m2, p) for m2 in mP.get(s, [])[:1]]
                    if not outs_p:
                        continue
                    keys = set(outk) | set(outs_p[0])
                    c = Or(*[Xor(outk.get(k_, False), outs_p[0].get(k_, False)) for k_ in keys])
                    what = 'literal %r matches differently with autokwd at %d' % (s, p)
                if c is False:
                    continue
                res['obligations'] += 1
                r = z.check(c)
                if r == 'unsat':
                    res['discharged'] += 1
                elif r == 'sat':
                    text = inp.decode(z.model())
                    ok = replay_literal(m, s, text, p, kw)
                    res['validated'] += 1
                    if ok:
                        res['violations'].append({'grammar': g['name'], 'kind': 'literal', 'literal': s,
                                                  'text': text, 'pos': p, 'detail': what})
                    else:
                        res['mismatch'].append({'text': text, 'literal': s, 'pos': p})
                else:
                    res['unknown'] += 1
    # (1b) matchers of the live parser that textX derived from the literals in some other form (e.g. several
    # keywords merged into one expression): none of them may match exactly a keyword-like literal of the
    # grammar where a word character follows.  Matchers of the grammar's own regex literals and of the base
    # types are exempt (they are not keywords).
    own_regexes = set(x[1] for _, _, body in g['rules'] for x in gram.subexprs(body) if x[0] == 're')
    own_regexes |= set(gram.BASE_RE.values())
    handled = set(id(m) for s_ in lits for m in mK.get(s_, []))
    derived = [m for ms in mK.values() for m in ms
               if id(m) not in handled and isinstance(m, RegExMatch) and m.to_match_regex not in own_regexes
               and getattr(m, 'rule_name', '') not in gram.BASETYPES and not getattr(m, 'root', False)]
    for m in derived:
        for s_ in lits:
            if not s_ or not KW.fullmatch(s_) or any(ch not in CHR2CODE for ch in s_):
                continue
            for p in range(0, n - len(s_)):
                try:
                    outk = spk.match1(m, p)
                except Unsupported:
                    break
                here = [inp.inset(p + i, FOLDSET[CHR2CODE[ch]] if ic else frozenset([CHR2CODE[ch]]), record=False)
                        for i, ch in enumerate(s_)]
                c = Or(*[And(cond, inp.inset(end, WORD, record=False), *here) for (end, k), cond in outk.items()
                         if end == p + len(s_) and end < n])
                if c is False:
                    continue
                res['obligations'] += 1
                r = z.check(c)
                if r == 'unsat':
                    res['discharged'] += 1
                elif r == 'sat':
                    text = inp.decode(z.model())
                    ok = replay_literal(m, s_, text, p, True)
                    res['validated'] += 1
                    if ok:
                        res['violations'].append({'grammar': g['name'], 'kind': 'literal', 'literal': s_, 'text': text,
                                                  'pos': p, 'detail': 'keyword %r is matched at %d by the derived '
                                                  'expression %r although a word character follows' % (s_, p, m.to_match_regex)})
                    else:
                        res['mismatch'].append({'text': text, 'literal': s_, 'pos': p})
                else:
                    res['unknown'] += 1
    # (3) whole inputs
    res['twin'] = z.check(ak)
    glue = glue_term(inp, lits, ic)
    res['obligations'] += 1
    z.push()
    z.add(ak, Not(glue), Or(Not(ap), Not(Eq(fk, fp))))
    tries = 0
    while True:
        r = z.check()
        if r == 'unsat':
            res['discharged'] += 1
            break
        if r != 'sat':
            res['unknown'] += 1
            break
        text = class_text(inp, z.model())
        k1, m1, k2, m2 = compare_real(g, text, cfg)
        res['validated'] += 2
        tries += 1
        bad = None
        if k1 == 'ok' and k2 == 'syntax':
            bad = 'accepted with autokwd, rejected without'
        elif k1 == 'ok' and k2 == 'ok' and not modelcmp.same(modelcmp.canon_real(m1), modelcmp.canon_real(m2)):
            bad = 'models differ: %s' % modelcmp.first_diff(modelcmp.canon_real(m1), modelcmp.canon_real(m2))
            if KNOWN_SPELLING in known_ids and only_case_differs(cfg, m1, m2):
                res['known'].setdefault(KNOWN_SPELLING, '%s on %r (grammar %s)' % (bad, text, g['name']))
                bad = None
                z.add(inp.block_class(text))
                continue
        if bad:
            res['violations'].append({'grammar': g['name'], 'kind': 'input', 'text': text, 'detail': bad, 'cfg': cfg})
            break
        res['mismatch'].append({'text': text, 'real': [k1, k2]})
        z.add(inp.block_class(text))
        if tries > 5:
            res['unknown'] += 1
            break
    z.pop()
    # witness replay of the model clause (what the fingerprints cannot see: the values the model gets):
    # one witness per accepted class string without glue — the two real models must be equal
    if res['twin'] == 'sat' and not res['violations']:
        from ..pegcheck import enumerate_classes
        texts, exhausted, z2 = enumerate_classes(inp, And(ak, Not(glue), ap), 12, timeout_ms)
        for k in z.queries:
            z.queries[k] += z2.queries[k]
        z.secs += z2.secs
        # ... and some that start with a keyword-like literal
        more, _, z3_ = enumerate_classes(inp, And(ak, Not(glue), ap, occurs_term(inp, lits, ic)), 4, timeout_ms)
        for k in z.queries:
            z.queries[k] += z3_.queries[k]
        z.secs += z3_.secs
        texts = list(dict.fromkeys(texts + more))
        if cfg.get('ignore_case'):
            # the witnesses' letter case is the solver's choice: add the upper-case spelling of each
            texts = [v for t in texts for v in dict.fromkeys([t, t.upper()])]
        for text in texts:
            k1, m1, k2, m2 = compare_real(g, text, cfg)
            res['validated'] += 2
            if k1 == 'ok' and k2 == 'ok' and not modelcmp.same(modelcmp.canon_real(m1), modelcmp.canon_real(m2)):
                if KNOWN_SPELLING in known_ids and only_case_differs(cfg, m1, m2):
                    res['known'].setdefault(KNOWN_SPELLING, 'models differ: %s on %r (grammar %s)' % (
                        modelcmp.first_diff(modelcmp.canon_real(m1), modelcmp.canon_real(m2)), text, g['name']))
                    continue
                res['violations'].append({'grammar': g['name'], 'kind': 'input', 'text': text, 'cfg': cfg,
                                          'detail': 'models differ: %s' % modelcmp.first_diff(
                                              modelcmp.canon_real(m1), modelcmp.canon_real(m2))})
                break
    res['queries'] = z.queries
    res['solver_s'] = z.secs
    return res


def replay_literal(m, s, text, p, kw):
    """does the real matcher object behave as the counterexample says?"""
    if isinstance(m, RegExMatch):
        mo = m.regex.match(text, p)
        matched = mo is not None and mo.end() == p + len(s)
    else:
        frag = text[p:p + len(s)]
        matched = (frag.lower() == s.lower()) if m.ignore_case else (frag == s)
    nxt = text[p + len(s):p + len(s) + 1]
    if kw:
        return matched and bool(nxt) and bool(re.match(r'\w', nxt))
    return True


def main():
    import textx.lang as L
    chk = Check(PROP, 'model_checking')
    quick = chk.tier == 'quick'
    N = 5 if quick else 8
    timeout_ms = 60000 if quick else 300000
    gs = corpus_list()
    kn = sorted(chk.known_ids)
    items = [(gi, n, timeout_ms, False, kn) for gi in range(len(gs)) for n in range(0, N + 1)]
    # the same with ignore_case switched on (grammars that do not set it themselves), one length
    items += [(gi, N - 1, timeout_ms, True, kn) for gi in range(len(gs)) if not gs[gi]['cfg'].get('ignore_case')]
    items.sort(key=lambda it: -it[1])
    results = pmap(obligation, items)
    chk.cov['functions_encoded'] = src_hash(L.TextXVisitor.visit_str_match, L.TextXVisitor.__init__)
    chk.cov['bounds'] = {'input_chars': N, 'grammars': len(gs), 'solver_timeout_ms': timeout_ms}
    chk.cov['outside_claim'] = ['longer inputs', 'grammars outside the corpus']
    chk.assumptions = ['Arpeggio 2.0.3 as modelled by sympeg (counterexamples replayed)', 'z3',
                       'identifier-like = full match of [^\\d\\W]\\w* by the real re module']
    ob = dis = nontrivial = 0
    seen = set()
    for it, (st, r, secs) in zip(items, results):
        if st != 'ok':
            chk.harness_error(r)
            continue
        if 'unsupported' in r:
            chk.cov['unsupported'] += 1
            continue
        chk.add_queries(r['queries'], r['solver_s'])
        chk.cov['traces_validated_against_impl'] += r['validated']
        ob += r['obligations']
        dis += r['discharged']
        chk.cov['inconclusive'] += r['unknown']
        if r['twin'] == 'sat':
            nontrivial += 1
        chk.cov['model_mismatches'] += len(r['mismatch'])
        for fid, what in r.get('known', {}).items():
            chk.known_hit(fid, 'under ignore_case the value of an assigned keyword literal is the input spelling with '
                               'autokwd and the grammar spelling without — e.g. %s' % what)
        for v in r['violations']:
            key = (v['grammar'], v['kind'], v.get('literal'))
            if key in seen:
                continue
            seen.add(key)
            chk.violation('grammar %s: %s on %r' % (v['grammar'], v['detail'], v['text']), v)
        chk.sample({'grammar': r['grammar'], 'n': r['n'], 'obligations': r['obligations'],
                    'discharged': r['discharged']})
    chk.cov['distinct_nontrivial'] = nontrivial
    chk.cov['obligations'] = ob
    chk.cov['discharged'] = dis
    return chk.finish('per (grammar, input length): one obligation per (literal, position) and one for whole inputs; '
                      'non-trivial = the grammar accepts some input of that length with autokwd')


def replay(data):
    g = next(x for x in corpus.ALL if x['name'] == data['grammar'])
    cfg = {k: v for k, v in g['cfg'].items() if k != 'autokwd'}
    if data['kind'] == 'input':
        cfg = data.get('cfg', cfg)
        k1, m1, k2, m2 = compare_real(g, data['text'], cfg)
        if k1 == 'ok' and k2 == 'syntax':
            return True, 'accepted with autokwd only'
        if k1 == 'ok' and k2 == 'ok':
            a, b = modelcmp.canon_real(m1), modelcmp.canon_real(m2)
            return (not modelcmp.same(a, b)), modelcmp.first_diff(a, b)
        return False, (k1, k2)
    mk = pegcheck.build_mm(g, autokwd=True, **cfg)
    ms = matchers(mk)
    cand = ms.get(data['literal'], []) + ([m for v in ms.values() for m in v if isinstance(m, RegExMatch)]
                                          if 'derived' in data.get('detail', '') else [])
    if data.get('ignore_case'):
        pass
    for m in cand:
        if 'derived' in data.get('detail', '') and repr(m.to_match_regex) not in data['detail']:
            continue
        if replay_literal(m, data['literal'], data['text'], data['pos'], bool(KW.fullmatch(data['literal']))):
            return True, data['detail']
    return False, 'does not reproduce'
