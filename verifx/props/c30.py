"""
C30 — the textx CLI reports outcomes and passes generator arguments faithfully.

symx runs the real click callback of `textx generate`
(textx/cli/generate.py) with a stub context, a harness language and generator
registered in the real registry, and an argument vector
    [model file, '--' + NAME, (VALUE | '--' + NAME2)?]        (and [model file] alone)
whose NAME / VALUE characters are symbolic (str-compatible proxies).  The
decisions of the argument loop (`startswith('--')`, bare flag or value,
`strip`, dash normalisation) are z3-decided forks; names are pinned by forking
over a small alphabet when the code hashes them (dict keys).  On every path the
keyword arguments the generator received are compared with the reference:
    {norm(NAME): VALUE-without-surrounding-quotes | True}, norm = '-' -> '_',
for both forms, and for generators that declare their parameters: undeclared
or missing mandatory arguments => exit status 1, otherwise the generator runs.
`textx check`: exit 0 / 1 with a located message on concrete valid / invalid
model files (no symbolic dimension; reported separately).
"""
import logging
import os
import tempfile

import z3

from ..alg import And, Or, Not
from ..common import Check, pmap, src_hash, tier
from .. import symx
from ..symx import Ctx, SymStr, SymText
from ..symtext import CHR2CODE

PROP = 'C30'
KNOWN_BARE = 'C30-bare-flag-keeps-dashes'
NAME_ALPHA = [CHR2CODE[c] for c in 'aA-_']       # parameter names are case-sensitive
VAL_ALPHA = [CHR2CODE[c] for c in 'a-"\' ']
GRAMMAR = "Model: 'm' name=ID;"


def setup_registry(declared):
    """register harness language + generator in the real registry"""
    import textx.registration as REG
    from textx import metamodel_from_str
    received = []

    def gen(metamodel, model, output_path, overwrite, debug, **kw):
        received.append(kw)
    REG.clear_language_registrations()
    REG.clear_generator_registrations()
    mm = metamodel_from_str(GRAMMAR)
    # the language declares model parameters whose names the symbolic flag names
    # can take: such arguments go to the model *and* to the generator
    for mp in ('a', 'a_a', '_a'):
        mm.model_param_defs.add(mp, 'model parameter of the harness language')
    REG.register_language(REG.LanguageDesc('c30lang', pattern='*.c30l', description='x',
                                           metamodel=lambda: mm))
    params = None
    if declared is not None:
        params = [REG.GeneratorParam(name=n, description='', mandatory=m) for n, m in declared]
    REG.register_generator(REG.GeneratorDesc('c30lang', 'c30t', 'x', generator=gen, custom_args=params))
    return received


class StubCtx:
    obj = {'debug': False}


def callback():
    from textx.cli import textx as group
    cmd = group.commands['generate']
    cb = cmd.callback
    return getattr(cb, '__wrapped__', cb)


def norm(name):
    return name.replace('-', '_')


def strip_quotes(v):
    return v.strip('"\'')


def reference(args, declared):
    """(exit_code, kwargs) prescribed for concrete argument strings"""
    custom = {}
    i = 0
    files = []
    while i < len(args):
        a = args[i]
        if a.startswith('--'):
            name = a[2:]
            if i + 1 < len(args) and not args[i + 1].startswith('--'):
                custom[norm(name)] = strip_quotes(args[i + 1])
                i += 2
            else:
                custom[norm(name)] = True
                i += 1
        else:
            files.append(a)
            i += 1
    if declared is not None:
        names = {n for n, m in declared}
        for n, m in declared:
            if m and n not in custom:
                return 1, None
        if declared:
            for k in custom:
                if k not in names:
                    return 1, None
    return 0, custom


def run_concrete(model_file, args, declared):
    received = setup_registry(declared)
    logging.disable(logging.CRITICAL)
    try:
        try:
            callback()(StubCtx(), tuple([model_file] + list(args)), None, 'c30lang', 'c30t', False)
            code = 0
        except SystemExit as e:
            code = e.code
        except Exception as e:  # noqa
            code = 'exception %s: %s' % (type(e).__name__, e)
    finally:
        logging.disable(logging.NOTSET)
    return code, (received[0] if received else None)


def explore_case(item):
    nlen, vkind, vlen, declared, timeout_ms = item
    tmpd = tempfile.mkdtemp(prefix='c30_')
    model_file = os.path.join(tmpd, 'x.c30l')
    with open(model_file, 'w') as f:
        f.write('m foo')
    name = SymStr.fresh('n', nlen)
    val = SymStr.fresh('v', vlen) if vkind == 'value' else None
    name2 = SymStr.fresh('k', 1) if vkind == 'switch' else None
    assume = name.domain(NAME_ALPHA)
    if val is not None:
        assume += val.domain(VAL_ALPHA)
    if name2 is not None:
        assume += name2.domain(NAME_ALPHA)
    ctx = Ctx(timeout_ms, max_paths=50000)
    ctx.char_domain = sorted(set(NAME_ALPHA + VAL_ALPHA))

    def path(c):
        received = setup_registry(declared)
        a1 = SymText(SymStr.of('--') + name)
        args = [model_file, a1] if vkind != 'noargs' else [model_file]      # noargs: no custom argument at all
        if val is not None:
            args.append(SymText(val))
        if name2 is not None:
            args.append(SymText(SymStr.of('--') + name2))
        logging.disable(logging.CRITICAL)
        try:
            try:
                callback()(StubCtx(), tuple(args), None, 'c30lang', 'c30t', False)
                code = 0
            except SystemExit as e:
                code = e.code
            except symx.Unsupported:
                raise
            except Exception as e:  # noqa  (e.g. a symbolic value reached the file system)
                code = 'exception %s' % type(e).__name__
        finally:
            logging.disable(logging.NOTSET)
        # pin everything that is still symbolic, then compare concretely
        cargs = [SymText(SymStr.of('--') + name).concretize_fork()] if vkind != 'noargs' else []
        if val is not None:
            cargs.append(SymText(val).concretize_fork())
        if name2 is not None:
            cargs.append(SymText(SymStr.of('--') + name2).concretize_fork())
        got = None
        if received:
            got = {}
            for k, v in received[0].items():
                k = k.concretize_fork() if isinstance(k, SymText) else k
                v = v.concretize_fork() if isinstance(v, SymText) else v
                got[k] = v
        exp_code, exp_kw = reference(cargs, declared)
        ok = (code == exp_code) and (got == exp_kw)
        return (ok, cargs, code, got, exp_code, exp_kw)
    try:
        outs = ctx.explore(path, assume)
    finally:
        try:
            os.remove(model_file)
            os.rmdir(tmpd)
        except OSError:
            pass
    bad = [o for o in outs if not o[0]]
    return {'case': 'name=%d %s=%d declared=%s' % (nlen, vkind, vlen, declared), 'paths': ctx.paths,
            'queries': ctx.queries, 'solver_s': ctx.secs, 'bad': [list(o[1:]) for o in bad[:6]],
            'nbad': len(bad), 'truncated': ctx.truncated, 'declared': declared}


def classify(cargs, code, got, exp_code, exp_kw):
    """known finding: a bare flag whose name contains a dash arrives with the
    dashes (everything else equal)"""
    if got is None or exp_kw is None or code != exp_code:
        return None
    if {norm(k): v for k, v in got.items()} == exp_kw and any('-' in k and got[k] is True for k in got):
        return KNOWN_BARE
    return None


def check_cli():
    """textx check on concrete files: exit 0 for loadable models, 1 with a
    located message otherwise"""
    import logging as L
    from textx.cli import textx as group
    import textx.registration as REG
    from textx import metamodel_from_str
    cb = group.commands['check'].callback
    cb = getattr(cb, '__wrapped__', cb)
    REG.clear_language_registrations()
    mm = metamodel_from_str(GRAMMAR)
    REG.register_language(REG.LanguageDesc('c30lang', pattern='*.c30l', description='x', metamodel=lambda: mm))
    out = []
    nchecks = [4]
    tmpd = tempfile.mkdtemp(prefix='c30c_')
    records = []

    class H(L.Handler):
        def emit(self, rec):
            records.append(rec.getMessage())
    h = H()
    root = L.getLogger()
    old_handlers = root.handlers[:]
    for oh in old_handlers:
        root.removeHandler(oh)
    root.addHandler(h)
    try:
        for content, want in (('m foo', 0), ('m 1', 1), ('', 1), ('m foo bar', 1)):
            fn = os.path.join(tmpd, 'x.c30l')
            with open(fn, 'w') as f:
                f.write(content)
            del records[:]
            try:
                cb(StubCtx(), (fn,), None, None, False)
                code = 0
            except SystemExit as e:
                code = e.code
            msg = ' '.join(records)
            if code != want:
                out.append({'kind': 'check', 'content': content, 'exit': code, 'expected': want})
            elif want == 1 and not ('x.c30l' in msg and ':1:' in msg):
                out.append({'kind': 'check', 'content': content, 'detail': 'error not located: %r' % msg[:100]})
            os.remove(fn)
        # several files of two registered languages in one invocation, every order and validity
        mm2 = metamodel_from_str("Other: 'other' n=INT;")
        REG.register_language(REG.LanguageDesc('c30other', pattern='*.c30o', description='y', metamodel=lambda: mm2))
        import itertools
        cases = {'a.c30l': ('m foo', 0), 'bad.c30l': ('other 3', 1), 'b.c30o': ('other 3', 0), 'bad.c30o': ('m foo', 1)}
        for names in itertools.permutations(cases, 2):
            for nm in names:
                with open(os.path.join(tmpd, nm), 'w') as f:
                    f.write(cases[nm][0])
            want = 1 if any(cases[nm][1] for nm in names) else 0
            del records[:]
            try:
                cb(StubCtx(), tuple(os.path.join(tmpd, nm) for nm in names), None, None, False)
                code = 0
            except SystemExit as e:
                code = e.code
            nchecks[0] += 1
            if code != want:
                out.append({'kind': 'check', 'content': 'files %s' % (names,), 'exit': code, 'expected': want})
            for nm in names:
                os.remove(os.path.join(tmpd, nm))
    finally:
        root.removeHandler(h)
        for oh in old_handlers:
            root.addHandler(oh)
        try:
            os.rmdir(tmpd)
        except OSError:
            pass
    return nchecks[0], out


def main():
    import textx.cli.generate as G
    chk = Check(PROP, 'model_checking')
    quick = chk.tier == 'quick'
    maxn = 2 if quick else 3
    maxv = 2 if quick else 3
    items = []
    decls = [None, [('a_a', True)], [('a', False), ('_', False)], [('A', False), ('aA', False)]]
    for declared in decls:
        for nlen in range(1, maxn + 1):
            items.append((nlen, 'none', 0, declared, 20000))
            items.append((nlen, 'switch', 1, declared, 20000))
            for vlen in range(1, maxv + 1):
                items.append((nlen, 'value', vlen, declared, 20000))
    for declared in decls + [[('a', True), ('_', False)], [('a', False), ('a_a', True)]]:
        items.append((1, 'noargs', 0, declared, 20000))
    results = pmap(explore_case, items)
    chk.cov['functions_encoded'] = src_hash(G.generate)
    chk.cov['bounds'] = {'name_chars': maxn, 'value_chars': maxv, 'name_alphabet': 'a A - _',
                         'value_alphabet': 'a - " \' space', 'declared_parameter_sets': [str(d) for d in decls]}
    chk.cov['stubs'] = ['click context = object with obj={"debug": False}',
                        'harness language c30lang / generator c30t registered in the real registry',
                        'argument names are pinned by forking over the alphabet when the code hashes them']
    chk.cov['outside_claim'] = ['longer names / values, other characters', 'more than two custom arguments',
                                'the --grammar path', 'click option parsing itself']
    chk.assumptions = ['z3 decides the branches on symbolic characters; names are enumerated by forking (finite)']
    paths = 0
    for it, (st, r, secs) in zip(items, results):
        if st != 'ok':
            chk.harness_error(r)
            continue
        chk.add_queries(r['queries'], r['solver_s'])
        paths += r['paths']
        if r['truncated']:
            chk.cov['inconclusive'] += 1
        for b in r['bad']:
            cargs, code, got, exp_code, exp_kw = b
            c2, g2 = run_concrete_tmp(cargs, r['declared'])
            chk.cov['traces_validated_against_impl'] += 1
            if (c2, g2) == (exp_code, exp_kw):
                chk.cov['model_mismatches'] += 1
                chk.sample({'model_mismatch': {'args': cargs, 'symbolic': [code, got], 'concrete': [c2, g2]}})
                continue
            fid = classify(cargs, c2, g2, exp_code, exp_kw)
            if fid and chk.is_known(fid):
                chk.known_hit(fid, 'textx generate x %s passes %r, expected %r' % (' '.join(cargs), g2, exp_kw))
            else:
                chk.violation('textx generate x %s: exit %r kwargs %r, expected exit %r kwargs %r' % (
                    ' '.join(cargs), c2, g2, exp_code, exp_kw), {'args': cargs, 'declared': r['declared']})
                break
        chk.sample({'case': r['case'], 'paths': r['paths'], 'failing_paths': r['nbad']})
    n, bad = check_cli()
    chk.cov['traces_validated_against_impl'] += n
    for b in bad:
        chk.violation('textx check: %s' % b, b)
    n, bad = generic_fallback()
    chk.cov['traces_validated_against_impl'] += n
    for b in bad:
        chk.violation('textx generate, generic generator: %s' % b['detail'], b)
    n, bad = click_level_scenario()
    chk.cov['traces_validated_against_impl'] += n
    for b in bad:
        chk.violation(b['detail'], b)
    chk.cov['paths_explored'] = paths
    chk.cov['distinct_nontrivial'] = paths
    if chk.cov['model_mismatches']:
        chk.harness_error('a symbolic path result did not reproduce concretely')
    return chk.finish('one exploration per (name length, second argument kind/length, declared parameters); each path '
                      'is one z3-feasible decision pattern of the real argument loop with the names pinned by forking')


def generic_fallback():
    """the language is deduced from the file name, it has a generator for another target only, and a generic
    ('any') generator exists for the requested target: that one runs, with the custom arguments"""
    import textx.registration as REG
    out = []
    received = setup_registry(None)          # c30lang with its generator for target c30t
    generic = []

    def gen_any(metamodel, model, output_path, overwrite, debug, **kw):
        generic.append(kw)
    REG.register_generator(REG.GeneratorDesc('any', 'c30generic', 'x', generator=gen_any))
    tmpd = tempfile.mkdtemp(prefix='c30g_')
    fn = os.path.join(tmpd, 'x.c30l')
    with open(fn, 'w') as f:
        f.write('m foo')
    logging.disable(logging.CRITICAL)
    try:
        for language, want_code in ((None, 0),):
            del generic[:]
            try:
                callback()(StubCtx(), (fn, '--a', 'v', '--flag'), None, language, 'c30generic', False)
                code = 0
            except SystemExit as e:
                code = e.code
            except Exception as e:  # noqa
                code = 'exception %s: %s' % (type(e).__name__, e)
            if code != want_code:
                out.append({'kind': 'generic', 'detail': 'textx generate x.c30l --target c30generic%s: exit %r, expected %r' % (
                    '' if language is None else ' --language ' + language, code, want_code)})
            elif want_code == 0 and generic != [{'a': 'v', 'flag': True}]:
                out.append({'kind': 'generic', 'detail': 'the generic generator received %r' % (generic,)})
    finally:
        logging.disable(logging.NOTSET)
        os.remove(fn)
        os.rmdir(tmpd)
        REG.clear_generator_registrations()
        REG.clear_language_registrations()
    return 1, out


CLICK_ARGS = [['--Overwrite'], ['--Output-Path', 'p'], ['--TARGET', 'q'], ['--Grammar', 'g'], ['--Language', 'l'],
              ['--Ignore-Case'], ['--someBool'], ['--a', 'v', '--Flag'], ['--OVERWRITE', '--x', 'y']]


def click_level_scenario():
    """concrete supplement, through click's own argument parser (the symbolic exploration calls the callback
    of the command directly): custom arguments that differ from an option of `generate` itself only in letter
    case are custom arguments"""
    import textx.registration as REG
    from click.testing import CliRunner
    from textx.cli import textx as group
    out = []
    tmpd = tempfile.mkdtemp(prefix='c30k_')
    fn = os.path.join(tmpd, 'x.c30l')
    with open(fn, 'w') as f:
        f.write('m foo')
    logging.disable(logging.CRITICAL)
    try:
        for declared in (None, [('Overwrite', True)]):
            for cargs in CLICK_ARGS:
                received = setup_registry(declared)
                res = CliRunner().invoke(group, ['generate', fn, '--language', 'c30lang', '--target', 'c30t'] + cargs)
                exp_code, exp_kw = reference(cargs, declared)
                got = received[0] if received else None
                if res.exit_code != exp_code or got != exp_kw:
                    out.append({'kind': 'click', 'detail': 'textx generate x.c30l --language c30lang --target c30t %s '
                                '(declared %s): exit %r kwargs %r, expected exit %r kwargs %r'
                                % (' '.join(cargs), declared, res.exit_code, got, exp_code, exp_kw)})
    finally:
        logging.disable(logging.NOTSET)
        os.remove(fn)
        os.rmdir(tmpd)
        REG.clear_generator_registrations()
        REG.clear_language_registrations()
    return 2 * len(CLICK_ARGS), out[:3]


def run_concrete_tmp(cargs, declared):
    tmpd = tempfile.mkdtemp(prefix='c30r_')
    fn = os.path.join(tmpd, 'x.c30l')
    with open(fn, 'w') as f:
        f.write('m foo')
    try:
        return run_concrete(fn, cargs, [tuple(x) for x in declared] if declared is not None else None)
    finally:
        os.remove(fn)
        os.rmdir(tmpd)


def replay(data):
    if data.get('kind') == 'check':
        n, bad = check_cli()
        return bool(bad), bad
    if data.get('kind') == 'generic':
        n, bad = generic_fallback()
        return bool(bad), bad
    if data.get('kind') == 'click':
        n, bad = click_level_scenario()
        return bool(bad), bad
    declared = data.get('declared')
    declared = [tuple(x) for x in declared] if declared is not None else None
    code, got = run_concrete_tmp(data['args'], declared)
    exp = reference(data['args'], declared)
    return (code, got) != exp, {'exit': code, 'kwargs': got, 'expected': exp}
