"""
C31 — generated output files are all-or-nothing.

Fault enumeration (level P) steered by symx selectors: the three built-in
generators (textX->dot, any->dot, textX->PlantUML) are run through the real
generator callables; `builtins.open` is wrapped (harness side, only for the
output file) so that the real buffered text file sits on a raw stream whose
i-th OS-level write() / close() fails with OSError iff selector fail_i is
chosen (the level at which a full disk shows, wherever the code flushes:
explicit close, context-manager exit, finaliser).  Every raw write / close of
an unfaulted run is one fault point = one path, in two scenarios: generating into
an empty directory and regenerating with overwrite over an existing complete file.  After a failing run the target
file must not exist, and a second run without `overwrite` must generate the
complete file (byte-identical to an unfaulted run).
"""
import builtins
import io
import os
import sys
import tempfile

import z3

from ..common import Check, pmap, src_hash
from ..symx import Ctx

PROP = 'C31'
KNOWN = 'C31-partial-file-left'
GRAMMAR = """
Model: 'model' name=ID items+=Item;
Item: Box | Leaf;
Box: 'box' name=ID '{' items*=Item '}';
Leaf: 'leaf' name=ID ('->' to=[Leaf])? ';';
"""
MODEL = "model m box a { leaf x; leaf y -> x; box b { leaf z -> y; } } leaf w;"
TARGETS = [('textX', 'dot', 'g.dot'), ('any', 'dot', 'm.dot'), ('textX', 'PlantUML', 'g.pu'),
           ('any-multi-file', 'dot', 'm.dot')]
# a model with an import: the model export then writes one cluster per file of the repository
GRAMMAR2 = """
Model: 'model' name=ID imports*=Import items+=Item;
Import: 'import' importURI=STRING;
Item: Box | Leaf;
Box: 'box' name=ID '{' items*=Item '}';
Leaf: 'leaf' name=ID ('->' to=[Leaf])? ';';
"""
MODEL2 = 'model m import "lib.mod" box a { leaf x -> p; leaf y -> x; } leaf w -> q;'
LIB2 = 'model lib box l { leaf p; leaf q -> p; }'


class InjectedOS(OSError):
    pass


class InjectedRT(RuntimeError):
    """a failure that is not an I/O error (a bug in the generator, a bad model value)"""


class InjectedKI(KeyboardInterrupt):
    """not even an Exception: the user interrupts the generator"""


EXC = [InjectedOS, InjectedRT, InjectedKI]
INJECTED = (OSError, InjectedRT, InjectedKI)


class FaultyRaw(io.RawIOBase):
    """raw (OS-level) stream under the real buffered text file object: the
    i-th write() / close() system call fails when the hook says so — the level
    at which a full disk or a quota shows, wherever the Python code happens to
    flush (explicit close, context manager exit, or a finaliser)"""

    def __init__(self, name, mode, hook):
        io.RawIOBase.__init__(self)
        self._raw = io.FileIO(name, mode)
        self._hook = hook

    def writable(self):
        return True

    def write(self, b):
        self._hook('write')
        return self._raw.write(b)

    def close(self):
        if not self.closed:
            try:
                self._hook('close')
            finally:
                self._raw.close()
                io.RawIOBase.close(self)

    def fileno(self):
        return self._raw.fileno()


SMALL_BUFFERS = [False]


def faulty_open(name, mode, hook, encoding=None):
    if not SMALL_BUFFERS[0]:
        # CPython's default buffering: a small export reaches the OS only in
        # the final flush (close / context-manager exit / finaliser)
        return io.TextIOWrapper(io.BufferedWriter(FaultyRaw(name, 'w', hook)), encoding=encoding or 'utf-8')
    # small buffers, so that an export makes several OS-level writes on the way
    f = io.TextIOWrapper(io.BufferedWriter(FaultyRaw(name, 'w', hook), buffer_size=128),
                         encoding=encoding or 'utf-8', write_through=False)
    f._CHUNK_SIZE = 64
    return f


def run_generator(ti, outdir, hook, overwrite=False):
    """run one built-in generator with output into outdir"""
    from textx import metamodel_from_file, generator_for_language_target
    lang, target, outname = TARGETS[ti]
    gfile = os.path.join(outdir, 'g.tx')
    mfile = os.path.join(outdir, 'm.mod')
    multi = lang == 'any-multi-file'
    with open(gfile, 'w') as f:
        f.write(GRAMMAR2 if multi else GRAMMAR)
    with open(mfile, 'w') as f:
        f.write(MODEL2 if multi else MODEL)
    mm = metamodel_from_file(gfile)
    if multi:
        import textx.scoping.providers as P
        with open(os.path.join(outdir, 'lib.mod'), 'w') as f:
            f.write(LIB2)
        mm.register_scope_providers({'*.*': P.PlainNameImportURI()})
        lang = 'any'
    gen = generator_for_language_target(lang, target)
    real_open = builtins.open

    def fake_open(name, mode='r', *a, **k):
        # every text file the generator writes into the output folder (whatever it is called)
        if 'w' in mode and 'b' not in mode and str(name).startswith(outdir) and \
                os.path.basename(str(name)) not in ('g.tx', 'm.mod', 'lib.mod'):
            return faulty_open(name, mode, hook, k.get('encoding'))
        return real_open(name, mode, *a, **k)
    builtins.open = fake_open
    try:
        if lang == 'textX':
            gen(None, mm, outdir, overwrite, False)
        else:
            model = mm.model_from_file(mfile)
            gen(mm, model, outdir, overwrite, False)
    finally:
        builtins.open = real_open
    return os.path.join(outdir, outname)


def explore(item):
    ti, = item
    ctx = Ctx(10000, max_paths=20000, free_selectors=True)
    # reference content
    d0 = tempfile.mkdtemp(prefix='c31_')
    try:
        ref_path = run_generator(ti, d0, lambda op: None)
        with open(ref_path) as f:
            ref = f.read()
    finally:
        _rmtree(d0)

    def path(c):
        d = tempfile.mkdtemp(prefix='c31_')
        n = [0]
        fired = []

        def hook(op):
            i = n[0]
            n[0] += 1
            if fired:
                # either the condition persists (a full disk stays full: later writes of the
                # same run fail too, e.g. the flush retried on close) or it was transient
                if op == 'write' and fired[0][3]:
                    raise InjectedOS('injected fault persists at %s #%d' % (op, i))
                return
            if c.branch(z3.Bool('fail_%d' % i)):
                # what kind of failure: an I/O error, another exception, an interrupt
                k = 0 if c.branch(z3.Bool('io_error')) else (1 if c.branch(z3.Bool('other_exception')) else 2)
                persistent = c.branch(z3.Bool('failure_persists'))
                fired.append((i, op, k, persistent))
                raise EXC[k]('injected fault at %s #%d' % (op, i))
        try:
            # scenario selector: generate into an empty directory, or regenerate
            # with overwrite over a complete file from an earlier run
            SMALL_BUFFERS[0] = c.branch(z3.Bool('small_buffers'))
            regen = c.branch(z3.Bool('regenerate_over_existing'))
            if regen:
                run_generator(ti, d, lambda op: None)
            before = set(os.listdir(d))
            try:
                out = run_generator(ti, d, hook, overwrite=regen)
                failed = False
            except INJECTED:
                failed = True
                out = os.path.join(d, TARGETS[ti][2])
            if not failed:
                if not fired:
                    return ('nofault', None, n[0])
                # a system call failed but the generator reported success
                got = ''
                if os.path.exists(out):
                    with open(out) as f:
                        got = f.read()
                if _norm(got) != _norm(ref):
                    return ('left', {'fault': fired[0], 'size': len(got), 'full': len(ref), 'regenerate': regen,
                                     'reported': 'success', 'small_buffers': SMALL_BUFFERS[0]}, n[0])
                return ('ok', fired[0], n[0])
            # anything else the failed run left in the output folder (temporary / partial files)
            stray = sorted(f_ for f_ in os.listdir(d) if f_ not in ('g.tx', 'm.mod', 'lib.mod', TARGETS[ti][2])
                           and not (regen and f_ in before))
            if stray:
                return ('left', {'fault': fired[0], 'size': os.path.getsize(os.path.join(d, stray[0])), 'full': len(ref),
                                 'regenerate': regen, 'small_buffers': SMALL_BUFFERS[0], 'stray_files': stray}, n[0])
            if os.path.exists(out):
                with open(out) as f:
                    got = f.read()
                # a *complete* file left by a run that failed at the very end is not a truncated file
                if _norm(got) != _norm(ref):
                    return ('left', {'fault': fired[0], 'size': len(got), 'full': len(ref), 'regenerate': regen,
                                     'small_buffers': SMALL_BUFFERS[0]}, n[0])
                return ('ok', fired[0], n[0])
            # second run without overwrite must produce the complete file
            out2 = run_generator(ti, d, lambda op: None)
            with open(out2) as f:
                got = f.read()
            if _norm(got) != _norm(ref):
                return ('incomplete', {'fault': fired[0], 'size': len(got), 'full': len(ref), 'regenerate': regen,
                                       'small_buffers': SMALL_BUFFERS[0]}, n[0])
            return ('ok', fired[0], n[0])
        finally:
            _rmtree(d)
    outs = ctx.explore(path)
    return {'target': '%s->%s' % TARGETS[ti][:2], 'ti': ti, 'paths': ctx.paths,
            'fault_points': max([o[2] for o in outs] + [0]),
            'bad': [[o[0], o[1]] for o in outs if o[0] in ('left', 'incomplete')],
            'ok': sum(1 for o in outs if o[0] == 'ok')}


def _norm(text):
    """the dot export uses id(obj) as node ids: compare modulo numbers"""
    import re
    # temporary directory names (cluster labels of multi-file models) and numbers
    return re.sub(r'\d+', 'N', re.sub(r'c31r?_\w+', 'DIR', text))


def _rmtree(d):
    for fn in os.listdir(d):
        try:
            os.remove(os.path.join(d, fn))
        except OSError:
            pass
    try:
        os.rmdir(d)
    except OSError:
        pass


def replay_fault(ti, index, regenerate=False, small_buffers=True, kind=0, persistent=True):
    SMALL_BUFFERS[0] = small_buffers
    d = tempfile.mkdtemp(prefix='c31r_')
    n = [0]
    if regenerate:
        run_generator(ti, d, lambda op: None)
    before = set(os.listdir(d))

    def hook(op):
        i = n[0]
        n[0] += 1
        if i == index:
            raise EXC[kind]('injected fault')
        if i > index and op == 'write' and persistent:
            raise InjectedOS('injected fault persists')
    try:
        try:
            out = run_generator(ti, d, hook, overwrite=regenerate)
            if n[0] <= index:
                return False, 'fault point not reached'
            d2 = tempfile.mkdtemp(prefix='c31r_')
            try:
                with open(run_generator(ti, d2, lambda op: None)) as f:
                    ref = f.read()
            finally:
                _rmtree(d2)
            got = ''
            if os.path.exists(out):
                with open(out) as f:
                    got = f.read()
            if _norm(got) != _norm(ref):
                return True, 'success reported although a write failed: %d of %d bytes on disk' % (len(got), len(ref))
            return False, 'complete file'
        except INJECTED:
            pass
        out = os.path.join(d, TARGETS[ti][2])
        stray = sorted(f_ for f_ in os.listdir(d) if f_ not in ('g.tx', 'm.mod', 'lib.mod', TARGETS[ti][2])
                       and not (regenerate and f_ in before))
        if stray:
            return True, 'the failed run left %s in the output folder' % stray
        if os.path.exists(out):
            d2 = tempfile.mkdtemp(prefix='c31r_')
            try:
                with open(run_generator(ti, d2, lambda op: None)) as f:
                    ref = f.read()
            finally:
                _rmtree(d2)
            with open(out) as f:
                got = f.read()
            if _norm(got) != _norm(ref):
                return True, 'partial file of %d of %d bytes left behind' % (len(got), len(ref))
            return False, 'a complete file is left'
        return False, 'no file left'
    finally:
        _rmtree(d)


def main():
    import textx.generators as G
    import textx.export as E
    chk = Check(PROP, 'fault_enumeration')
    results = pmap(explore, [(i,) for i in range(len(TARGETS))])
    chk.cov['functions_encoded'] = src_hash(G.gen_file, G.metamodel_generate_dot, G.model_generate_dot,
                                            G.metamodel_generate_plantuml, E.metamodel_export, E.model_export)
    chk.cov['bounds'] = {'generators': ['%s->%s' % t[:2] for t in TARGETS], 'fault_kinds': ['raw write', 'raw close'], 'exception_kinds': ['OSError', 'RuntimeError', 'KeyboardInterrupt'],
                         'one_fault_per_run': True}
    chk.cov['stubs'] = ['builtins.open wrapped for every text file written into the output folder (fault-injecting file object)']
    chk.cov['outside_claim'] = ['faults in open() itself, several faults per run, other generators']
    chk.assumptions = ['every write/flush/close call of the export is a fault point; enumerated exhaustively']
    paths = points = 0
    for (st, r, secs) in results:
        if st != 'ok':
            chk.harness_error(r)
            continue
        paths += r['paths']
        points += r['fault_points']
        if r['ok'] + len(r['bad']) == 0:
            chk.harness_error('vacuous: no fault point reached for %s' % r['target'])
        reported = False
        for kind, d in r['bad']:
            if chk.is_known(KNOWN):
                chk.known_hit(KNOWN, '%s: fault at %s leaves %s' % (r['target'], d['fault'], d))
            elif not reported:
                reported = True
                ti = r['ti']
                kind_ = d['fault'][2] if len(d['fault']) > 2 else 0
                pers_ = d['fault'][3] if len(d['fault']) > 3 else True
                bad, detail = replay_fault(ti, d['fault'][0], d.get('regenerate', False), d.get('small_buffers', True),
                                           kind_, pers_)
                chk.cov['traces_validated_against_impl'] += 1
                if bad or kind == 'incomplete':
                    chk.violation('%s: injected failure at %s #%d: %s (%d of %d bytes)' % (
                        r['target'], d['fault'][1], d['fault'][0], kind, d['size'], d['full']),
                        {'target_index': ti, 'fault_index': d['fault'][0], 'regenerate': d.get('regenerate', False),
                         'small_buffers': d.get('small_buffers', True), 'exception_kind': kind_, 'persistent': pers_})
        chk.sample({'generator': r['target'], 'fault_points': r['fault_points'], 'clean_after_fault': r['ok'],
                    'file_left_or_incomplete': len(r['bad'])})
    chk.cov['paths_explored'] = paths
    chk.cov['evaluations'] = paths
    chk.cov['distinct_nontrivial'] = points
    chk.cov['exhaustive'] = True
    return chk.finish('one path per write/flush/close call of each built-in generator (the call is made to fail); '
                      'distinct = distinct fault points')


def replay(data):
    return replay_fault(data['target_index'], data['fault_index'], data.get('regenerate', False),
                        data.get('small_buffers', True), data.get('exception_kind', 0), data.get('persistent', True))
