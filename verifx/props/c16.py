"""
C16 — loading is independent of the metamodel's history.

Two dimensions.  Histories are *enumerated* (finite universe):
sequences of up to L operations on a subject metamodel — loads of accepted
inputs, of syntactically rejected inputs, of inputs failing in reference
resolution, of inputs failing while the object graph is built (a match-rule
processor rejects a value nested inside other objects), loads from a file, and the construction + use of a sibling
metamodel of the same grammar with every parser flag flipped (ignore_case,
autokwd, skipws, memoization) in the same process (before the subject is built
when the history starts with it).  Process discipline: the reference side
(fresh metamodel, its encoding, the witnesses and their fresh outcomes) and
every single history run in processes forked from one in which no metamodel
was ever built, so "fresh" means nothing built before, and no history sees
another; the reference encoding travels as SMT-LIB text.  Inputs are *solver
quantified*: after every history the live parser model of the subject is
encoded again (sympeg reads the live Arpeggio objects: structure, regexes and
their flags, ws / skipws / eolterm / suppress state) and z3 must prove

    exists s, |s| = n:  acc_after(s) != acc_fresh(s)  or  fingerprints differ     UNSAT

against the encoding of a freshly built metamodel of the same configuration.
What an encoding cannot see (caches, per-class storage, repositories) is
covered by witness replay: one witness per accepted / rejected character-class
string is loaded by the subject after the history and must give the model
(structure, classes, values) or the error (type, message, line, column) that
fresh metamodels give.
"""
import os
import tempfile

import z3

from ..alg import Or
from ..common import Check, pmap, src_hash
from ..symtext import SymInput, Unsupported
from ..sympeg import SymPeg, FpIndex
from .. import corpus, pegcheck, modelcmp
from ..pegcheck import Formulas, Z3, class_text
from ..gram import render_grammar

PROP = 'C16'

SCENARIOS = [
    # (grammar name, metamodel configuration, user classes?)
    ('objref', {}, False),
    ('objref', {'memoization': True}, True),
    ('kw-basic', {'autokwd': True}, False),
    ('kw-list', {'ignore_case': True, 'memoization': True}, False),
    ('kw-regex', {'ignore_case': True}, False),
    ('match-regex', {'ignore_case': True, 'autokwd': True}, False),
    ('noskipws-reset', {}, True),
    ('comment-line', {'memoization': True}, False),
    ('ws-rule-comment', {}, False),
    ('recursive', {'memoization': True}, True),
    ('abstract', {}, True),
    ('eolterm', {'skipws': True}, False),
    # Comment rules that are not a single match (choice of regexes / of rules), with memoization
    ('kw-comment-choice', {'memoization': True}, False),
    ('comment-rule-choice', {'memoization': True}, False),
]
OPS = ['load-accepted-0', 'load-accepted-1', 'load-rejected-0', 'load-rejected-1', 'load-dangling-ref',
       'load-from-file', 'sibling-flipped-flags', 'sibling-same-config', 'load-failing-in-construction']
# inputs that parse but fail while the object graph is built (a match-rule processor registered
# by build() rejects the identifier 'boom' / the integer 13), nested inside other objects
CONSTRUCTION_FAILURE = {'objref': 'd a d boom', 'recursive': '(a (b (boom)))', 'abstract': '1 ((13))',
                        'noskipws-reset': 'p<13>', 'kw-basic': 'in boom'}


def grammar(name):
    return next(g for g in corpus.ALL if g['name'] == name)


def user_classes(g):
    """fresh user classes for the common rules of g"""
    from ..gram import rule_kinds

    def init(self, parent=None, **kw):
        if parent is not None:
            self.parent = parent
        for k, v in kw.items():
            setattr(self, k, v)
    kinds = rule_kinds(g['rules'])
    return [type(nm, (object,), {'__init__': init}) for nm, k in kinds.items() if k == 'common']


def build(g, cfg, with_classes):
    from textx import metamodel_from_str
    c = {k: v for k, v in g['cfg'].items() if k in pegcheck.MM_KEYS}
    c.update(cfg)
    if with_classes:
        c['classes'] = user_classes(g)
    mm = metamodel_from_str(render_grammar(g['rules']), **c)
    if g['name'] in CONSTRUCTION_FAILURE:
        from textx.exceptions import TextXSemanticError

        def id_proc(v):
            if str(v).lower() == 'boom':
                raise TextXSemanticError('identifier rejected by its processor')
            return v

        def int_proc(v):
            if int(v) == 13:
                raise TextXSemanticError('integer rejected by its processor')
            return int(v)
        mm.register_obj_processors({'ID': id_proc, 'INT': int_proc})
    return mm


def flipped(g, cfg):
    base = {k: v for k, v in g['cfg'].items() if k in pegcheck.MM_KEYS}
    base.update(cfg)
    return {'ignore_case': not base.get('ignore_case', False), 'autokwd': not base.get('autokwd', False),
            'skipws': not base.get('skipws', True), 'memoization': not base.get('memoization', False)}


def describe(mm, text, from_file=None):
    from textx.exceptions import TextXSyntaxError, TextXSemanticError
    try:
        if from_file:
            with open(from_file, 'w') as f:
                f.write(text)
            m = mm.model_from_file(from_file)
        else:
            m = mm.model_from_str(text)
        return ('ok', modelcmp.canon_real(m))
    except (TextXSyntaxError, TextXSemanticError) as e:
        msg = str(e)
        if from_file:
            msg = msg.replace(from_file, '<file>')
        return (type(e).__name__, e.line, e.col, msg[:160])
    except Exception as e:  # noqa
        return ('exception', type(e).__name__, str(e)[:160])


def same(a, b):
    if a[0] == 'ok' and b[0] == 'ok':
        return modelcmp.same(a[1], b[1])
    return a == b


def encode(mm, inp, fpi):
    root = mm._parser_blueprint.parser_model
    acc, _, fp = SymPeg.for_metamodel(mm, inp, fpindex=fpi).accept_attrs(root)
    return acc, fp


def run_ops(g, cfg, with_classes, hist, acc_texts, rej_texts, fn):
    """perform a history in this process; returns the subject metamodel"""
    head = 0
    # sibling operations at the head of a history happen before the subject
    # metamodel is even built
    while head < len(hist) and hist[head].startswith('sibling'):
        sib = build(g, flipped(g, cfg) if hist[head] == 'sibling-flipped-flags' else cfg, False)
        for t in (acc_texts[:1] + rej_texts[:1]):
            describe(sib, t)
        head += 1
    subject = build(g, cfg, with_classes)
    for op in hist[head:]:
        if op.startswith('load-accepted'):
            if int(op[-1]) < len(acc_texts):
                describe(subject, acc_texts[int(op[-1])])
        elif op.startswith('load-rejected'):
            if int(op[-1]) < len(rej_texts):
                describe(subject, rej_texts[int(op[-1])])
        elif op == 'load-dangling-ref':
            if 'refs' in g['tags']:
                describe(subject, 'd a u zz')
            elif rej_texts:
                describe(subject, rej_texts[-1])
        elif op == 'load-from-file':
            if acc_texts:
                describe(subject, acc_texts[0], from_file=fn)
        elif op == 'load-failing-in-construction':
            if g['name'] in CONSTRUCTION_FAILURE:
                describe(subject, CONSTRUCTION_FAILURE[g['name']])
        elif op.startswith('sibling'):
            sib = build(g, flipped(g, cfg) if op == 'sibling-flipped-flags' else cfg, False)
            for t in (acc_texts[:1] + rej_texts[:1]):
                describe(sib, t)
    return subject


def reference_side(si, n, timeout_ms, wlimit):
    """runs in its own pristine process: the encoding of a freshly built
    metamodel (as SMT-LIB text), the witnesses, and what fresh metamodels say"""
    from ..alg import lift_bool, lift_int
    gname, cfg, with_classes = SCENARIOS[si]
    g = grammar(gname)
    inp = SymInput.symbolic(n)
    fpi = FpIndex(n + 2)
    acc_f, fp_f = encode(build(g, cfg, with_classes), inp, fpi)
    s = z3.Solver()
    s.add(z3.Bool('ACC_FRESH') == lift_bool(acc_f))
    s.add(z3.Int('FP_FRESH') == lift_int(fp_f))
    acc_texts, _, z1 = pegcheck.enumerate_classes(inp, acc_f, wlimit, timeout_ms)
    rej_texts, _, z2 = pegcheck.enumerate_classes(inp, pegcheck.Not(acc_f), wlimit, timeout_ms)
    fresh = {t: describe(build(g, cfg, with_classes), t) for t in acc_texts + rej_texts}
    q = {k: z1.queries[k] + z2.queries[k] for k in z1.queries}
    return {'smt2': s.to_smt2(), 'acc_texts': acc_texts, 'rej_texts': rej_texts, 'fresh': fresh,
            'queries': q, 'solver_s': z1.secs + z2.secs}


def history_side(si, n, hists, ref, timeout_ms):
    """runs in a process forked from one in which no metamodel was ever built;
    performs the given histories one after the other (each with a new subject
    metamodel) and stops at the first difference"""
    gname, cfg, with_classes = SCENARIOS[si]
    g = grammar(gname)
    inp = SymInput.symbolic(n)
    fpi = FpIndex(n + 2)
    tmpd = tempfile.mkdtemp(prefix='c16_')
    fn = os.path.join(tmpd, 'm.txt')
    fresh_assertions = z3.parse_smt2_string(ref['smt2'])
    outs = []
    try:
        for hi, hist in enumerate(hists):
            out = {'hist': hist, 'verdict': None, 'bad': None, 'ran_before': hists[:hi]}
            outs.append(out)
            subject = run_ops(g, cfg, with_classes, hist, ref['acc_texts'], ref['rej_texts'], fn)
            # (1) solver: the live parser model is still equivalent to the fresh one
            try:
                acc_h, fp_h = encode(subject, inp, fpi)
            except Unsupported as e:
                out['verdict'] = 'unsupported: %s' % e
                continue
            z = Z3(timeout_ms)
            z.add(*inp.domain())
            for a in fresh_assertions:
                z.s.add(a)
            r = z.check(Formulas.differ(acc_h, fp_h, z3.Bool('ACC_FRESH'), z3.Int('FP_FRESH')))
            out['q'] = (r, z.secs)
            if r == 'sat':
                # the exact assignment (the character classes recorded in this process
                # do not include the distinctions the fresh encoding makes)
                text = inp.decode(z.model())
                out['verdict'] = 'candidate'
                out['bad'] = {'text': text, 'after_history': describe(subject, text), 'how': 'solver'}
                break
            out['verdict'] = 'holds' if r == 'unsat' else 'unknown'
            # (2) replay of the witnesses on the subject, in sequence
            witnesses = ref['acc_texts'] + ref['rej_texts']
            for i, t in enumerate(witnesses):
                a = describe(subject, t)
                if not same(a, ref['fresh'][t]):
                    out['verdict'] = 'violated'
                    out['bad'] = {'text': t, 'after_history': a if a[0] != 'ok' else ('ok', 'a different model'),
                                  'fresh': ref['fresh'][t] if ref['fresh'][t][0] != 'ok' else ('ok',), 'how': 'replay',
                                  'replayed_before': witnesses[:i]}
                    break
            if out['verdict'] == 'violated':
                break
        return outs
    finally:
        try:
            if os.path.exists(fn):
                os.remove(fn)
            os.rmdir(tmpd)
        except OSError:
            pass


def fresh_outcome(si, text):
    gname, cfg, with_classes = SCENARIOS[si]
    return describe(build(grammar(gname), cfg, with_classes), text)


def histories(length):
    import itertools
    out = [[]]
    for k in range(1, length + 1):
        out += [list(h) for h in itertools.product(OPS, repeat=k)]
    return out


def obligation(item):
    """this process never builds a metamodel itself: the reference side and every
    history run in children forked from it"""
    from ..common import run_forked
    si, n, length, timeout_ms, wlimit, isolate = item
    gname, cfg, with_classes = SCENARIOS[si]
    res = {'scenario': '%s %s%s' % (gname, cfg, ' +user classes' if with_classes else ''), 'n': n,
           'histories': 0, 'queries': {'sat': 0, 'unsat': 0, 'unknown': 0}, 'solver_s': 0.0, 'validated': 0,
           'violations': [], 'mismatch': [], 'twin': None, 'unknown': 0, 'witnesses': 0}
    try:
        ref = run_forked(reference_side, si, n, timeout_ms, wlimit)
    except RuntimeError as e:
        if 'Unsupported' in str(e):
            res['unsupported'] = str(e).splitlines()[0]
            return res
        raise
    for k in res['queries']:
        res['queries'][k] += ref['queries'][k]
    res['solver_s'] += ref['solver_s']
    res['twin'] = 'sat' if ref['acc_texts'] else 'unsat'
    nw = len(ref['acc_texts']) + len(ref['rej_texts'])
    res['witnesses'] = nw
    # histories that start with a sibling metamodel need a process in which nothing
    # was built before, one each; the others (they start by building the subject)
    # share one process, run one after the other — state accumulating between
    # them only lengthens the effective history
    hs = histories(length)
    groups = [[h for h in hs if not (h and h[0].startswith('sibling'))]]
    if isolate:
        groups += [[h] for h in hs if h and h[0].startswith('sibling')]
    else:
        # quick tier: one process per kind of leading sibling (exact for its first history)
        for first in ('sibling-flipped-flags', 'sibling-same-config'):
            groups.append([h for h in hs if h and h[0] == first])
    outs = []
    for grp in groups:
        outs += run_forked(history_side, si, n, grp, ref, timeout_ms)
    for o in outs:
        hist = o['hist']
        res['histories'] += 1
        if 'q' in o:
            r, secs = o['q']
            res['queries'][r] += 1
            res['solver_s'] += secs
        if o['verdict'] in ('holds', 'unknown'):
            res['validated'] += nw
        if o['verdict'] == 'candidate':
            # the solver found an input on which the two encodings differ: fresh outcome from a pristine process
            b = run_forked(fresh_outcome, si, o['bad']['text'])
            res['validated'] += 2
            if same(o['bad']['after_history'], b):
                res['mismatch'].append({'history': hist, 'text': o['bad']['text']})
            else:
                a = o['bad']['after_history']
                o['bad']['after_history'] = a if a[0] != 'ok' else ('ok', 'a different model')
                o['bad']['fresh'] = b if b[0] != 'ok' else ('ok',)
                o['verdict'] = 'violated'
        if o['verdict'] == 'violated' and len(res['violations']) < 3:
            res['violations'].append({'scenario': si, 'n': n, 'history': hist, 'detail': o['bad'],
                                      'ran_before': o.get('ran_before', [])})
        elif o['verdict'] == 'unknown':
            res['unknown'] += 1
        elif o['verdict'] and o['verdict'].startswith('unsupported'):
            res['unsupported'] = o['verdict']
    return res


def _replay_side(si, n, hist, text, before, acc_texts, rej_texts, earlier=()):
    gname, cfg, with_classes = SCENARIOS[si]
    g = grammar(gname)
    tmpd = tempfile.mkdtemp(prefix='c16r_')
    fn = os.path.join(tmpd, 'm.txt')
    try:
        for h in earlier:       # earlier histories of the same process, each followed by the witness replay
            sub = run_ops(g, cfg, with_classes, h, acc_texts, rej_texts, fn)
            for t in acc_texts + rej_texts:
                describe(sub, t)
        subject = run_ops(g, cfg, with_classes, hist, acc_texts, rej_texts, fn)
        for t in before:
            describe(subject, t)
        return describe(subject, text)
    finally:
        try:
            if os.path.exists(fn):
                os.remove(fn)
            os.rmdir(tmpd)
        except OSError:
            pass


def replay_history(si, n, hist, text, before=(), earlier=(), wlimit=12):
    """concrete replay, each side in its own pristine process: subject after
    the history (and the witnesses replayed before the failing one) vs a fresh
    metamodel, on one text; `earlier` = histories performed before in the same
    process (tried only if the history alone does not reproduce)"""
    from ..common import run_forked
    ref = run_forked(reference_side, si, n, 30000, wlimit)
    b = run_forked(fresh_outcome, si, text)
    a = run_forked(_replay_side, si, n, hist, text, list(before), ref['acc_texts'], ref['rej_texts'])
    if not same(a, b):
        return True, {'after_history': a[0], 'fresh': b[0], 'history': hist}
    if earlier:
        a = run_forked(_replay_side, si, n, hist, text, list(before), ref['acc_texts'], ref['rej_texts'], list(earlier))
        if not same(a, b):
            return True, {'after_history': a[0], 'fresh': b[0], 'history': list(earlier) + [hist],
                          'note': 'needs the earlier histories of the same process'}
    return False, {'after_history': a[0], 'fresh': b[0]}


# ---------------------------------------------------------------- file histories
# supplement without a solver dimension: sequences of file loads on one metamodel
# (imports, global repository on/off); every load of the sequence must give what a
# fresh metamodel gives for that file (files never change, so a cached model is
# structurally the fresh one)
FGRAMMAR = """
Model: imports*=Import items*=Item;
Import: 'import' importURI=STRING;
Item: 'item' name=ID ('->' ref=[Item])?;
"""
FFILES = {
    'lib.m': 'item l1 item l2 -> l1',
    'a.m': 'import "lib.m" item a1 -> l2',
    'c.m': 'import "lib.m" import "a.m" item c1 -> a1',
    'missing-import.m': 'import "lib.m" import "absent.m" item b1 -> l1',
    'syntax.m': 'import "lib.m" item b2 -> %',
    'dangling.m': 'import "a.m" item b3 -> nowhere',
    'imports-broken.m': 'import "lib.m" import "syntax.m" item b4 -> l1',
}
# './x' and 'rel:x' are other spellings of the same file: with a './' segment, and relative to the working directory
FOPS = ['a.m', 'c.m', 'missing-import.m', 'syntax.m', 'dangling.m', 'imports-broken.m', './a.m', 'rel:c.m', 'rel:lib.m']
# search-path configuration: the same import name means different files for models in different directories
SP_FILES = {
    'a/main.m': 'import "common.m" item x -> ca',
    'a/common.m': 'item ca',
    'a/extra.m': 'item ea',
    'b/main.m': 'import "common.m" item y -> cl',
    'lib/common.m': 'item cl',
    'c/main.m': 'import "extra.m" item z',
}
SP_OPS = ['a/main.m', 'b/main.m', 'c/main.m']
# scope providers registered as RREL strings / provider objects that serve several attributes: the provider
# objects live as long as the metamodel, so whatever they keep between calls is history
RR_GRAMMAR = """
Model: items*=Item;
Item: D | U | V | W;
D: 'd' name=ID ('{' ds+=D '}')?;
U: 'u' r=[D:FQN];
V: 'v' s=[D:PATH];
W: 'w' t=[D] ('in' scope=[D:FQN])?;
FQN: ID ('.' ID)*;
PATH[split='/']: ID ('/' ID)*;
"""
RR_FILES = {
    'dot.m': 'd a { d b } u a.b',
    'slash.m': 'd a { d b } v a/b',
    'both.m': 'd a { d b { d c } } v a/b/c u a.b',
    'simple.m': 'd a u a v a w a',
    'dangling-dot.m': 'd a { d b } u a.x',
    'dangling-slash.m': 'd a { d b } v a/x v a/b',
    'plain.m': 'd a { d b } w a in a.b',
}
RR_OPS = list(RR_FILES)


def file_outcome(mm, path):
    from textx.exceptions import TextXError
    d = os.path.dirname(os.path.abspath(path))
    try:
        m = mm.model_from_file(path)
    except TextXError as e:
        return (type(e).__name__, e.line, e.col, str(e).replace(d, '')[:140])
    except OSError as e:
        return ('OSError', type(e).__name__, os.path.basename(str(e.filename)))
    except Exception as e:  # noqa
        return ('exception', type(e).__name__, str(e)[:140])
    def val(v):
        if isinstance(v, list):
            return [val(x) for x in v]
        if hasattr(v, '_tx_position'):
            chain = []
            while hasattr(v, 'name'):
                chain.insert(0, v.name)
                v = getattr(v, 'parent', None)
            return '/'.join(chain)
        return v
    return ('ok', [(type(it).__name__,) + tuple((a, val(getattr(it, a))) for a, ma in type(it)._tx_attrs.items()
                                                if not ma.cont) for it in m.items],
            # how often the (non-idempotent) model processor of the harness was applied to this model
            getattr(m, '_c16_processed', None))


def _family(provider):
    return {'search-path': (SP_FILES, SP_OPS), 'rrel-registered': (RR_FILES, RR_OPS)}.get(provider, (FFILES, FOPS))


def file_history_side(provider, global_repo, hist):
    from textx import metamodel_from_str
    import textx.scoping.providers as P

    tmp = tempfile.mkdtemp(prefix='c16f_')

    def count_processing(model, metamodel):
        model._c16_processed = getattr(model, '_c16_processed', 0) + 1

    def mk():
        mm = mk_()
        mm.register_model_processor(count_processing)
        return mm

    def mk_():
        if provider == 'rrel-registered':
            mm = metamodel_from_str(RR_GRAMMAR, global_repository=global_repo)
            mm.register_scope_providers({'*.*': 'items.ds*', 'W.t': 'items'})
            return mm
        mm = metamodel_from_str(FGRAMMAR, global_repository=global_repo)
        if provider == 'search-path':
            mm.register_scope_providers({'*.*': P.FQNImportURI(search_path=[os.path.join(tmp, 'lib')])})
        else:
            mm.register_scope_providers({'*.*': getattr(P, provider)()})
        return mm
    try:
        for fn, text in _family(provider)[0].items():
            os.makedirs(os.path.dirname(os.path.join(tmp, fn)), exist_ok=True)
            with open(os.path.join(tmp, fn), 'w') as f:
                f.write(text)
        subject = mk()
        cwd = os.getcwd()
        os.chdir(tmp)

        def spelled(fn):
            if fn.startswith('rel:'):
                return fn[4:]
            if fn.startswith('./'):
                return os.path.join(tmp, '.', fn[2:])
            return os.path.join(tmp, fn)
        for i, fn in enumerate(hist):
            a = file_outcome(subject, spelled(fn))
            b = file_outcome(mk(), spelled(fn))
            if a != b:
                return {'step': i, 'file': fn, 'after_history': a, 'fresh': b}
        return None
    finally:
        import shutil
        try:
            os.chdir(cwd)
        except Exception:  # noqa
            pass
        shutil.rmtree(tmp, ignore_errors=True)


def file_histories(item):
    import itertools
    provider, global_repo, length = item
    bad = []
    n = 0
    for k in range(1, length + 1):
        for hist in itertools.product(_family(provider)[1], repeat=k):
            n += 1
            r = file_history_side(provider, global_repo, list(hist))
            if r and len(bad) < 3:
                bad.append({'provider': provider, 'global_repo': global_repo, 'history': list(hist), 'detail': r})
    return {'histories': n, 'bad': bad}


REG_TEXTS = ['d a u a', 'd b u b', 'd a d b u b', 'd c u a', 'd a u zz', 'd a d a u a', 'd b']


def provider_history_scenario():
    """concrete supplement (round 9, C16l): scope providers that keep per-load state — PlainName in its
    parser-registry mode (multi_metamodel_support=False) and the default PlainName — under every history of
    <= 2 loads out of REG_TEXTS (names defined by one load and referenced, dangling, by the next): every
    probe text gives after the history what a fresh meta-model gives"""
    import itertools
    from textx import metamodel_from_str
    from textx.scoping import providers as sp
    g = render_grammar(grammar('objref')['rules'])

    def mk(kind):
        mm = metamodel_from_str(g)
        if kind == 'registry':
            mm.register_scope_providers({'*.*': sp.PlainName(multi_metamodel_support=False)})
        elif kind == 'plain':
            mm.register_scope_providers({'*.*': sp.PlainName()})
        return mm
    problems = []
    for kind in ('registry', 'plain', 'default'):
        fresh = {t: describe(mk(kind), t) for t in REG_TEXTS}
        hists = [h for n in (1, 2) for h in itertools.product(REG_TEXTS, repeat=n)]
        for h in hists:
            mm = mk(kind)
            for t in h:
                describe(mm, t)
            for t in REG_TEXTS:
                got = describe(mm, t)
                if not same(got, fresh[t]):
                    problems.append('provider %s: after loading %r the input %r gives %s, a fresh meta-model gives %s'
                                    % (kind, list(h), t, str(got)[:120], str(fresh[t])[:120]))
                    break
            if len(problems) >= 2:
                return problems
    return problems


def main():
    import textx.model as M
    import textx.metamodel as MM
    import textx.lang as L
    chk = Check(PROP, 'model_checking')
    quick = chk.tier == 'quick'
    length = 2 if quick else 3
    ns = [4] if quick else [2, 4, 6, 7]
    wlimit = 8 if quick else 30
    timeout_ms = 30000 if quick else 120000
    scen = range(len(SCENARIOS)) if not quick else range(0, len(SCENARIOS))
    items = [(si, n, length, timeout_ms, wlimit, not quick) for si in scen for n in ns]
    results = pmap(obligation, items, fresh_process_per_item=True)
    chk.cov['functions_encoded'] = src_hash(L.language_from_str, M.get_model_parser, MM.TextXMetaModel.model_from_str,
                                            MM.TextXMetaModel.internal_model_from_file, M.parse_tree_to_objgraph)
    chk.cov['bounds'] = {'history_length': length, 'operations': OPS, 'scenarios': [s[0] + ' ' + str(s[1]) for s in SCENARIOS],
                         'input_chars': ns, 'witness_classes': wlimit, 'solver_timeout_ms': timeout_ms}
    chk.cov['outside_claim'] = ['longer histories / other operations (global repository, multi-file imports: C17, C18)',
                                'inputs longer than the bound for the solver clause', 'grammars outside the scenarios',
                                'state the encoding cannot see is only covered for the replayed witnesses']
    chk.assumptions = ['Arpeggio 2.0.3 as modelled by sympeg (solver witnesses replayed on the real textX)', 'z3',
                       'histories enumerated exhaustively up to the bound; inputs solver-quantified per history']
    hist = nontrivial = holds = 0
    for it, (st, r, secs) in zip(items, results):
        if st != 'ok':
            chk.harness_error(r)
            continue
        if 'unsupported' in r:
            chk.cov['unsupported'] += 1
            chk.sample({'scenario': r['scenario'], 'unsupported': r['unsupported']})
            continue
        chk.add_queries(r['queries'], r['solver_s'])
        chk.cov['traces_validated_against_impl'] += r['validated']
        hist += r['histories']
        holds += r['queries']['unsat']
        chk.cov['inconclusive'] += r['unknown']
        if r['twin'] == 'sat':
            nontrivial += r['histories']
        for m_ in r['mismatch']:
            chk.cov['model_mismatches'] += 1
            chk.sample({'model_mismatch': m_, 'scenario': r['scenario']}, limit=10)
        for v in r['violations'][:1]:
            d = v['detail']
            bad, detail = replay_history(v['scenario'], v['n'], v['history'], d['text'], d.get('replayed_before', ()),
                                         v.get('ran_before', ()), wlimit)
            chk.cov['traces_validated_against_impl'] += 2
            if bad:
                chk.violation('%s after history %s: input %r gives %s, a fresh metamodel gives %s' % (
                    r['scenario'], detail.get('history', v['history']), d['text'], d['after_history'], d['fresh']),
                    {'scenario': v['scenario'], 'n': v['n'], 'history': v['history'], 'text': d['text'],
                     'before': list(d.get('replayed_before', ())),
                     'earlier': v.get('ran_before', []) if 'note' in detail else [], 'wlimit': wlimit})
            else:
                chk.harness_error('history-dependent difference did not reproduce: %s %s' % (r['scenario'], v))
        chk.sample({'scenario': r['scenario'], 'n': r['n'], 'histories': r['histories'],
                    'equivalence_queries_unsat': r['queries']['unsat'], 'witnesses_replayed_per_history': r['witnesses']})
    if chk.cov['model_mismatches']:
        chk.harness_error('sympeg reports a history-dependent difference that the real textX does not show')
    # file histories (enumerated; no solver dimension)
    fitems = [(p_, gr, 2 if quick else 3) for p_ in ('FQNImportURI', 'PlainNameImportURI', 'search-path') for gr in (False, True)]
    fitems.append(('rrel-registered', False, 2 if quick else 3))
    for it, (st, r, secs) in zip(fitems, pmap(file_histories, fitems)):
        if st != 'ok':
            chk.harness_error(r)
            continue
        hist += r['histories']
        for b in r['bad'][:1]:
            chk.cov['traces_validated_against_impl'] += 1
            d = b['detail']
            chk.violation('file history %s (%s, global repository %s): load %d of %s gives %s, a fresh metamodel gives %s' % (
                b['history'], b['provider'], b['global_repo'], d['step'], d['file'], d['after_history'], d['fresh']),
                {'file_history': b['history'], 'provider': b['provider'], 'global_repo': b['global_repo']})
        chk.sample({'file_histories': r['histories'], 'provider': it[0], 'global_repository': it[1]})
    chk.cov['bounds']['file_histories'] = ('every sequence of <= %d loads out of %s (imports, valid and failing files), '
                                           '2 providers, global repository on/off; the same over %s with RREL strings registered for several attributes '
                                           '(two name delimiters); no solver dimension' % (fitems[0][2], FOPS, RR_OPS))
    chk.cov['paths_explored'] = hist
    chk.cov['distinct_nontrivial'] = nontrivial
    chk.cov['obligations'] = hist
    chk.cov['discharged'] = holds
    from . import extras7
    for fn_ in ('equal_root_models', 'primitive_root_with_user_classes'):
        for pr in getattr(extras7, fn_)()[:2]:
            chk.violation(pr, {'extras7': fn_})
        chk.cov['traces_validated_against_impl'] += 1
    for pr in provider_history_scenario()[:2]:
        chk.violation(pr, {'provider_history': True})
    chk.cov['traces_validated_against_impl'] += 1
    chk.cov.setdefault('bounds', {})['provider_histories'] = ('PlainName(multi_metamodel_support=False) / PlainName() / default: every '
                                                             'history of <= 2 loads out of %d texts, every text probed afterwards; no solver dimension' % len(REG_TEXTS))
    chk.cov.setdefault('bounds', {})['concrete_supplements_round7'] = ['equal_root_models', 'primitive_root_with_user_classes']
    return chk.finish('one obligation per (scenario, input length, history): z3 query "some input distinguishes the live '
                      'parser model after the history from a fresh one"; non-trivial = histories of scenarios/lengths '
                      'that admit an accepted input')


def replay(data):
    if isinstance(data, dict) and data.get('extras7'):
        from . import extras7
        pr = getattr(extras7, data['extras7'])()
        return bool(pr), pr[:2]
    if isinstance(data, dict) and data.get('provider_history'):
        pr = provider_history_scenario()
        return bool(pr), pr[:2]
    if 'file_history' in data:
        r = file_history_side(data['provider'], data['global_repo'], data['file_history'])
        return bool(r), r
    return replay_history(data['scenario'], data['n'], data['history'], data['text'], data.get('before', ()),
                          data.get('earlier', ()), data.get('wlimit', 12))
