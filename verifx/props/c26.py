"""
C26 — the language and generator registries behave as case-insensitive maps.

Path-exhaustive (level P): every sequence of up to L registry operations over a
small universe (language names that differ only in case plus a distinct one,
instance- and factory-registered metamodels, three patterns, three file names,
two generator targets) is one path through the real functions of
textx/registration.py, compared step by step with a reference map model:
case-insensitive keys, duplicates refused, entry-point registrations present
again after clearing, languages_for_file = exactly the matching ones,
language_for_file fails unless exactly one matches, metamodel_for_language
returns the cached instance without arguments and, for factory-registered
languages, a fresh then-cached instance with arguments.  The space is finite
and enumerated exhaustively (the selectors are unconstrained).
"""
import fnmatch

import z3

from ..common import Check, pmap, src_hash
from ..symx import Ctx

PROP = 'C26'
NAMES = ['lng', 'LNG', 'Lng', 'other']
PATTERNS = ['*.x', 'f.*', '*.y']
FILES = ['f.x', 'g.y', 'h.z']
TARGETS = ['t', 'T']


def op_universe():
    ops = []
    for n in NAMES[:3] + ['other']:
        for kind in ('instance', 'factory'):
            ops.append(('register_language', n, PATTERNS[NAMES.index(n) % 3], kind))
    # a language registered without a file pattern (the default): found by name, never by file name
    ops.append(('register_language', 'nopat', None, 'instance'))
    # a second language whose pattern also matches what '*.x' matches; the argument of a lookup may itself be
    # a pattern (documented: file name or pattern): matching two languages is ambiguous however it is spelled
    ops.append(('register_language', 'wild', '*.?', 'instance'))
    ops.append(('languages_for_file', '*.x'))
    ops.append(('language_for_file', '*.x'))
    for n in ('lng', 'LNG', 'other', 'nope'):
        ops.append(('language_description', n))
        ops.append(('metamodel_for_language', n, False))
        ops.append(('metamodel_for_language', n, True))
    for f in FILES:
        ops.append(('languages_for_file', f))
        ops.append(('language_for_file', f))
    ops.append(('clear_language_registrations',))
    for n in ('lng', 'LNG'):
        for t in TARGETS:
            ops.append(('register_generator', n, t))
    for n, t, anyp in (('lng', 't', False), ('LNG', 'T', False), ('other', 't', True), ('other', 't', False),
                       ('textX', 'dot', False), ('other', 'DOT', True),       # these two: entry-point generators
                       # a language that has generators, but not for this target: the generic one is the fall-back
                       ('lng', 'dot', True), ('lng', 'dot', False)):
        ops.append(('generator_description', n, t, anyp))
    ops.append(('language_description', 'TextX'))                             # an entry-point language
    ops.append(('clear_generator_registrations',))
    return ops


OPS = op_universe()
_MM = {}


def new_mm():
    from textx import metamodel_from_str
    return metamodel_from_str("M: 'm' name=ID;")


class Ref:
    """reference model of the registries"""

    def __init__(self, entry_langs, entry_gens):
        self.entry_langs = dict(entry_langs)
        self.entry_gens = {k: dict(v) for k, v in entry_gens.items()}
        self.langs = dict(self.entry_langs)          # lower name -> (name, pattern, kind, payload)
        self.cache = {}
        self.gens = {k: dict(v) for k, v in self.entry_gens.items()}

    def step(self, op, fresh):
        k = op[0]
        if k == 'register_language':
            _, n, pat, kind = op
            if n.lower() in self.langs:
                return ('error',)
            self.langs[n.lower()] = (n, pat, kind, fresh)
            return ('none',)
        if k == 'language_description':
            e = self.langs.get(op[1].lower())
            return ('error',) if e is None else ('lang', e[0])
        if k == 'metamodel_for_language':
            _, n, with_args = op
            key = n.lower()
            e = self.langs.get(key)
            if key in self.cache and not with_args:
                return ('mm', self.cache[key])
            if e is None:
                return ('error',)
            if e[2] == 'instance':
                self.cache[key] = ('instance', e[3])
            elif e[2] == 'entry':
                self.cache[key] = ('entry', key) if not with_args else ('fresh', fresh)
            else:
                self.cache[key] = ('fresh', fresh)
            return ('mm', self.cache[key])
        if k == 'languages_for_file':
            f = op[1]
            return ('langs', sorted(e[0] for e in self.langs.values()
                                    if e[1] is not None and (f == e[1] or fnmatch.fnmatch(f, e[1]))))
        if k == 'language_for_file':
            f = op[1]
            m = [e[0] for e in self.langs.values() if e[1] is not None and (f == e[1] or fnmatch.fnmatch(f, e[1]))]
            return ('lang', m[0]) if len(m) == 1 else ('error',)
        if k == 'clear_language_registrations':
            self.langs = dict(self.entry_langs)
            self.cache = {}
            return ('none',)
        if k == 'register_generator':
            _, n, t = op
            d = self.gens.setdefault(n.lower(), {})
            if t.lower() in d:
                return ('error',)
            d[t.lower()] = (n, t)
            return ('none',)
        if k == 'generator_description':
            _, n, t, anyp = op
            d = self.gens.get(n.lower(), {})
            if t.lower() in d:
                return ('gen',) + d[t.lower()]
            if anyp and t.lower() in self.gens.get('any', {}):
                return ('gen',) + self.gens['any'][t.lower()]
            return ('error',)
        if k == 'clear_generator_registrations':
            self.gens = {k2: dict(v) for k2, v in self.entry_gens.items()}
            return ('none',)
        raise ValueError(op)


def real_step(op, payloads, ids):
    import textx.registration as REG
    from textx.exceptions import TextXRegistrationError
    k = op[0]
    try:
        if k == 'register_language':
            _, n, pat, kind = op
            mm = new_mm()
            token = len(payloads)
            payloads.append(mm)
            ids[id(mm)] = ('instance', token)
            if kind == 'instance':
                REG.register_language(REG.LanguageDesc(n, pattern=pat, description='', metamodel=mm))
            else:
                def factory(**kw):
                    m2 = new_mm()
                    payloads.append(m2)
                    ids[id(m2)] = ('fresh', None)
                    return m2
                REG.register_language(REG.LanguageDesc(n, pattern=pat, description='', metamodel=factory))
            return ('none',), token
        if k == 'language_description':
            return ('lang', REG.language_description(op[1]).name), None
        if k == 'metamodel_for_language':
            _, n, with_args = op
            mm = REG.metamodel_for_language(n, **({'x': 1} if with_args else {}))
            return ('mmobj', mm), None
        if k == 'languages_for_file':
            return ('langs', sorted(l.name for l in REG.languages_for_file(op[1]))), None
        if k == 'language_for_file':
            return ('lang', REG.language_for_file(op[1]).name), None
        if k == 'clear_language_registrations':
            REG.clear_language_registrations()
            return ('none',), None
        if k == 'register_generator':
            _, n, t = op
            REG.register_generator(REG.GeneratorDesc(n, t, '', generator=lambda *a, **kw: None))
            return ('none',), None
        if k == 'generator_description':
            _, n, t, anyp = op
            g = REG.generator_description(n, t, anyp)
            return ('gen', g.language, g.target), None
        if k == 'clear_generator_registrations':
            REG.clear_generator_registrations()
            return ('none',), None
    except TextXRegistrationError:
        return ('error',), None
    except TypeError as e:
        # a factory that does not accept the keyword arguments
        return ('typeerror', str(e)), None
    raise ValueError(op)


_ENTRY = []


def entry_state():
    """what the installed entry points declare — read with importlib.metadata,
    not through textx.registration; the real registries are left cleared
    (their lazy 'not loaded yet' state), which is where every history starts"""
    import textx.registration as REG
    if not _ENTRY:
        from importlib.metadata import entry_points
        langs, gens = {}, {}
        for ep in entry_points(group='textx_languages'):
            d = ep.load()
            langs[d.name.lower()] = (d.name, d.pattern, 'entry', None)
        for ep in entry_points(group='textx_generators'):
            d = ep.load()
            gens.setdefault(d.language.lower(), {})[d.target.lower()] = (d.language, d.target)
        _ENTRY.append((langs, gens))
    REG.clear_language_registrations()
    REG.clear_generator_registrations()
    return _ENTRY[0]


def run_sequence(seq):
    """real vs reference on one operation sequence -> first mismatch or None"""
    import textx.registration as REG
    langs, gens = entry_state()
    ref = Ref(langs, gens)
    payloads, ids = [], {}
    mm_tokens = {}      # real mm object id -> reference token it must correspond to
    for i, op in enumerate(seq):
        real, token = real_step(op, payloads, ids)
        exp = ref.step(op, ('f', i))
        if op[0] == 'register_language' and real == ('none',) and exp == ('none',):
            # bind the reference payload of an instance registration to the real object
            key = op[1].lower()
            e = ref.langs[key]
            ref.langs[key] = (e[0], e[1], e[2], ('obj', id(payloads[token])))
            continue
        if exp[0] == 'mm':
            if real[0] != 'mmobj':
                return i, op, real, exp
            obj = real[1]
            tok = exp[1]
            if tok[0] == 'instance':
                if ('obj', id(obj)) != tok[1]:
                    return i, op, ('mm', 'a different object than the registered instance'), exp
            else:
                # 'fresh' / 'entry' tokens: same token <=> same real object
                prev = mm_tokens.get(tok)
                if prev is None:
                    if id(obj) in mm_tokens.values():
                        return i, op, ('mm', 'an object returned before, expected a fresh one'), exp
                    mm_tokens[tok] = id(obj)
                elif prev != id(obj):
                    return i, op, ('mm', 'a different object than the cached one'), exp
            continue
        if real != exp:
            return i, op, real, exp
    REG.clear_language_registrations()
    REG.clear_generator_registrations()
    return None


def explore(item):
    first_op, length = item[:2]
    fixed = [OPS[first_op]] + [OPS[j] for j in item[2:]]      # a fixed prefix, the rest of the history is free
    ctx = Ctx(10000, max_paths=400000, free_selectors=True)

    def path(c):
        seq = list(fixed)
        for pos in range(len(fixed), length):
            idx = len(OPS) - 1
            for j in range(len(OPS) - 1):
                if c.branch(z3.Bool('op_%d_%d' % (pos, j))):
                    idx = j
                    break
            seq.append(OPS[idx])
        return run_sequence(seq), seq
    outs = ctx.explore(path)
    bad = [(r, s) for r, s in outs if r is not None]
    return {'first': OPS[first_op], 'paths': ctx.paths, 'bad': [{'seq': s, 'step': r[0], 'op': r[1], 'real': str(r[2])[:200],
                                                                 'expected': str(r[3])[:200]} for r, s in bad[:3]]}


def main():
    import textx.registration as REG
    chk = Check(PROP, 'exploration')
    quick = chk.tier == 'quick'
    L = 3 if quick else 4
    # quick: histories of 3 that start with a registration (lookups on the initial registry are covered as
    # later steps); thorough: all histories of 3, and the histories of 4 that start with a registration or a clear
    if quick:
        items = [(i, 3) for i in range(len(OPS)) if OPS[i][0].startswith('register')
                 or OPS[i][0] in ('languages_for_file', 'language_for_file')]
    else:
        items = [(i, 4) for i in range(len(OPS)) if OPS[i][0].startswith(('register', 'clear'))]
        items += [(i, 3) for i in range(len(OPS)) if not OPS[i][0].startswith(('register', 'clear'))]
    if quick:
        # histories of 4 that start with a factory registration and the first use of its meta-model (the cached
        # instance must survive whatever the two following steps are)
        reg = OPS.index(('register_language', 'lng', PATTERNS[NAMES.index('lng') % 3], 'factory'))
        items.append((reg, 4, OPS.index(('metamodel_for_language', 'lng', False))))
    results = pmap(explore, items)
    chk.cov['functions_encoded'] = src_hash(REG.register_language, REG.language_description, REG.metamodel_for_language,
                                            REG.languages_for_file, REG.language_for_file, REG.register_generator,
                                            REG.generator_description, REG.clear_language_registrations,
                                            REG.clear_generator_registrations, REG.language_descriptions)
    chk.cov['bounds'] = {'sequence_length': '3 (starting with a registration or a file lookup)' if quick else '4 after a registration or clear, 3 otherwise', 'operations': len(OPS), 'names': NAMES, 'patterns': PATTERNS, 'files': FILES}
    chk.cov['outside_claim'] = ['longer histories', 'other names / patterns', 'entry points other than those installed']
    chk.assumptions = ['finite history space enumerated exhaustively (selectors unconstrained: z3 decides nothing)',
                       'reference = case-insensitive map model (verifx/props/c26.py)']
    paths = 0
    for (st, r, secs) in results:
        if st != 'ok':
            chk.harness_error(r)
            continue
        paths += r['paths']
        for b in r['bad'][:1]:
            if len(chk.violations) < 5:
                chk.cov['traces_validated_against_impl'] += 1
                chk.violation('after %s: step %d %s returned %s, expected %s' % (
                    b['seq'][:b['step']], b['step'], b['op'], b['real'], b['expected']), {'seq': b['seq']})
        chk.sample({'first_operation': str(r['first']), 'sequences': r['paths'], 'mismatching': len(r['bad'])}, limit=6)
    chk.cov['paths_explored'] = paths
    chk.cov['evaluations'] = paths
    chk.cov['distinct_nontrivial'] = paths
    chk.cov['exhaustive'] = True
    return chk.finish('every sequence of %d registry operations over the universe is one path through the real '
                      'functions, compared step by step with the reference map model' % L)


def replay(data):
    r = run_sequence([tuple(x) for x in data['seq']])
    return r is not None, r
