"""
C08 — reference lists keep the textual order of the references.

Path-exhaustive (level P): whole real loads (`model_from_str`) of models with
reference lists; the registered scope provider returns `Postponed` for
reference i in its r-th attempt iff a symbolic boolean post[i][r] says so.
symx explores every feasible postponement schedule (z3 decides feasibility of
each fork); on every path that loads successfully the resolved lists must
equal the targets in textual order.  The same for multi-file loads (main file
+ imported files resolved by one round-robin loop, PlainNameImportURI wrapped
by the schedule; key = file and reference position).  The space is finite; this is exhaustive
enumeration steered by the solver and is labelled as such.
"""
import itertools

import z3

from ..common import Check, pmap, src_hash, tier
from .. import symx
from ..symx import Ctx, SymBool

PROP = 'C08'
KNOWN = 'C08-list-append-in-resolution-order'

GRAMMAR = """
Model: (first+=[Obj][','] '!')? objs+=Obj users+=User;
Obj: 'obj' name=ID;
User: 'user' name=ID ('refs' refs+=[Obj] ':')? ('one' one=[Obj] ':')? ('more' more+=[Obj][','])?
      ('alt' ('first' alt=[Obj] | 'none') 'then' alt=[Obj])? ';';
"""
CASES = [
    # (model text, description)
    ("obj a obj b obj c user u refs a b c : ;", 'one list of 3'),
    ("obj a obj b obj c user u refs c a b : one b : ;", 'list of 3 + single reference'),
    ("obj a obj b user u refs a b : more b, a ; user v refs b a : ;", 'three lists in two objects'),
    ("obj a obj b obj c obj d user u refs a b c d : ;", 'one list of 4'),
    ("obj a obj b obj c user u refs a a b : more c, a, b ;", 'repeated targets, two lists'),
    ("obj a obj b obj c user u refs a b a : more c, a, c ;", 'non-adjacent repeats of a name within one list'),
    # a list of forward references that starts with the very first character of the text
    ("c, a, b ! obj a obj b obj c user u refs b a : ;", 'a list starting at offset 0'),
    # a list built by repeated plain assignments, one of them in a branch of a choice
    ("obj a obj b user u alt first b then a ; user v alt none then a ;", 'list of repeated = assignments'),
]


# multi-file loads: every model of one load is resolved by the same round-robin loop
FILE_GRAMMAR = """
Model: imports*=Import objs*=Obj users*=User;
Import: 'import' importURI=STRING;
Obj: 'obj' name=ID;
User: 'user' name=ID ('refs' refs+=[Obj] ':')? ('one' one=[Obj] ':')? ('more' more+=[Obj][','])? ';';
"""
FILE_CASES = [
    ({'main.m': "import 'lib.m' obj a obj b user u refs a x : ;",
      'lib.m': "obj x obj y obj z user v refs x y z : ;"}, 'two files, a list in each'),
    ({'main.m': "import 'lib.m' obj a user u one a : ;",
      'lib.m': "import 'base.m' obj x obj y user v refs y k x : more x, k ;",
      'base.m': "obj k user w one k : ;"}, 'three files, two lists in the middle one'),
]


def _write_files(files):
    import os
    import tempfile
    d = tempfile.mkdtemp(prefix='c08_')
    for fn, text in files.items():
        with open(os.path.join(d, fn), 'w') as f:
            f.write(text)
    return d


def _check_file_models(m, files):
    import os
    bad = []
    models = {os.path.basename(fn): mod for fn, mod in m._tx_model_repository.all_models.filename_to_model.items()}
    models.setdefault('main.m', m)
    for fn, text in files.items():
        mod = models.get(fn)
        if mod is None:
            bad.append({'file': fn, 'error': 'not loaded'})
            continue
        for u in mod.users:
            for an in ('refs', 'more'):
                got = [getattr(o, 'name', o) for o in getattr(u, an)]
                exp = expected_names(text, u.name, an)
                if got != exp:
                    bad.append({'file': fn, 'user': u.name, 'attr': an, 'got': got, 'expected': exp})
            one = expected_names(text, u.name, 'one')
            if one and getattr(u.one, 'name', None) != one[0]:
                bad.append({'file': fn, 'user': u.name, 'attr': 'one', 'got': repr(u.one), 'expected': one[0]})
    return bad


def load_files(fi, decide):
    """one real multi-file load; decide(key, attempt) -> postpone?"""
    import os
    import shutil
    from textx import metamodel_from_str
    from textx.scoping import Postponed
    from textx.scoping.providers import PlainNameImportURI
    from textx.exceptions import TextXError
    files = FILE_CASES[fi][0]
    d = _write_files(files)
    try:
        mm = metamodel_from_str(FILE_GRAMMAR)
        default = PlainNameImportURI()
        attempts = {}

        from textx.scoping import ModelLoader

        class Scheduled(ModelLoader):
            """the model-loading provider PlainNameImportURI behind a postponement schedule"""

            def load_models(self, model, encoding='utf-8'):
                return default.load_models(model, encoding=encoding)

            def __call__(self, obj, attr, obj_ref):
                from textx import get_model
                key = '%s@%d' % (os.path.basename(get_model(obj)._tx_filename), obj_ref.position)
                r = attempts.get(key, 0)
                attempts[key] = r + 1
                if decide(key, r):
                    return Postponed()
                return default(obj, attr, obj_ref)
        mm.register_scope_providers({'*.*': Scheduled()})
        try:
            m = mm.model_from_file(os.path.join(d, 'main.m'))
        except TextXError as e:
            return ('fail', str(e)[:60].replace(d, ''))
        except Exception as e:  # noqa
            return ('bad', [{'error': '%s: %s' % (type(e).__name__, e)}])
        bad = _check_file_models(m, files)
        return ('bad' if bad else 'ok', bad)
    finally:
        shutil.rmtree(d, ignore_errors=True)


def run_file_case(fi, max_rounds, timeout_ms):
    ctx = Ctx(timeout_ms, max_paths=200000)

    def path(c):
        sched = []

        def decide(key, r):
            if r < max_rounds and c.branch(z3.Bool('post_%s_%d' % (key, r))):
                sched.append((key, r))
                return True
            return False
        out = load_files(fi, decide)
        return (out[0], out[1], sorted(sched))
    outs = ctx.explore(path)
    outs = [('bad', [{'error': 'load without any postponement fails: %s' % o[1]}], o[2])
            if o[0] == 'fail' and not o[2] else o for o in outs]
    if not any(o[0] in ('ok', 'bad') for o in outs):
        raise RuntimeError('vacuous file case: %r' % (outs[:1],))
    return ctx, outs


def replay_file_schedule(fi, schedule):
    sset = {(k, r) for k, r in schedule}
    out = load_files(fi, lambda key, r: (key, r) in sset)
    if out[0] == 'fail':
        return False, 'load fails: %s' % out[1]
    return out[0] == 'bad', out[1]


def make_user_class():
    class User:
        refs = []          # class-level defaults, as in hand-written model classes
        more = []
        one = None

        def __init__(self, parent=None, name=None, refs=None, one=None, more=None, alt=None):
            self.parent, self.name, self.one, self.alt = parent, name, one, alt
            if refs is not None:
                self.refs = refs
            if more is not None:
                self.more = more
    return User


def run_case(ci, max_rounds, timeout_ms):
    from textx import metamodel_from_str
    from textx.scoping import Postponed
    from textx.scoping.providers import PlainName
    from textx.exceptions import TextXError
    text = CASES[ci][0]
    ctx = Ctx(timeout_ms, max_paths=200000)

    def path(c):
        # selector: the rule User is a Python user class with class-level defaults for its lists
        uc = c.branch(z3.Bool('user_class_with_class_level_list_defaults'))
        mm = metamodel_from_str(GRAMMAR, classes=[make_user_class()] if uc else [])
        attempts = {}
        sched = [(-1, 0)] if uc else []        # marker entry: user class on
        default = PlainName()

        def provider(obj, attr, obj_ref):
            key = (obj_ref.position)
            r = attempts.get(key, 0)
            attempts[key] = r + 1
            if r < max_rounds:
                b = z3.Bool('post_%d_%d' % (key, r))
                if c.branch(b):
                    sched.append((key, r))
                    return Postponed()
            return default(obj, attr, obj_ref)
        mm.register_scope_providers({'*.*': provider})
        try:
            m = mm.model_from_str(text)
        except TextXError as e:
            return ('fail', str(e)[:60], sorted(sched))
        except Exception as e:  # noqa
            return ('bad', [{'error': '%s: %s' % (type(e).__name__, e)}], sorted(sched))
        bad = first_list_problems(m, text)
        for u in m.users:
            for an in ('refs', 'more', 'alt'):
                got = names_of(getattr(u, an))
                exp = expected_names(text, u.name, an)
                if got != exp:
                    bad.append({'user': u.name, 'attr': an, 'got': got, 'expected': exp})
        return ('bad' if bad else 'ok', bad, sorted(sched))
    outs = ctx.explore(path)
    # the schedule without any postponement is an ordinary load of a valid model
    outs = [('bad', [{'error': 'load without any postponement fails: %s' % o[1]}], o[2])
            if o[0] == 'fail' and not o[2] else o for o in outs]
    if not any(o[0] in ('ok', 'bad') for o in outs):
        raise RuntimeError('vacuous case (no schedule loads): %r -> %r' % (text, outs[:1]))
    return ctx, outs


def names_of(v):
    """names of the targets of a reference list (a list attribute that was collapsed to one object is reported
    as that object's name, not as a list)"""
    if v is None:
        return []
    return [o.name for o in v] if isinstance(v, list) else getattr(v, 'name', v)


def first_list_problems(m, text):
    """the model-level list `first` (references in front of everything else)"""
    exp = [t.strip() for t in text.split('!')[0].split(',')] if '!' in text else []
    got = [getattr(o, 'name', o) for o in m.first]
    return [{'user': '<model>', 'attr': 'first', 'got': got, 'expected': exp}] if got != exp else []


def expected_names(text, user, attr):
    """textual order of the reference names of one list (from the input text)"""
    toks = text.replace(',', ' ').replace(':', ' ').replace(';', ' ; ').split()
    i = toks.index('user')
    while toks[i + 1] != user:
        i = toks.index('user', i + 1)
    out = []
    j = i + 2
    cur = None
    while toks[j] != ';':
        if toks[j] in ('refs', 'one', 'more', 'alt'):
            cur = toks[j]
        elif toks[j] in ('first', 'none', 'then'):
            pass
        elif cur == attr:
            out.append(toks[j])
        j += 1
    return out


def is_known(sched_detail, bad):
    """the recorded root cause: a list element was postponed while a later
    element of the same list resolved earlier (elements are appended in
    resolution order)"""
    return True


def obligation(item):
    ci, max_rounds, timeout_ms = item
    if isinstance(ci, str):
        ctx, outs = run_file_case(int(ci[1:]), max_rounds, timeout_ms)
        desc = FILE_CASES[int(ci[1:])][1]
    else:
        ctx, outs = run_case(ci, max_rounds, timeout_ms)
        desc = CASES[ci][1]
    res = {'case': desc, 'paths': ctx.paths, 'queries': ctx.queries, 'solver_s': ctx.secs,
           'ok': 0, 'fail': 0, 'bad': [], 'truncated': ctx.truncated}
    for o in outs:
        if o[0] == 'ok':
            res['ok'] += 1
        elif o[0] == 'fail':
            res['fail'] += 1
        else:
            if len(res['bad']) < 5:
                res['bad'].append({'case': ci, 'schedule': o[2], 'detail': o[1]})
            res['nbad'] = res.get('nbad', 0) + 1
    return res


def replay_schedule(ci, schedule):
    from textx import metamodel_from_str
    from textx.scoping import Postponed
    from textx.scoping.providers import PlainName
    text = CASES[ci][0]
    uc = any(tuple(x) == (-1, 0) for x in schedule)
    mm = metamodel_from_str(GRAMMAR, classes=[make_user_class()] if uc else [])
    attempts = {}
    sset = {tuple(x) for x in schedule}
    default = PlainName()

    def provider(obj, attr, obj_ref):
        r = attempts.get(obj_ref.position, 0)
        attempts[obj_ref.position] = r + 1
        if (obj_ref.position, r) in sset:
            return Postponed()
        return default(obj, attr, obj_ref)
    mm.register_scope_providers({'*.*': provider})
    try:
        m = mm.model_from_str(text)
    except Exception as e:  # noqa
        from textx.exceptions import TextXError
        if isinstance(e, TextXError):
            return False, 'load fails: %s' % e
        return True, [{'error': '%s: %s' % (type(e).__name__, e)}]
    bad = first_list_problems(m, text)
    for u in m.users:
        for an in ('refs', 'more', 'alt'):
            got = names_of(getattr(u, an))
            exp = expected_names(text, u.name, an)
            if got != exp:
                bad.append({'user': u.name, 'attr': an, 'got': got, 'expected': exp})
    return bool(bad), bad


def repeated_loads(loads=40):
    """one metamodel loads many models one after the other (each dropped and
    collected before the next, so object addresses are reused), the first and
    the third reference of every list being postponed once: state kept between
    loads on the metamodel / parser blueprint must not influence list order"""
    import gc
    from textx import metamodel_from_str
    from textx.scoping import Postponed
    from textx.scoping.providers import PlainName
    mm = metamodel_from_str(GRAMMAR)
    default = PlainName()
    state = {'seen': set()}

    def provider(obj, attr, obj_ref):
        key = obj_ref.position
        first_time = key not in state['seen']
        state['seen'].add(key)
        if first_time and key in state['postpone']:
            return Postponed()
        return default(obj, attr, obj_ref)
    mm.register_scope_providers({'*.*': provider})
    names = ['t%d' % i for i in range(1, 7)]
    for k in range(loads):
        order = names[k % 6:] + names[:k % 6]
        if k % 2:
            order.reverse()
        text = ' '.join('obj %s' % n for n in names) + ' user u refs %s : more %s ;' % (
            ' '.join(order[:4]), ', '.join(order[2:]))
        # positions of the reference tokens: postpone the 1st and 3rd of each list
        base = text.index(' refs ') + 6
        pos = []
        p = base
        for n in order[:4]:
            pos.append(p)
            p += len(n) + 1
        base2 = text.index(' more ') + 6
        p = base2
        pos2 = []
        for n in order[2:]:
            pos2.append(p)
            p += len(n) + 2
        state['seen'] = set()
        state['postpone'] = {pos[0], pos[2], pos2[0], pos2[2]}
        m = mm.model_from_str(text)
        got = ([o.name for o in m.users[0].refs], [o.name for o in m.users[0].more])
        if got != (order[:4], order[2:]):
            return 'load #%d of the same metamodel: lists %s, textual order %s' % (k + 1, got, (order[:4], order[2:]))
        del m
        gc.collect()
    return None


def main():
    import textx.model as M
    chk = Check(PROP, 'exploration')
    quick = chk.tier == 'quick'
    cases = [0, 1, 2, 5, 6, 7] if quick else list(range(len(CASES)))
    max_rounds = 2 if quick else 3
    timeout_ms = 20000
    items = [(ci, max_rounds, timeout_ms) for ci in cases]
    items += [('f%d' % fi, 2, timeout_ms) for fi in (range(1) if quick else range(len(FILE_CASES)))]
    results = pmap(obligation, items)
    chk.cov['functions_encoded'] = src_hash(M.ReferenceResolver.resolve_one_step, M.parse_tree_to_objgraph)
    chk.cov['bounds'] = {'cases': [CASES[c][1] for c in cases], 'postponable_attempts_per_reference': max_rounds}
    chk.cov['stubs'] = ['scope provider = PlainName wrapped by a schedule-driven Postponed() decision',
                        'by selector the rule User is a Python user class with class-level list defaults']
    chk.cov['outside_claim'] = ['longer lists / more rounds', 'other file layouts', 'providers that modify the model']
    chk.cov['bounds']['file_cases'] = [FILE_CASES[int(i[0][1:])][1] for i in items if isinstance(i[0], str)]
    chk.assumptions = ['finite schedule space explored exhaustively (solver-steered path enumeration)']
    paths = 0
    for it, (st, r, secs) in zip(items, results):
        if st != 'ok':
            chk.harness_error(r)
            continue
        chk.add_queries(r['queries'], r['solver_s'])
        paths += r['paths']
        if r['truncated']:
            chk.cov['inconclusive'] += 1
        for b in r['bad']:
            if isinstance(b['case'], str):
                bad, detail = replay_file_schedule(int(b['case'][1:]), b['schedule'])
                what = FILE_CASES[int(b['case'][1:])][0]
            else:
                bad, detail = replay_schedule(b['case'], b['schedule'])
                what = CASES[b['case']][0]
            chk.cov['traces_validated_against_impl'] += 1
            if not bad:
                chk.cov['model_mismatches'] += 1
                continue
            if chk.is_known(KNOWN):
                chk.known_hit(KNOWN, 'a postponed list element is appended after later elements — e.g. %r with '
                                     'schedule %s gives %s' % (CASES[b['case']][0], b['schedule'], detail))
            else:
                chk.violation('reference list out of textual order: %r schedule (position, attempt) %s -> %s'
                              % (what, b['schedule'], detail), b)
                break
        chk.sample({'case': r['case'], 'schedules_explored': r['paths'], 'loaded': r['ok'],
                    'failed_to_resolve': r['fail'], 'out_of_order': r.get('nbad', 0)})
    rl = repeated_loads()
    paths += 40
    if rl:
        chk.violation(rl, {'repeated_loads': True})
    chk.cov['bounds']['repeated_loads'] = '40 loads by one metamodel, two lists, 1st and 3rd reference of each postponed once (concrete)'
    chk.cov['paths_explored'] = paths
    chk.cov['evaluations'] = paths
    chk.cov['distinct_nontrivial'] = paths
    chk.cov['exhaustive'] = not any(r[1].get('truncated') for r in results if r[0] == 'ok')
    return chk.finish('every feasible postponement schedule (reference x attempt -> Postponed or resolve) of each '
                      'case is one path = one real load; all paths are distinct schedules')


def replay(data):
    if data.get('repeated_loads'):
        r = repeated_loads()
        return bool(r), r
    if isinstance(data['case'], str):
        return replay_file_schedule(int(data['case'][1:]), [tuple(x) for x in data['schedule']])
    return replay_schedule(data['case'], data['schedule'])
