"""
C17 — multi-file models load each file once and share element identity.

symx runs whole real multi-file loads (ImportURI-based providers; import graphs
with a diamond, a cycle back to the main file, a self-import, a glob pattern;
with and without a global repository and a builtin model).  When reference
resolution starts (first scope-provider call: every file of the closure is
parsed by then) the names of all elements of all files and all reference texts
are replaced by opaque symbolic names (equality decided by z3), so one run
stands for every naming with the same equality pattern and the real lookup
(ImportURI.__call__ -> PlainName over the model, its loaded models in import
order, the builtin models; RREL '+m:items' through RRELNavigation.apply) runs
on symbolic names.  On every feasible path:
  * load-once: the Model object processor ran exactly once per file of the
    closure, and the repositories hold exactly one model per file;
  * identity: every resolved reference *is* an element object of the single
    registered model of its file;
  * lookup order, as z3 validity under the path condition: the target is the
    unique element of that name in the first scope level (own file, each
    directly imported file in import order, builtin model) that has one; the
    load fails with 'not unique' iff that level has two, with 'Unknown object'
    iff no level has one (FQN-based provider: the first element of that name
    within the file, no uniqueness error);
  * global repository: a second load of the main file returns the very same
    model and parses nothing; without it the closure is loaded afresh, once.
"""
import itertools
import os
import re
import tempfile

import z3

from ..alg import And, Or, Not
from ..common import Check, pmap, src_hash
from .. import symx
from ..symx import Ctx, SymName

PROP = 'C17'

GRAMMAR = """
Model: imports*=Import items*=Item uses*=Use;
Import: 'import' importURI=STRING;
Item: 'item' name=ID;
Use: 'use' ref=[Item];
"""
# file -> (imports, number of items, number of uses)
SHAPES = {
    'diamond-cycle': {'main': (['a.m', 'b.m'], 2, 1), 'a.m': (['c.m'], 1, 1), 'b.m': (['c.m'], 1, 0),
                      'c.m': (['main'], 1, 1)},
    'self-chain': {'main': (['main', 'a.m'], 1, 1), 'a.m': (['b.m'], 1, 1), 'b.m': ([], 2, 0)},
    'glob': {'main': (['lib/*.m'], 1, 1), 'lib/x.m': ([], 1, 0), 'lib/y.m': (['x.m'], 1, 1)},
}
THOROUGH_SHAPES = {
    'wide': {'main': (['a.m', 'b.m'], 2, 1), 'a.m': (['b.m'], 2, 1), 'b.m': ([], 2, 0)},
    'long-cycle': {'main': (['a.m'], 1, 1), 'a.m': (['b.m'], 1, 1), 'b.m': (['c.m'], 1, 1), 'c.m': (['main', 'a.m'], 1, 1)},
}
PROVIDERS = ['PlainNameImportURI', 'FQNImportURI', 'PlainNameImportURI-search-path', 'RREL+m:items']


class SymParts(list):
    """a reference text already split into its (symbolic) name parts: rrel.find takes the parts as a list"""

    def __repr__(self):
        return '.'.join(map(repr, self))

    __str__ = __repr__

    def __format__(self, spec):
        return repr(self)


def first_match(pi):
    """FQN-based provider and RREL '+m:': the first element of that name in a file, no uniqueness error"""
    return PROVIDERS[pi].startswith('FQN') or PROVIDERS[pi].startswith('RREL')


def make_provider(pi, wrap=None):
    """provider instance; wrap(base) -> subclass of the provider's class"""
    import textx.scoping.providers as P
    name = PROVIDERS[pi]
    if name.startswith('RREL'):
        from textx.scoping.rrel import create_rrel_scope_provider, parse
        base = type(create_rrel_scope_provider(name[4:]))
        cls = wrap(base) if wrap else base
        return cls(parse(name[4:]), None, False)
    base = getattr(P, name.split('-')[0])
    cls = wrap(base) if wrap else base
    return cls(**({'search_path': []} if name.endswith('search-path') else {}))


def file_text(fn, spec):
    imports, nitems, nuses = spec
    tag = re.sub(r'\W', '', fn)
    parts = ['import "%s"' % i for i in imports]
    parts += ['item %s_i%d' % (tag, k) for k in range(nitems)]
    parts += ['use %s_i0' % tag for k in range(nuses)]
    return '\n'.join(parts)


def write(tmp, shape):
    for fn, spec in SHAPES[shape].items():
        p = os.path.join(tmp, fn)
        os.makedirs(os.path.dirname(p), exist_ok=True)
        with open(p, 'w') as f:
            f.write(file_text(fn, spec))


def direct_imports(shape, fn):
    """files a file imports directly, in import order (glob: as a set)"""
    out = []
    base = os.path.dirname(fn)
    for i in SHAPES[shape][fn][0]:
        if '*' in i:
            out.append({f for f in SHAPES[shape] if f.startswith(os.path.join(base, 'lib/'))})
        else:
            out.append(os.path.normpath(os.path.join(base, i)))
    return out


def eqt(a, b):
    if a.t.eq(b.t):
        return True
    return a.t == b.t


def explore(item):
    shape, pi, global_repo, with_builtin, timeout_ms = item
    from textx import metamodel_from_str
    from textx.exceptions import TextXSemanticError
    from textx.scoping import ModelRepository
    import textx.scoping.providers as P
    tmp = tempfile.mkdtemp(prefix='c17_')
    write(tmp, shape)
    files = list(SHAPES[shape])
    ctx = Ctx(timeout_ms, max_paths=40000)

    def rel(m):
        return os.path.relpath(m._tx_filename, tmp)

    def path(c):
        builtins = ModelRepository() if with_builtin else None
        mm = metamodel_from_str(GRAMMAR, global_repository=global_repo, builtin_models=builtins)
        parses = []
        mm.register_obj_processors({'Model': lambda m: parses.append(m._tx_filename)})
        st = {'done': False, 'items': {}, 'uses': [], 'builtin_items': [], 'builtin2_items': []}
        if with_builtin:
            # two builtin models, both built from strings, searched in the order they were added
            bm = mm.model_from_str('item builtin_i0')
            builtins.add_model(bm)
            bm2 = mm.model_from_str('item builtin2_i0')
            builtins.add_model(bm2)
            del parses[:]
        def wrap(base):
            class Prov(base):
                def __call__(self, obj, attr, obj_ref):
                    if not st['done']:
                        st['done'] = True
                        substitute(obj)
                    return base.__call__(self, obj, attr, obj_ref)
            return Prov

        def substitute(obj):
            from textx import get_model
            root = get_model(obj)
            models = list(root._tx_model_repository.all_models)
            if not any(m is root for m in models):
                models.append(root)
            for m in sorted(models, key=rel):
                its = []
                for k, it in enumerate(m.items):
                    n = SymName('n_%s_%d' % (re.sub(r'\W', '', rel(m)), k))
                    it.name = n
                    its.append((it, n))
                st['items'][rel(m)] = its
                st.setdefault('local', {})[rel(m)] = [rel(x) for x in m._tx_model_repository.local_models]
                for j, (o, a, cref) in enumerate(m._tx_reference_resolver.parser._crossrefs):
                    r = SymName('r_%s_%d' % (re.sub(r'\W', '', rel(m)), j))
                    # the FQN provider splits the reference text into parts: a one-part dotted name
                    cref.obj_name = (SymParts([r]) if PROVIDERS[pi].startswith('RREL') else symx.SymFQN([r])) if first_match(pi) else r
                    st['uses'].append((rel(m), o, cref, r))
            if with_builtin:
                for k, it in enumerate(bm.items):
                    n = SymName('n_builtin_%d' % k)
                    it.name = n
                    st['builtin_items'].append((it, n))
                for k, it in enumerate(bm2.items):
                    n = SymName('n_builtin2_%d' % k)
                    it.name = n
                    st['builtin2_items'].append((it, n))
        mm.register_scope_providers({'*.*': make_provider(pi, wrap)})
        main = os.path.join(tmp, 'main')
        try:
            model = mm.model_from_file(main)
            outcome = ('ok', None)
        except TextXSemanticError as e:
            outcome = ('error', str(e))
        except symx.Unsupported:
            raise
        except Exception as e:  # noqa
            return ('bad', 'load raised %s: %s' % (type(e).__name__, e), None)
        if not st['done']:
            return ('harness', 'no reference was ever resolved', None)
        problems = []
        # ---- lookup order (z3) -------------------------------------------------
        failed = None
        if outcome[0] == 'error':
            mo = re.search(r'<(r_\w+)>', outcome[1])
            if not mo:
                return ('bad', 'error does not name the reference: %s' % outcome[1][:100], None)
            failed = mo.group(1)
        for fn, o, cref, r in st['uses']:
            levels = [st['items'][fn]]
            for imp in direct_imports(shape, fn):
                if isinstance(imp, set):
                    # glob: the files it matches, in the order the repository holds them
                    # (snapshot taken when resolution started: a failing load empties the repositories)
                    lm = st['local'][fn]
                    if set(lm) != imp:
                        problems.append('%s: glob import loaded %s, expected %s' % (fn, sorted(lm), sorted(imp)))
                    levels += [st['items'][f] for f in lm if f in imp]
                else:
                    levels.append(st['items'][imp])
            if with_builtin:
                levels.append(st['builtin_items'])
                levels.append(st['builtin2_items'])
            # a file imported twice (or itself) is one scope level only once
            seen, uniq = [], []
            for lv in levels:
                if not any(lv is s for s in seen):
                    seen.append(lv)
                    uniq.append(lv)
            levels = uniq
            own = levels[0]
            levels = [own] + [lv for lv in levels[1:] if lv is not own]

            def count0(lv):
                return Not(Or(*[eqt(n, r) for it, n in lv]))

            def count2(lv):
                return Or(*[And(eqt(a[1], r), eqt(b[1], r)) for a, b in itertools.combinations(lv, 2)])
            if failed is not None and r.label != failed:
                continue
            fqn = first_match(pi)     # the first element of that name in a file, no uniqueness error
            if failed is not None:
                if 'not unique' in outcome[1]:
                    prop = False if fqn else Or(*[And(count2(lv), *[count0(p) for p in levels[:k]])
                                                  for k, lv in enumerate(levels)])
                elif 'Unknown object' in outcome[1]:
                    prop = And(*[count0(lv) for lv in levels])
                else:
                    problems.append('unexpected error: %s' % outcome[1][:100])
                    continue
            else:
                got = o.ref
                alts = []
                for k, lv in enumerate(levels):
                    for idx, (it, n) in enumerate(lv):
                        if it is got:
                            within = And(*[Not(eqt(n2, r)) for it2, n2 in lv[:idx]]) if fqn else Not(count2(lv))
                            alts.append(And(eqt(n, r), within, *[count0(p) for p in levels[:k]]))
                prop = Or(*alts)
            v, mdl = c.must(prop)
            if v == 'sat':
                problems.append({'reference': r.label, 'in': fn, 'outcome': 'resolved' if failed is None else outcome[1][:60],
                                 'naming': naming(mdl, st)})
            elif v == 'unknown':
                return ('unknown', None, None)
        if outcome[0] == 'error':
            return ('bad', problems, None) if problems else ('ok-error', None, None)
        # ---- load-once and identity ---------------------------------------------
        counts = {}
        for p in parses:
            counts[os.path.relpath(p, tmp)] = counts.get(os.path.relpath(p, tmp), 0) + 1
        if counts != {f: 1 for f in files}:
            problems.append('files parsed %s, expected each of %s once' % (counts, files))
        registry = {}
        allm = list(model._tx_model_repository.all_models)
        for m in allm + [model]:
            registry.setdefault(rel(m), [])
            if not any(m is x for x in registry[rel(m)]):
                registry[rel(m)].append(m)
        for f in files:
            if len(registry.get(f, [])) != 1:
                problems.append('%d model objects for file %s' % (len(registry.get(f, [])), f))
        element_ids = {id(it) for f, ms in registry.items() for m in ms[:1] for it in m.items}
        if with_builtin:
            element_ids |= {id(it) for it in bm.items} | {id(it) for it in bm2.items}
        for ms in registry.values():
            for m in ms:
                for u in m.uses:
                    if id(u.ref) not in element_ids:
                        problems.append('a reference in %s points to an element that is not in the registered model '
                                        'of its file' % rel(m))
        # ---- repeated load ---------------------------------------------------------
        del parses[:]
        st['done'] = True
        try:
            again = mm.model_from_file(main)
        except Exception as e:  # noqa
            return ('bad', problems + ['second load raised %s: %s' % (type(e).__name__, e)], None)
        if global_repo:
            if again is not model:
                problems.append('global repository: the second load returned a different model object')
            if parses:
                problems.append('global repository: the second load parsed %s again' % sorted(set(parses)))
            # the same file under another spelling of its path
            try:
                third = mm.model_from_file(os.path.join(tmp, '.', 'main'))
            except Exception as e:  # noqa
                return ('bad', problems + ['load of ./main raised %s: %s' % (type(e).__name__, e)], None)
            if third is not model or parses:
                problems.append('global repository: a load of the same file spelled <dir>/./main returned %s and parsed %s'
                                % ('the cached model' if third is model else 'a different model object', sorted(set(parses))))
        else:
            if again is model:
                problems.append('no global repository: the second load returned the cached model')
            c2 = {}
            for p in parses:
                c2[os.path.relpath(p, tmp)] = c2.get(os.path.relpath(p, tmp), 0) + 1
            if c2 != {f: 1 for f in files}:
                problems.append('second load parsed %s, expected each file once' % c2)
        if problems:
            return ('bad', problems, None)
        return ('ok', None, None)
    try:
        outs = ctx.explore(path)
    except symx.Unsupported as e:
        outs = []
        unsupported = str(e)
    else:
        unsupported = None
    finally:
        import shutil
        shutil.rmtree(tmp, ignore_errors=True)
    return {'shape': shape, 'provider': PROVIDERS[pi], 'global_repo': global_repo, 'builtin': with_builtin,
            'paths': ctx.paths, 'queries': ctx.queries, 'solver_s': ctx.secs, 'truncated': ctx.truncated,
            'unsupported': unsupported,
            'ok': sum(1 for o in outs if o[0] == 'ok'), 'ok_error': sum(1 for o in outs if o[0] == 'ok-error'),
            'unknown': sum(1 for o in outs if o[0] == 'unknown'),
            'harness': [o[1] for o in outs if o[0] == 'harness'][:2],
            'bad': [o[1] for o in outs if o[0] == 'bad'][:3]}


def naming(mdl, st):
    """a concrete naming realising the counterexample's equality pattern"""
    if mdl is None:
        return None
    names = {}

    def nm(t):
        v = str(mdl.eval(t.t, model_completion=True))
        return names.setdefault(v, 'n%d' % len(names))
    out = {'items': {}, 'uses': {}}
    for f, its in st['items'].items():
        out['items'][f] = [nm(n) for it, n in its]
    if st['builtin_items']:
        out['items']['<builtin>'] = [nm(n) for it, n in st['builtin_items']]
        out['items']['<builtin2>'] = [nm(n) for it, n in st['builtin2_items']]
    for f, o, cref, r in st['uses']:
        out['uses'].setdefault(f, []).append(nm(r))
    return out


def replay_concrete(shape, pi, global_repo, with_builtin, nm):
    """the same load with ordinary names: does the real result agree with the
    documented lookup order?"""
    from textx import metamodel_from_str
    from textx.exceptions import TextXSemanticError
    from textx.scoping import ModelRepository
    import textx.scoping.providers as P
    import shutil
    tmp = tempfile.mkdtemp(prefix='c17r_')
    try:
        for fn, (imports, nitems, nuses) in SHAPES[shape].items():
            p = os.path.join(tmp, fn)
            os.makedirs(os.path.dirname(p), exist_ok=True)
            parts = ['import "%s"' % i for i in imports]
            parts += ['item %s' % n for n in nm['items'].get(fn, [])]
            parts += ['use %s' % n for n in nm['uses'].get(fn, [])]
            with open(p, 'w') as f:
                f.write('\n'.join(parts))
        builtins = ModelRepository() if with_builtin else None
        mm = metamodel_from_str(GRAMMAR, global_repository=global_repo, builtin_models=builtins)
        if with_builtin:
            bms = {k: mm.model_from_str('\n'.join('item %s' % n for n in nm['items'].get(k, [])))
                   for k in ('<builtin>', '<builtin2>')}
            builtins.add_model(bms['<builtin>'])
            builtins.add_model(bms['<builtin2>'])
        mm.register_scope_providers({'*.*': make_provider(pi)})
        try:
            model = mm.model_from_file(os.path.join(tmp, 'main'))
        except TextXSemanticError as e:
            outcome = 'error: ' + str(e).replace(tmp, '')[:100]
            model = None
        else:
            outcome = 'ok'
        # expected by the documented order, on concrete names
        models = {}
        if model is not None:
            for m in list(model._tx_model_repository.all_models) + [model]:
                models[os.path.relpath(m._tx_filename, tmp)] = m
        exp_err = None
        wrong = []
        for fn in SHAPES[shape]:
            for r in nm['uses'].get(fn, []):
                levels = [fn] + [x for imp in direct_imports(shape, fn)
                                 for x in (sorted(imp) if isinstance(imp, set) else [imp])]
                levels = list(dict.fromkeys(levels)) + (['<builtin>', '<builtin2>'] if with_builtin else [])
                target = None
                for lv in levels:
                    cnt = nm['items'].get(lv, []).count(r)
                    if cnt == 1 or (cnt > 1 and first_match(pi)):
                        target = (lv, nm['items'][lv].index(r))
                        break
                    if cnt > 1:
                        exp_err = exp_err or 'not unique'
                        break
                else:
                    exp_err = exp_err or 'Unknown object'
                if model is not None and target is not None:
                    u = [u for u in models[fn].uses][nm['uses'][fn].index(r)]
                    owner = bms[target[0]] if target[0].startswith('<builtin') else models[target[0]]
                    if u.ref is not owner.items[target[1]]:
                        wrong.append('%s in %s does not resolve to item %d of %s' % (r, fn, target[1], target[0]))
        if exp_err and outcome == 'ok':
            return True, 'load succeeds, expected a %s error' % exp_err
        if not exp_err and outcome != 'ok':
            return True, 'load fails (%s), expected success' % outcome
        if wrong:
            return True, wrong[0]
        return False, outcome
    finally:
        shutil.rmtree(tmp, ignore_errors=True)


def plain_repeated_load(global_repo):
    """a metamodel whose providers load no models (default provider): with a
    global repository a repeated load of the same file still returns the cached
    model and a different file a different one; without, every load is new"""
    from textx import metamodel_from_str
    import shutil
    tmp = tempfile.mkdtemp(prefix='c17p_')
    problems = []
    try:
        for fn in ('one.m', 'two.m'):
            with open(os.path.join(tmp, fn), 'w') as f:
                f.write('item a\nitem b\nuse a')
        mm = metamodel_from_str(GRAMMAR, global_repository=global_repo)
        m1 = mm.model_from_file(os.path.join(tmp, 'one.m'))
        m2 = mm.model_from_file(os.path.join(tmp, 'one.m'))
        m3 = mm.model_from_file(os.path.join(tmp, 'two.m'))
        if global_repo and m2 is not m1:
            problems.append('global repository, default provider: the second load of one.m returned a new model')
        if not global_repo and m2 is m1:
            problems.append('no global repository: the second load returned the first model')
        if m3 is m1 or m3 is m2:
            problems.append('loading two.m returned the model of one.m')
        for m in (m1, m2, m3):
            if m.uses[0].ref is not m.items[0]:
                problems.append('reference does not point into its own model')
        return problems
    finally:
        shutil.rmtree(tmp, ignore_errors=True)


def rrel_provider_options_scenario():
    """create_rrel_scope_provider('+m:...', search_path=[...]): the options reach the model-loading provider —
    an import found only through the search path is loaded (once) and its elements are referenced"""
    from textx import metamodel_from_str
    from textx.scoping.rrel import create_rrel_scope_provider
    import shutil
    tmp = tempfile.mkdtemp(prefix='c17o_')
    problems = []
    try:
        os.makedirs(os.path.join(tmp, 'libs'))
        os.makedirs(os.path.join(tmp, 'proj'))
        with open(os.path.join(tmp, 'libs', 'lib.m'), 'w') as f:
            f.write('item l1')
        with open(os.path.join(tmp, 'proj', 'main.m'), 'w') as f:
            f.write('import "lib.m"\nitem m1\nuse l1')
        mm = metamodel_from_str(GRAMMAR)
        parses = []
        mm.register_obj_processors({'Model': lambda m: parses.append(os.path.basename(m._tx_filename))})
        mm.register_scope_providers({'*.*': create_rrel_scope_provider('+m:items', search_path=[os.path.join(tmp, 'libs')])})
        try:
            m = mm.model_from_file(os.path.join(tmp, 'proj', 'main.m'))
        except Exception as e:  # noqa
            return ["create_rrel_scope_provider('+m:items', search_path=[libs]): main.m importing lib.m (found only "
                    "through the search path) fails: %s: %s" % (type(e).__name__, str(e).replace(tmp, '')[:100])]
        lib = [x for x in m._tx_model_repository.all_models if x._tx_filename.endswith('lib.m')]
        if len(lib) != 1 or m.uses[0].ref is not lib[0].items[0]:
            problems.append('the reference does not point into the single model of lib.m')
        if sorted(parses) != ['lib.m', 'main.m']:
            problems.append('files parsed: %s' % sorted(parses))
        return problems
    finally:
        shutil.rmtree(tmp, ignore_errors=True)


def search_path_scenario():
    """concrete supplement: files in several directories under a search_path provider.  An import is looked
    up beside the importing file, then in the configured search path - never in the directory of some other
    model of the load; the configured list is not changed by a load"""
    from textx import metamodel_from_str
    import textx.scoping.providers as P
    import shutil
    problems = []
    for pname in ('PlainNameImportURI', 'FQNImportURI'):
        for gr in (False, True):
            tmp = tempfile.mkdtemp(prefix='c17s_')
            try:
                files = {'proj/main.m': 'import "sub/b.m"\nitem m1\nuse b1', 'proj/sub/b.m': 'import "c.m"\nitem b1\nuse c1',
                         'proj/c.m': 'item decoy', 'lib/c.m': 'item c1', 'proj/other.m': 'import "d.m"\nitem o1'}
                for fn, t in files.items():
                    os.makedirs(os.path.dirname(os.path.join(tmp, fn)), exist_ok=True)
                    with open(os.path.join(tmp, fn), 'w') as f:
                        f.write(t)
                sp = [os.path.join(tmp, 'lib')]
                mm = metamodel_from_str(GRAMMAR, global_repository=gr)
                mm.register_scope_providers({'*.*': getattr(P, pname)(search_path=sp)})
                label = '%s(search_path=[lib]), global repository %s' % (pname, gr)
                try:
                    m = mm.model_from_file(os.path.join(tmp, 'proj', 'main.m'))
                    got = sorted(os.path.relpath(x._tx_filename, tmp) for x in m._tx_model_repository.all_models)
                    exp = ['lib/c.m', 'proj/main.m', 'proj/sub/b.m']
                    if got != exp:
                        problems.append('%s: files of the load %s, expected %s' % (label, got, exp))
                except Exception as e:  # noqa
                    problems.append('%s: %s: %s' % (label, type(e).__name__, str(e).replace(tmp, '')[:100]))
                if sp != [os.path.join(tmp, 'lib')]:
                    problems.append('%s: the search_path list given to the provider was changed to %s'
                                    % (label, [os.path.relpath(x, tmp) for x in sp]))
                # d.m exists nowhere on the search path: a later load must not find files beside earlier models
                with open(os.path.join(tmp, 'proj', 'sub', 'd.m'), 'w') as f:
                    f.write('item stray')
                try:
                    mm.model_from_file(os.path.join(tmp, 'proj', 'other.m'))
                    problems.append('%s: other.m imports d.m, which exists only beside a model of an earlier load: '
                                    'the load succeeds' % label)
                except Exception:  # noqa
                    pass
            finally:
                shutil.rmtree(tmp, ignore_errors=True)
    return problems


def global_repo_provider_scenario(global_repo):
    """GlobalRepo provider (file pattern) with roots loaded from strings: with a
    metamodel-wide global repository every registered file is parsed once, all
    roots see the same element objects, and a later load of one of the files
    returns the model the roots already use"""
    from textx import metamodel_from_str
    import textx.scoping.providers as P
    import shutil
    tmp = tempfile.mkdtemp(prefix='c17g_')
    problems = []
    try:
        for fn, text in (('t1.m', 'item a item b'), ('t2.m', 'item c use a')):
            with open(os.path.join(tmp, fn), 'w') as f:
                f.write(text)
        mm = metamodel_from_str(GRAMMAR, global_repository=global_repo)
        parses = []
        mm.register_obj_processors({'Model': lambda m: parses.append(os.path.basename(m._tx_filename or '<string>'))})
        mm.register_scope_providers({'*.*': P.PlainNameGlobalRepo(os.path.join(tmp, '*.m'))})
        r1 = mm.model_from_str('use a use c')
        r2 = mm.model_from_str('use c use b')
        f1 = mm.model_from_file(os.path.join(tmp, 't1.m'))
        if r1.uses[1].ref is not r2.uses[0].ref:
            if global_repo:
                problems.append('two string roots resolve "c" to different objects although the repository is global')
        elif not global_repo:
            problems.append('no global repository, but two separate loads share the object of "c"')
        if global_repo:
            if r1.uses[0].ref is not f1.items[0]:
                problems.append('model_from_file(t1.m) is not the model whose elements the string roots reference')
            counts = {k: parses.count(k) for k in ('t1.m', 't2.m')}
            if counts != {'t1.m': 1, 't2.m': 1}:
                problems.append('registered files parsed %s, expected once each' % counts)
        for r in (r1, r2):
            for u in r.uses:
                if u.ref.name not in ('a', 'b', 'c'):
                    problems.append('wrong target')
        return problems
    finally:
        shutil.rmtree(tmp, ignore_errors=True)


def main():
    import textx.scoping as S
    import textx.scoping.providers as P
    import textx.metamodel as MM
    import textx.model as M
    chk = Check(PROP, 'model_checking')
    quick = chk.tier == 'quick'
    if not quick:
        SHAPES.update(THOROUGH_SHAPES)
    items = []
    for shape in SHAPES:
        for pi in range(len(PROVIDERS)):
            for gr in (False, True):
                for wb in (False, True):
                    if quick and pi == 1 and (wb or shape != 'diamond-cycle'):
                        continue
                    if pi == 2 and (shape == 'glob' or (quick and wb)):
                        continue        # search-path imports name single files
                    if pi == 3 and quick and (shape != 'diamond-cycle' or not wb):
                        continue
                    items.append((shape, pi, gr, wb, 20000 if quick else 60000))
    results = pmap(explore, items)
    chk.cov['functions_encoded'] = src_hash(P.ImportURI.__call__, P.ImportURI._load_referenced_models, P.ImportURI.load_models,
                                            P.PlainName.__call__, S.GlobalModelRepository.load_model,
                                            S.GlobalModelRepository.load_models_using_filepattern,
                                            S.GlobalModelRepository.pre_ref_resolution_callback,
                                            MM.TextXMetaModel.internal_model_from_file, M.ReferenceResolver.resolve_one_step)
    chk.cov['bounds'] = {'import_graphs': {k: {f: v[0] for f, v in s.items()} for k, s in SHAPES.items()},
                         'providers': PROVIDERS, 'global_repository': [False, True], 'builtin_model': [False, True],
                         'elements_per_file': '1-2', 'references': '2-3 per graph'}
    chk.cov['stubs'] = ['element names and reference texts are opaque symbolic names, substituted when resolution starts']
    chk.cov['outside_claim'] = ["GlobalRepo providers beyond the concrete scenario", 'search paths', 'other import graphs',
                                'multi-part (qualified) reference names across files']
    chk.assumptions = ['z3 (uninterpreted sort for names); load-once / identity / repeated-load facts are checked '
                       'concretely on every path']
    paths = ok = 0
    for it, (st, r, secs) in zip(items, results):
        if st != 'ok':
            chk.harness_error(r)
            continue
        chk.add_queries(r['queries'], r['solver_s'])
        paths += r['paths']
        ok += r['ok']
        if r['unsupported']:
            chk.cov['unsupported'] += 1
            chk.sample({'unsupported': r['unsupported'], 'shape': r['shape']})
            continue
        if r['truncated'] or r['unknown']:
            chk.cov['inconclusive'] += 1
        for h in r['harness']:
            chk.harness_error('%s: %s' % (r['shape'], h))
        if r['ok'] == 0:
            chk.harness_error('vacuous: no path of %s/%s loads' % (r['shape'], r['provider']))
        for b in r['bad'][:3]:
            first = b[0] if isinstance(b, list) and b else b
            if isinstance(first, dict) and first.get('naming'):
                bad, detail = replay_concrete(it[0], it[1], it[2], it[3], first['naming'])
                chk.cov['traces_validated_against_impl'] += 1
                if not bad:
                    chk.cov['model_mismatches'] += 1
                    chk.sample({'model_mismatch': first, 'detail': detail})
                    continue
                chk.violation('%s, %s, global repository %s, builtin model %s: %s' % (
                    r['shape'], r['provider'], r['global_repo'], r['builtin'], detail),
                    {'shape': it[0], 'provider': it[1], 'global_repo': it[2], 'builtin': it[3], 'naming': first['naming']})
            else:
                chk.violation('%s, %s, global repository %s, builtin model %s: %s' % (
                    r['shape'], r['provider'], r['global_repo'], r['builtin'], b),
                    {'shape': it[0], 'provider': it[1], 'global_repo': it[2], 'builtin': it[3], 'naming': None})
        chk.sample({'shape': r['shape'], 'provider': r['provider'], 'global_repository': r['global_repo'],
                    'builtin_model': r['builtin'], 'equality_patterns': r['paths'], 'loaded': r['ok'],
                    'failed_as_prescribed': r['ok_error']})
    for gr in (False, True):
        for pr in plain_repeated_load(gr):
            chk.violation(pr, {'plain_repeated_load': gr})
        for pr in global_repo_provider_scenario(gr):
            chk.violation('GlobalRepo provider, global repository %s: %s' % (gr, pr), {'global_repo_provider': gr})
    for pr in rrel_provider_options_scenario():
        chk.violation(pr, {'rrel_provider_options': True})
    for pr in search_path_scenario()[:3]:
        chk.violation(pr, {'search_path_scenario': True})
    chk.cov['bounds']['search_path_scenario'] = 'files in three directories, search_path providers (concrete)'
    chk.cov['bounds']['rrel_provider_options'] = "create_rrel_scope_provider('+m:items', search_path=[...]) (concrete)"
    chk.cov['bounds']['global_repo_provider'] = 'PlainNameGlobalRepo(pattern), two string roots + a file load, global repository on/off: concrete'
    chk.cov['bounds']['plain_repeated_load'] = 'default provider (no model loader), global repository on/off: concrete'
    if chk.cov['model_mismatches']:
        chk.harness_error('a symbolic counterexample did not reproduce with concrete names')
    chk.cov['paths_explored'] = paths
    chk.cov['distinct_nontrivial'] = ok
    chk.cov['obligations'] = paths
    chk.cov['discharged'] = ok
    from . import extras7
    for fn_ in ('added_string_models', 'falsy_objects_across_files'):
        for pr in getattr(extras7, fn_)()[:2]:
            chk.violation(pr, {'extras7': fn_})
        chk.cov['traces_validated_against_impl'] += 1
    chk.cov.setdefault('bounds', {})['concrete_supplements_round7'] = ['added_string_models', 'falsy_objects_across_files']
    return chk.finish('one path per equality pattern between element names and reference texts of a configuration = one '
                      'real multi-file load; the lookup-order clause is a z3 validity query per reference; '
                      'non-trivial = paths that load')


def replay(data):
    if isinstance(data, dict) and data.get('extras7'):
        from . import extras7
        pr = getattr(extras7, data['extras7'])()
        return bool(pr), pr[:2]
    if 'search_path_scenario' in data:
        pr = search_path_scenario()
        return bool(pr), pr[:3]
    if 'rrel_provider_options' in data:
        pr = rrel_provider_options_scenario()
        return bool(pr), pr
    if 'global_repo_provider' in data:
        pr = global_repo_provider_scenario(data['global_repo_provider'])
        return bool(pr), pr
    if 'plain_repeated_load' in data:
        pr = plain_repeated_load(data['plain_repeated_load'])
        return bool(pr), pr
    SHAPES.update(THOROUGH_SHAPES)
    if data.get('naming'):
        return replay_concrete(data['shape'], data['provider'], data['global_repo'], data['builtin'], data['naming'])
    r = explore((data['shape'], data['provider'], data['global_repo'], data['builtin'], 20000))
    return bool(r['bad']), r['bad'][:1]
