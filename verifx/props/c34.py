"""
C34 — editor-support positions identify references and objects exactly.

Path-exhaustive (level P) over postponement schedules (symbolic selector per
reference and attempt, as in C08) of whole real loads with
textx_tools_support=True: single- and two-file models with plain and
qualified (multi-part) references, nested objects that share start positions
and whole spans.  On every path that loads:
  * `_pos_crossref_list` of every model lists each of its resolved references
    exactly once, ordered by start position; start / end delimit exactly the
    reference text (positions are known from the way the input text is
    assembled); definition file and span are the target's;
  * `_pos_rule_dict` maps every object span to an object with that span, the
    innermost one when nested objects share a span, and lists every span before
    all different spans that contain it.
"""
import os
import tempfile

import z3

from ..common import Check, pmap, src_hash
from ..symx import Ctx

PROP = 'C34'

GRAMMAR = """
Model: imports*=Import top*=Class packages*=Package;
Import: 'import' importURI=STRING;
Package: 'package' name=ID '{' (packages+=Package | classes+=Class | wrapped+=Wrapper)* '}';
Class: 'class' name=ID ('uses' uses+=[Class:FQN][','])? ('base' base=[Class:FQN])? ';';
Wrapper: inner=Mid;
Mid: core=Inner;
Inner: 'w' name=ID ';';
FQN: ID('.'ID)*;
"""


class Text:
    """assembles an input text and remembers where the references are"""

    def __init__(self, eol='\n'):
        self.parts = []
        self.refs = []      # (start, end, text, target name)
        self.n = 0
        self.eol = eol

    def add(self, s):
        s = s.replace('\n', self.eol)
        self.parts.append(s)
        self.n += len(s)
        return self

    def ref(self, s, target):
        self.refs.append((self.n, self.n + len(s), s, target))
        return self.add(s)

    def text(self):
        return ''.join(self.parts)


def case_single(eol='\n'):
    t = Text(eol)
    t.add('package pp {\n  class c;\n  class d uses ').ref('pp.c', 'c').add(', ').ref('c', 'c').add(' base ')
    t.ref('c', 'c').add(';\n  w k;\n  package q { class e uses ').ref('d', 'd').add(',').ref('pp.c', 'c')
    t.add('; w m; }\n}')
    return {'main': t}


def case_two_files():
    lib = Text()
    lib.add('package lp { class lc; class ld uses ').ref('lc', 'lc').add(', ').ref('lp.lc', 'lc').add('; }')
    main = Text()
    main.add('import "lib.m"\npackage mp {\n class mc base ').ref('lp.lc', 'lc').add(';\n class md uses ')
    main.ref('mc', 'mc').add(',').ref('lp.ld', 'ld').add('; }')
    return {'main': main, 'lib.m': lib}


def case_same_text():
    """equally spelled references that resolve (relative to the enclosing
    package) to different objects; targets are given by qualified name"""
    t = Text()
    t.add('package p1 {\n class a;\n class b uses ').ref('a', 'p1.a').add(';\n}\npackage p2 {\n class a;\n class c uses ')
    t.ref('a', 'p2.a').add(', ').ref('p1.a', 'p1.a').add(' base ').ref('a', 'p2.a').add(';\n}')
    return {'main': t}


def case_spaced():
    """a qualified reference written with whitespace / a line break around its dots"""
    t = Text()
    t.add('package pp {\n  class c;\n  class d uses ').ref('pp . c', 'c').add(', ').ref('c', 'c').add(' base ')
    t.ref('pp\n .c', 'c').add(';\n}')
    return {'main': t}


def case_offset_zero():
    """the targets are the very first objects of their files (offset 0)"""
    lib = Text()
    lib.add('class lz; package lp { class lc uses ').ref('lz', 'lz').add('; }')
    main = Text()
    main.add('import "lib.m"\nclass z;\npackage mp {\n class mc base ').ref('lz', 'lz').add(';\n class md uses ')
    main.ref('z', 'z').add(',').ref('lz', 'lz').add('; }')
    return {'main': main, 'lib.m': lib}


def case_offset_zero_single():
    t = Text()
    t.add('class z; class y base ').ref('z', 'z').add(';\npackage pp { class c uses ').ref('z', 'z').add(', ').ref('y', 'y')
    t.add('; }')
    return {'main': t}


def case_two_metamodels():
    """the imported file belongs to another registered language (pattern *.m2), i.e. to another metamodel"""
    lib = Text()
    lib.add('package lp { class lc; class ld uses ').ref('lc', 'lc').add(', ').ref('lp.lc', 'lc').add('; class le base ')
    lib.ref('ld', 'ld').add('; }')
    main = Text()
    main.add('import "lib.m2"\npackage mp {\n class mc base ').ref('lp.lc', 'lc').add(';\n class md uses ')
    main.ref('mc', 'mc').add(',').ref('lp.ld', 'ld').add('; }')
    return {'main': main, 'lib.m2': lib}


CASES = {'offset-zero': case_offset_zero, 'offset-zero-single': case_offset_zero_single, 'single': case_single, 'two-files': case_two_files, 'same-text': case_same_text, 'spaced-qualified': case_spaced,
         # the model is given as a string (with a file name), lines end in CR LF: positions are offsets into
         # the text the caller handed over
         'single-crlf-string': lambda: case_single('\r\n'),
         # editor support switched on for one of the two metamodels only
         'two-metamodels-lib-tools': case_two_metamodels, 'two-metamodels-main-tools': case_two_metamodels}


def qualified(o):
    parts = []
    while hasattr(o, 'name'):
        parts.insert(0, o.name)
        o = getattr(o, 'parent', None)
    return '.'.join(parts)


def run(c, case, max_attempts):
    from textx import metamodel_from_str, get_children
    from textx.scoping import Postponed
    import textx.scoping.providers as P
    from textx.exceptions import TextXError
    texts = CASES[case]()
    tmpd = tempfile.mkdtemp(prefix='c34_')
    for fn, t in texts.items():
        with open(os.path.join(tmpd, fn), 'w') as f:
            f.write(t.text())
    tools = {'main': case != 'two-metamodels-lib-tools', 'lib': case != 'two-metamodels-main-tools'}
    mm = metamodel_from_str(GRAMMAR, textx_tools_support=tools['main'])
    mm_lib = None
    if case.startswith('two-metamodels'):
        import textx.registration as REG
        mm_lib = metamodel_from_str(GRAMMAR, textx_tools_support=tools['lib'])
        REG.clear_language_registrations()
        REG.register_language(REG.LanguageDesc('c34lib', pattern='*.m2', description='x', metamodel=lambda: mm_lib))
    inner = P.FQNImportURI()
    attempts = {}
    sched = []

    class Prov(P.ImportURI):
        def __init__(self):
            P.ImportURI.__init__(self, P.FQN())

        def __call__(self, obj, attr, obj_ref):
            from textx import get_model
            key = (os.path.basename(get_model(obj)._tx_filename), obj_ref.position)
            r = attempts.get(key, 0)
            attempts[key] = r + 1
            if r < max_attempts and c.branch(z3.Bool('post_%s_%d_%d' % (key[0].replace('.', '_'), key[1], r))):
                sched.append((key, r))
                return Postponed()
            return inner(obj, attr, obj_ref)
    mm.register_scope_providers({'*.*': Prov()})
    if mm_lib is not None:
        mm_lib.register_scope_providers({'*.*': Prov()})
    problems = []
    try:
        try:
            if case.endswith('-string'):
                model = mm.model_from_str(texts['main'].text(), file_name=os.path.join(tmpd, 'main'))
            else:
                model = mm.model_from_file(os.path.join(tmpd, 'main'))
        except TextXError as e:
            return ('fail', str(e)[:80], sched)
        except Exception as e:  # noqa
            return ('bad', ['load raised %s: %s' % (type(e).__name__, e)], sched)
        models = {'main': model}
        if hasattr(model, '_tx_model_repository'):
            for m in model._tx_model_repository.all_models:
                models[os.path.basename(m._tx_filename)] = m
        for fn, t in texts.items():
            m = models.get(fn)
            if m is None:
                problems.append('model of %s not found' % fn)
                continue
            if not m._tx_metamodel.textx_tools_support:
                continue            # no editor support asked for this file's metamodel
            lst = getattr(m, '_pos_crossref_list', None)
            if lst is None:
                problems.append('%s has no _pos_crossref_list' % fn)
                continue
            got = [(r.ref_pos_start, r.ref_pos_end, r.name) for r in lst]
            # the entry's name is the reference as textX reads it: the written text without inner whitespace
            exp = [(s, e, ''.join(txt.split())) for s, e, txt, tgt in sorted(t.refs)]
            if sorted(got) != exp:
                problems.append('%s: references %s, expected %s' % (fn, sorted(got), exp))
            elif got != exp:
                problems.append('%s: reference list not ordered by start position: %s' % (fn, [g[0] for g in got]))
            # definitions
            all_objs = []
            for mm_ in models.values():
                all_objs += get_children(lambda x: hasattr(x, 'name'), mm_)
            # the object each reference was actually linked to (classes in document
            # order; per class the 'uses' list, then 'base'): the definition entry
            # must describe that object — whether it is the intended one is C10's business
            linked = []
            for cl in sorted(get_children(lambda x: type(x).__name__ == 'Class', m), key=lambda x: x._tx_position):
                linked += list(cl.uses) + ([cl.base] if cl.base is not None else [])
            actual = {s: o for (s, e, txt, tg), o in zip(sorted(t.refs), linked)} if len(linked) == len(t.refs) else {}
            for r in lst:
                tgt = next((tg for s, e, txt, tg in t.refs if s == r.ref_pos_start), None)
                if tgt is None:
                    continue
                o = actual.get(r.ref_pos_start)
                if o is None:
                    o = next(x for x in all_objs if type(x).__name__ == 'Class' and
                             (qualified(x) == tgt if '.' in tgt else x.name == tgt))
                from textx import get_model
                want = (get_model(o)._tx_filename, o._tx_position, o._tx_position_end)
                if (r.def_file_name, r.def_pos_start, r.def_pos_end) != want:
                    problems.append('%s: reference at %d: definition %s, expected %s' % (
                        fn, r.ref_pos_start, (r.def_file_name, r.def_pos_start, r.def_pos_end), want))
            # position map
            prd = getattr(m, '_pos_rule_dict', None)
            if prd is None:
                problems.append('%s has no _pos_rule_dict' % fn)
                continue
            objs = get_children(lambda x: True, m)
            spans = {}
            for o in objs:                      # parents come before children
                spans.setdefault((o._tx_position, o._tx_position_end), []).append(o)
            for span, os_ in spans.items():
                if span not in prd:
                    problems.append('%s: span %s missing in _pos_rule_dict' % (fn, span))
                elif prd[span] is not os_[-1]:
                    problems.append('%s: span %s maps to %s, innermost object is %s' % (
                        fn, span, type(prd[span]).__name__, type(os_[-1]).__name__))
            for span in prd:
                if span not in spans:
                    problems.append('%s: span %s in _pos_rule_dict belongs to no object' % (fn, span))
            keys = list(prd.keys())
            for i, a in enumerate(keys):
                for b in keys[:i]:
                    # b is listed before a: b must not be a different span containing a
                    if b != a and b[0] <= a[0] and a[1] <= b[1]:
                        problems.append('%s: span %s listed before the span %s it contains' % (fn, b, a))
                        break
    finally:
        for fn in texts:
            try:
                os.remove(os.path.join(tmpd, fn))
            except OSError:
                pass
        os.rmdir(tmpd)
        if mm_lib is not None:
            import textx.registration as REG
            REG.clear_language_registrations()
    return ('bad' if problems else 'ok', problems, sched)


def explore(item):
    case, max_attempts = item
    ctx = Ctx(10000, max_paths=20000, free_selectors=True)
    outs = ctx.explore(lambda c: run(c, case, max_attempts))
    kinds = {}
    for o in outs:
        kinds[o[0]] = kinds.get(o[0], 0) + 1
    bad = [o for o in outs if o[0] == 'bad']
    return {'case': case, 'paths': ctx.paths, 'kinds': kinds,
            'bad': [{'case': case, 'schedule': [list(map(list, [k])) + [r] for k, r in o[2]], 'problems': o[1][:4],
                     'sched_raw': [[k[0], k[1], r] for k, r in o[2]]} for o in bad[:3]]}


def classify(problem):
    if 'references [' in problem and 'expected' in problem:
        return 'C34-reference-end'
    if 'not ordered by start position' in problem:
        return 'C34-reference-order'
    if 'listed before the span' in problem:
        return 'C34-span-order'
    if 'innermost object is' in problem:
        return 'C34-shared-span-outermost'
    return None


def replay_schedule(case, sched):
    class C:
        def branch(self, b):
            nm = b.decl().name()
            return any(nm == 'post_%s_%d_%d' % (k.replace('.', '_'), p, r) for k, p, r in sched)
    return run(C(), case, 5)


def main():
    import textx.model as M
    chk = Check(PROP, 'exploration')
    quick = chk.tier == 'quick'
    items = [(case, 1 if quick else 2) for case in CASES]
    results = pmap(explore, items)
    chk.cov['functions_encoded'] = src_hash(M.ReferenceResolver.resolve_one_step, M.parse_tree_to_objgraph,
                                            M.RefRulePosition)
    chk.cov['bounds'] = {'cases': list(CASES), 'postponable_attempts_per_reference': 1 if quick else 2}
    chk.cov['outside_claim'] = ['other grammars / layouts']
    chk.assumptions = ['finite schedule space enumerated exhaustively (selectors unconstrained: z3 decides nothing)']
    paths = 0
    for (st, r, secs) in results:
        if st != 'ok':
            chk.harness_error(r)
            continue
        paths += r['paths']
        if not r['kinds'].get('ok') and not r['bad']:
            chk.harness_error('vacuous case %s: %s' % (r['case'], r['kinds']))
        reported = set()
        for b in r['bad']:
            for p in b['problems']:
                fid = classify(p)
                if fid and chk.is_known(fid):
                    chk.known_hit(fid, '%s, schedule %s: %s' % (b['case'], b['sched_raw'], p))
                    continue
                key = (b['case'], fid or p[:40])
                if key in reported or len(chk.violations) >= 8:
                    continue
                reported.add(key)
                chk.cov['traces_validated_against_impl'] += 1
                chk.violation('%s, postponement schedule %s: %s' % (b['case'], b['sched_raw'], p),
                              {'case': b['case'], 'schedule': b['sched_raw']})
        chk.sample({'case': r['case'], 'schedules': r['paths'], 'outcomes': r['kinds']})
    chk.cov['paths_explored'] = paths
    chk.cov['evaluations'] = paths
    chk.cov['distinct_nontrivial'] = paths
    chk.cov['exhaustive'] = True
    return chk.finish('one path per postponement schedule per case; each is a real load with textx_tools_support=True')


def replay(data):
    o = replay_schedule(data['case'], data['schedule'])
    return o[0] == 'bad', o[1][:3]
