"""
C11 — RREL reference resolution follows the documented expression semantics.

symx runs the real `rrel.find` (RRELNavigation / RRELDots / RRELParent /
RRELBrackets / RRELZeroOrMore / RRELPath / RRELSequence.get_next_matches,
find_object_with_path, ReferenceProxy) on real loaded models whose object names
and the 1..3 name parts of the reference are opaque symbolic names (equality
decided by z3; sibling names in one collection are assumed unique).  For every
feasible path the result is compared, as z3 validity queries, with a
denotational reference D(e)(start, parts) = set of derivations
(target, condition over names, named objects traversed) written from
docs/rrel.md:
  soundness    the result is the target of a derivation that consumed every
               part, matched every named step and conforms to the type;
  completeness None only if no derivation exists;
  precedence   no earlier comma-separated alternative has a derivation;
  path         with '+p:' the proxy's _tx_path is the list of named objects of
               such a derivation, ending in the target.
"""
import itertools

import z3

from ..alg import And, Or, Not
from ..common import Check, pmap, src_hash, tier
from .. import symx
from ..symx import Ctx, SymName

PROP = 'C11'

GRAMMAR = """
Model: packages+=Package;
Package: 'package' name=ID '{' (packages+=Package | classes+=Class)* '}';
Class: 'class' name=ID ('extends' extends+=[Class:FQN][','])? '{' methods*=Method '}';
Method: 'm' name=ID ';';
FQN: ID('.'ID)*;
"""
MODELS = [
    "package p { class a { m f; } class b extends a { m g; } package q { class c extends b { m h; m f; } } }",
    "package p { class a { m f; } } package r { class b extends p.a { m g; } package s { class d { } } }",
    "package p { package q { package r { class a { m f; } } class b { } } class c extends p.q.b { } }",
]
# (expression, target rule or None, kinds of start objects, numbers of name parts)
EXPRS = [
    ('packages.classes', 'Class', ['Class'], [2]),
    ('^packages*.classes', 'Class', ['Class', 'Method'], [1, 2, 3]),
    ('packages*.classes', 'Class', ['Class'], [1, 2, 3]),
    ('^classes', 'Class', ['Method', 'Class'], [1]),
    ('~extends*.methods', 'Method', ['Class'], [1]),
    ('..~extends*.methods', 'Method', ['Method'], [1]),
    ('parent(Class).methods', 'Method', ['Method'], [1]),
    ('.methods', 'Method', ['Class'], [1]),
    ('packages.classes,packages.packages.classes', 'Class', ['Class'], [2, 3]),
    ('(packages)*.classes', 'Class', ['Method'], [2, 3]),
    ('parent(Package).classes', 'Class', ['Method', 'Class'], [1]),
    ('...classes', 'Class', ['Method'], [1]),
    ('^packages*.classes.methods', 'Method', ['Method'], [2, 3]),
    ('+p:^packages*.classes', 'Class', ['Class'], [1, 2]),
    ('+p:packages*.classes.methods', 'Method', ['Class'], [2, 3]),
    ('+p:~extends*.methods', 'Method', ['Class'], [1]),
    ('^packages*.classes,^classes', 'Class', ['Method'], [1, 2]),
    ('+p:^(packages,classes)*', None, ['Method'], [1, 2]),
    ('^packages*.(classes,packages)', None, ['Class'], [1, 2]),
    ('..~extends.methods,..methods', 'Method', ['Method'], [1]),
    # the last step follows a reference without consuming a name: the target is not the last named object
    ('packages*.classes.~extends', 'Class', ['Class'], [1, 2]),
    ('+p:packages*.classes.~extends', 'Class', ['Class'], [1, 2]),
    # several alternatives that start with '^', names only a later one resolves
    ('^packages.classes,^classes', 'Class', ['Method', 'Class'], [1, 2]),
    ('^classes.methods,^methods,^packages.classes.methods', 'Method', ['Method'], [1, 2, 3]),
    # dots steps that need more ancestors than some start objects have
    ('....packages', 'Package', ['Class', 'Method'], [1]),
    ('.....packages.classes,..classes', 'Class', ['Class', 'Method'], [1, 2]),
    ('+p:....classes,...classes', 'Class', ['Method'], [1]),
    # a '*' group mixing a non-consuming and a consuming step over one attribute (round 10, C11m): the
    # same object is reached with different numbers of name parts left
    ('(~packages,packages)*.classes', 'Class', ['Class'], [1, 2, 3]),
    ('(packages,~packages)*.classes', 'Class', ['Class', 'Method'], [1, 2]),
]


def load(mi):
    from textx import metamodel_from_str
    import textx.scoping.providers as P
    mm = metamodel_from_str(GRAMMAR)
    mm.register_scope_providers({'*.*': P.FQN()})
    return mm, mm.model_from_str(MODELS[mi])


def named(m):
    from textx import get_children
    return get_children(lambda x: hasattr(x, 'name'), m)


def eq(a, b):
    if isinstance(a, SymName) and isinstance(b, SymName):
        return True if a.t.eq(b.t) else (a.t == b.t)
    if isinstance(a, SymName) or isinstance(b, SymName):
        return False
    return a == b


def root_of(o):
    while hasattr(o, 'parent'):
        o = o.parent
    return o


# ---------------------------------------------------------------- reference semantics
# a state = (obj, k parts consumed, cond, path tuple)
def d_nav(node, st, parts, first):
    obj, k, c, path = st
    if first:
        obj = root_of(obj)
    if k >= len(parts) and node.consume_name:
        return
    if not hasattr(obj, node.name):
        return
    v = getattr(obj, node.name)
    if not node.consume_name and node.fixed_name is None:
        for x in (v if isinstance(v, list) else [v]):
            if x is not None:
                yield (x, k, c, path)
        return
    for x in (v if isinstance(v, list) else [v]):
        if x is None or not hasattr(x, 'name'):
            continue
        if node.fixed_name is not None:
            m = eq(x.name, node.fixed_name)
            if m is not False:
                yield (x, k, And(c, m), path + (x,))
        else:
            m = eq(x.name, parts[k])
            if m is not False:
                yield (x, k + 1, And(c, m), path + (x,))


def d_elem(node, st, parts, first, depth):
    import textx.scoping.rrel as R
    from textx import textx_isinstance, get_metamodel
    obj, k, c, path = st
    if isinstance(node, R.RRELNavigation):
        yield from d_nav(node, st, parts, first)
    elif isinstance(node, R.RRELDots):
        o = obj
        n = node.num
        while n > 1 and hasattr(o, 'parent'):
            o = o.parent
            n -= 1
        if n <= 1:
            yield (o, k, c, path)
    elif isinstance(node, R.RRELParent):
        t = get_metamodel(obj)[node.type]
        o = obj
        while hasattr(o, 'parent'):
            o = o.parent
            if textx_isinstance(o, t):
                yield (o, k, c, path)
                break
    elif isinstance(node, R.RRELBrackets):
        yield from d_seq(node.seq, st, parts, first, depth)
    elif isinstance(node, R.RRELZeroOrMore):
        starts = []
        if first:
            if node.start_locally():
                starts.append((obj, k, c, path))
            if node.start_at_root():
                starts.append((root_of(obj), k, c, path))
        else:
            starts.append(st)
        seen = set()
        frontier = list(starts)
        for s in starts:
            yield s
        rounds = 0
        # the first expansion starts from the original object with the first-element flag
        cur = [(st, first)]
        while cur and rounds < depth:
            rounds += 1
            nxt = []
            for s, f in cur:
                for r in d_seq(node.path_element.seq, s, parts, f, depth):
                    key = (id(r[0]), r[1], tuple(id(x) for x in r[3]))
                    if key in seen:
                        continue
                    seen.add(key)
                    yield r
                    nxt.append((r, False))
            cur = nxt
    else:
        raise symx.Unsupported('rrel node %s' % type(node).__name__)


def d_path(node, st, parts, first, depth):
    states = [(st, first)]
    for i, e in enumerate(node.path_elements):
        nxt = []
        for s, f in states:
            for r in d_elem(e, s, parts, f, depth):
                nxt.append((r, False))
        states = nxt
        if not states:
            break
    for s, f in states:
        yield s


def d_seq(node, st, parts, first, depth):
    for p in node.paths:
        yield from d_path(p, st, parts, first, depth)


def derivations(tree, start, parts, cls, depth):
    """[(alternative index, target, cond, path)] complete derivations"""
    from textx import textx_isinstance
    out = []
    for i, p in enumerate(tree.seq.paths):
        for (o, k, c, path) in d_path(p, (start, 0, True, ()), parts, True, depth):
            if k == len(parts) and (cls is None or textx_isinstance(o, cls)):
                # the path lists the named objects traversed and ends in the target (docs/rrel.md: "the last
                # entry of the list is _tx_obj"), also when the last step consumed no name
                if not path or path[-1] is not o:
                    path = tuple(path) + (o,)
                out.append((i, o, c, path))
    return out


# ---------------------------------------------------------------- exploration
def explore(item):
    mi, ei, kind, nparts, timeout_ms = item
    import textx.scoping.rrel as R
    expr, target, kinds, _ = EXPRS[ei]
    mm, m = load(mi)
    objs = named(m)
    orig = [o.name for o in objs]
    names = [SymName('n%d' % i) for i in range(len(objs))]
    cls = mm[target] if target else None
    tree = R.parse(expr)
    use_proxy = tree.use_proxy
    # sibling names unique per collection
    assume = []
    for p in [m] + objs:
        for an, a in type(p)._tx_attrs.items():
            if a.cont and a.ref:
                v = getattr(p, an)
                if isinstance(v, list):
                    for x, y in itertools.combinations(v, 2):
                        assume.append(names[objs.index(x)].t != names[objs.index(y)].t)
    res = {'model': mi, 'expr': expr, 'start_kind': kind, 'parts': nparts, 'paths': 0,
           'queries': {'sat': 0, 'unsat': 0, 'unknown': 0}, 'solver_s': 0.0, 'bad': [], 'ok': 0, 'unknown': 0,
           'unsupported': None, 'nonvacuous': 0}
    starts = [o for o in objs if type(o).__name__ == kind][:3]
    for start in starts:
        ctx = Ctx(timeout_ms, max_paths=4000)

        def path(c, start=start):
            for o, n in zip(objs, names):
                o.name = n
            parts = [SymName('p%d' % j) for j in range(nparts)]
            got = R.find(start, list(parts), tree, cls, use_proxy=use_proxy)
            gobj, gpath = got, None
            if got is not None and use_proxy:
                gobj = got._tx_obj
                gpath = tuple(got._tx_path)
            ders = derivations(tree, start, parts, cls, len(objs) + 2)
            terms = []
            for j in sorted({d[0] for d in ders}) if gobj is not None else []:
                mine = [d for d in ders if d[0] == j and d[1] is gobj and
                        (gpath is None or tuple(id(x) for x in d[3]) == tuple(id(x) for x in gpath))]
                earlier = Or(*[d[2] for d in ders if d[0] < j])
                terms.append(And(Or(*[d[2] for d in mine]), Not(earlier)))
            if gobj is None:
                prop = Not(Or(*[d[2] for d in ders]))
            else:
                prop = Or(*terms)
            v, mdl = c.must(prop)
            if v == 'unsat':
                return ('ok', gobj is not None)
            if v == 'unknown':
                return ('unknown', False)
            cn, cp = concretise(mdl, names, parts)
            return ('bad', cn, cp, objs.index(start))
        try:
            outs = ctx.explore(path, assume)
        except symx.Unsupported as e:
            res['unsupported'] = str(e)
            outs = []
        finally:
            for o, n in zip(objs, orig):
                o.name = n
        res['paths'] += ctx.paths
        for q in ctx.queries:
            res['queries'][q] += ctx.queries[q]
        res['solver_s'] += ctx.secs
        for o in outs:
            if o[0] == 'ok':
                res['ok'] += 1
                res['nonvacuous'] += 1 if o[1] else 0
            elif o[0] == 'unknown':
                res['unknown'] += 1
            elif len(res['bad']) < 2:
                res['bad'].append({'model': mi, 'expr': expr, 'target': target, 'start': o[3], 'names': o[1],
                                   'parts': o[2]})
    return res


def concretise(mdl, names, parts):
    vals = {}

    def nm(t):
        key = str(mdl.eval(t, model_completion=True))
        if key not in vals:
            vals[key] = 'abcdefghijklmnopqrstuvwxyz'[len(vals)]
        return vals[key]
    return [nm(n.t) for n in names], [nm(p.t) for p in parts]


def replay_concrete(mi, expr, target, si, cnames, cparts):
    import textx.scoping.rrel as R
    mm, m = load(mi)
    objs = named(m)
    for o, n in zip(objs, cnames):
        o.name = n
    cls = mm[target] if target else None
    tree = R.parse(expr)
    start = objs[si]
    got = R.find(start, list(cparts), tree, cls, use_proxy=tree.use_proxy)
    gobj, gpath = got, None
    if got is not None and tree.use_proxy:
        gobj, gpath = got._tx_obj, tuple(got._tx_path)
    ders = [d for d in derivations(tree, start, cparts, cls, len(objs) + 2) if d[2] is True]
    idx = lambda o: None if o is None else (objs.index(o) if o in objs else '?')   # noqa: E731
    detail = {'got': idx(gobj), 'path': [idx(x) for x in gpath] if gpath else None,
              'derivations': [(d[0], idx(d[1]), [idx(x) for x in d[3]]) for d in ders][:4],
              'names': cnames, 'parts': cparts}
    if gobj is None:
        return bool(ders), detail
    if not ders:
        return True, detail
    first_alt = min(d[0] for d in ders)
    ok = any(d[0] == first_alt and d[1] is gobj and
             (gpath is None or [id(x) for x in d[3]] == [id(x) for x in gpath]) for d in ders)
    return (not ok), detail


# ---------------------------------------------------------------- provider level
# one RREL scope-provider object (create_rrel_scope_provider) serving reference
# attributes whose match rules split names differently: the delimiter is
# deduced per reference.  Selectors choose the sequence of references.
PGRAMMAR = """
Model: packages*=Package refs*=Use;
Package: 'package' name=ID '{' classes*=Class packages*=Package '}';
Class: 'class' name=ID;
Use: 'dot' d=[Class:FQN] | 'col' c=[Class:FQNC] | 'plain' p=[Class];
FQN[split='.']: ID('.'ID)*;
FQNC[split='::']: ID('::'ID)*;
"""
PMODEL = "package p1 { class A package p2 { class B } } package q { class A }"
PTARGETS = [('p1', 'A'), ('p1', 'p2', 'B'), ('q', 'A')]


def provider_explore(item):
    expr, nrefs = item
    from textx import metamodel_from_str
    from textx.scoping.rrel import create_rrel_scope_provider
    from textx.exceptions import TextXError
    import z3
    ctx = Ctx(10000, max_paths=20000, free_selectors=True)

    def path(c):
        uses = []
        for i in range(nrefs):
            kind = 'dot' if c.branch(z3.Bool('dot_%d' % i)) else 'col'
            ti = 0 if c.branch(z3.Bool('t0_%d' % i)) else (1 if c.branch(z3.Bool('t1_%d' % i)) else 2)
            uses.append((kind, PTARGETS[ti]))
        text = PMODEL + ''.join(' %s %s' % (k, ('.' if k == 'dot' else '::').join(t)) for k, t in uses)
        mm = metamodel_from_str(PGRAMMAR)
        mm.register_scope_providers({'*.*': create_rrel_scope_provider(expr)})
        try:
            m = mm.model_from_str(text)
        except TextXError as e:
            return ('bad', text, 'load fails: %s' % str(e)[:80])
        for u, (k, t) in zip(m.refs, uses):
            o = u.d if k == 'dot' else u.c
            got = []
            x = o
            while hasattr(x, 'name'):
                got.insert(0, x.name)
                x = getattr(x, 'parent', None)
            if tuple(got) != t:
                return ('bad', text, 'reference %s resolves to %s' % ('.'.join(t), '.'.join(got)))
        return ('ok', text, None)
    outs = ctx.explore(path)
    return {'expr': expr, 'paths': ctx.paths, 'bad': [o for o in outs if o[0] == 'bad'][:2],
            'ok': sum(1 for o in outs if o[0] == 'ok')}


def provider_replay(expr, text):
    from textx import metamodel_from_str
    from textx.scoping.rrel import create_rrel_scope_provider
    mm = metamodel_from_str(PGRAMMAR)
    mm.register_scope_providers({'*.*': create_rrel_scope_provider(expr)})
    try:
        m = mm.model_from_str(text)
    except Exception as e:  # noqa
        return True, 'load fails: %s' % str(e)[:100]
    return False, 'loads'


# ---------------------------------------------------------------- navigation through unresolved references
# an earlier alternative that has to cross a reference which is still unresolved
# when the expression is first evaluated (Postponed) keeps its precedence over a
# later alternative that matches at once
NGRAMMAR = """
Model: structs+=Struct %(order)s;
Struct: 'struct' name=ID '{' vals+=Val* '}';
Val: 'val' name=ID;
Inst: 'inst' name=ID ':' type=[Struct];
Use: 'use' target=[Val|FQN|%(rrel)s];
FQN: ID('.'ID)*;
"""


def unresolved_navigation(flags, uses_first, registered):
    from textx import metamodel_from_str
    rrel = flags + 'insts.~type.vals,structs.vals'
    order = 'uses+=Use insts+=Inst' if uses_first else 'insts+=Inst uses+=Use'
    model_text = 'struct S { val x } struct a { val x } ' + (
        'use a.x inst a : S' if uses_first else 'inst a : S use a.x')
    if registered:
        mm = metamodel_from_str((NGRAMMAR % {'order': order, 'rrel': 'XX'}).replace('|XX', ''))
        mm.register_scope_providers({'Use.target': rrel})
    else:
        mm = metamodel_from_str(NGRAMMAR % {'order': order, 'rrel': rrel})
    try:
        m = mm.model_from_str(model_text)
    except Exception as e:  # noqa
        return 'load fails: %s: %s' % (type(e).__name__, str(e)[:80])
    s_x, a_x, inst = m.structs[0].vals[0], m.structs[1].vals[0], m.insts[0]
    tgt = m.uses[0].target
    import textx.scoping.rrel as R_
    if 'p' in flags and not isinstance(tgt, R_.ReferenceProxy):
        return "the expression has the flag '+p:' but the reference is not a ReferenceProxy (no _tx_path): %r" % type(tgt).__name__
    obj = tgt._tx_obj if 'p' in flags else tgt
    if obj is not s_x:
        return "'a.x' resolves to the val of struct %r, expected S.x (first alternative: inst a -> type S -> x)" % (
            getattr(getattr(obj, 'parent', None), 'name', obj),)
    if 'p' in flags and list(tgt._tx_path) != [inst, s_x]:
        return 'proxy path %s, expected [inst a, val x of S]' % [getattr(o, 'name', o) for o in tgt._tx_path]
    return None


def main():
    import textx.scoping.rrel as R
    chk = Check(PROP, 'model_checking')
    quick = chk.tier == 'quick'
    models = [0, 1] if quick else list(range(len(MODELS)))
    timeout_ms = 20000 if quick else 120000
    items = []
    for mi in models:
        for ei, (expr, target, kinds, nparts) in enumerate(EXPRS):
            for kind in kinds[:1] if quick else kinds:
                for k in (nparts[:2] if quick else nparts):
                    items.append((mi, ei, kind, k, timeout_ms))
    results = pmap(explore, items)
    chk.cov['functions_encoded'] = src_hash(R.find_object_with_path, R.find, R.RRELNavigation.apply,
                                            R.RRELZeroOrMore.get_next_matches, R.RRELPath.get_next_matches,
                                            R.RRELSequence.get_next_matches, R.RRELDots.apply, R.RRELParent.apply,
                                            R.RRELBase.get_next_matches, R.ReferenceProxy)
    chk.cov['bounds'] = {'models': len(models), 'expressions': len(EXPRS), 'name_parts': '1-3',
                         'start_objects_per_kind': 3}
    chk.cov['stubs'] = ['object names and reference parts are opaque symbolic names']
    chk.cov['outside_claim'] = ["'+m:' (file loading)", 'fixed-name navigation (needs concrete names)',
                                'collections with duplicate names', 'other model shapes / expressions']
    chk.assumptions = ['sibling names unique per collection', 'reference semantics written from docs/rrel.md '
                       '(verifx/props/c11.py)', 'z3 (uninterpreted sort for names)']
    paths = dis = nonvac = 0
    seen = set()
    for it, (st, r, secs) in zip(items, results):
        if st != 'ok':
            chk.harness_error(r)
            continue
        chk.add_queries(r['queries'], r['solver_s'])
        paths += r['paths']
        dis += r['ok']
        nonvac += r['nonvacuous']
        chk.cov['inconclusive'] += r['unknown']
        if r['unsupported']:
            chk.cov['unsupported'] += 1
            chk.sample({'unsupported': r['unsupported'], 'expr': r['expr']})
        for b in r['bad']:
            bad, detail = replay_concrete(b['model'], b['expr'], b['target'], b['start'], b['names'], b['parts'])
            chk.cov['traces_validated_against_impl'] += 1
            if not bad:
                chk.cov['model_mismatches'] += 1
                chk.sample({'model_mismatch': b, 'detail': detail})
                continue
            key = (b['expr'],)
            if key in seen:
                continue
            seen.add(key)
            chk.violation('%s on model %d from object #%d: %s' % (b['expr'], b['model'], b['start'], detail), b)
        chk.sample({'expr': r['expr'], 'model': r['model'], 'start': r['start_kind'], 'parts': r['parts'],
                    'paths': r['paths'], 'discharged': r['ok'], 'paths_with_a_result': r['nonvacuous']})
    if nonvac == 0:
        chk.harness_error('vacuous: no path resolved anything')
    # provider level (path-exhaustive over reference sequences, no solver verdict)
    pitems = [(e, 2 if quick else 3) for e in ('packages*.classes', '+p:packages*.classes')]
    for it, (st, r, secs) in zip(pitems, pmap(provider_explore, pitems)):
        if st != 'ok':
            chk.harness_error(r)
            continue
        paths += r['paths']
        if not r['ok'] and not r['bad']:
            chk.harness_error('vacuous provider scenario')
        for _, text, what in r['bad'][:1]:
            chk.violation('provider %r on %r: %s' % (r['expr'], text, what), {'provider_expr': r['expr'], 'text': text})
        chk.sample({'provider_scenario': r['expr'], 'reference_sequences': r['paths'], 'resolved_as_expected': r['ok']})
    import itertools
    for flags, uses_first, registered in itertools.product(('', '+p:'), (False, True), (False, True)):
        pr = unresolved_navigation(flags, uses_first, registered)
        paths += 1
        if pr:
            chk.violation('%s%s, reference %s the instance, %s: %s' % (
                flags, 'insts.~type.vals,structs.vals', 'before' if uses_first else 'after',
                'registered provider' if registered else 'grammar RREL', pr),
                {'unresolved_navigation': [flags, uses_first, registered]})
            break
    chk.cov['bounds']['unresolved_navigation'] = ('first alternative crosses a reference resolved later / earlier, '
                                                  "'' and '+p:', grammar RREL and registered string (8 concrete loads)")
    chk.cov['bounds']['provider_scenario'] = ('one provider object for references with split ".", "::"; every sequence of '
                                              '%d references over 3 targets' % pitems[0][1])
    chk.cov['paths_explored'] = paths
    chk.cov['distinct_nontrivial'] = nonvac
    chk.cov['obligations'] = paths
    chk.cov['discharged'] = dis
    if chk.cov['model_mismatches']:
        chk.harness_error('a solver counterexample did not reproduce with concrete names')
    from . import extras7
    for fn_ in ('proxy_postponement', 'references_per_assignment'):
        for pr in getattr(extras7, fn_)()[:2]:
            chk.violation(pr, {'extras7': fn_})
        chk.cov['traces_validated_against_impl'] += 1
    chk.cov.setdefault('bounds', {})['concrete_supplements_round7'] = ['proxy_postponement', 'references_per_assignment']
    return chk.finish('one exploration per (model, expression, start object, number of parts); every feasible path of the '
                      'real RREL evaluation ends in one z3 validity query; non-trivial = paths that resolve to an object')


def replay(data):
    if isinstance(data, dict) and data.get('extras7'):
        from . import extras7
        pr = getattr(extras7, data['extras7'])()
        return bool(pr), pr[:2]
    if 'unresolved_navigation' in data:
        pr = unresolved_navigation(*data['unresolved_navigation'])
        return bool(pr), pr
    if 'provider_expr' in data:
        from textx import metamodel_from_str
        from textx.scoping.rrel import create_rrel_scope_provider
        mm = metamodel_from_str(PGRAMMAR)
        mm.register_scope_providers({'*.*': create_rrel_scope_provider(data['provider_expr'])})
        try:
            mm.model_from_str(data['text'])
        except Exception as e:  # noqa
            return True, 'load fails: %s' % str(e)[:100]
        r = provider_explore((data['provider_expr'], 2))
        return bool(r['bad']), r['bad'][:1]
    return replay_concrete(data['model'], data['expr'], data['target'], data['start'], data['names'], data['parts'])
