"""
C24 — textx.tx (the self-hosted grammar) accepts exactly the grammar texts the
grammar compiler parses without a syntax error.

Solver obligation, per template (concrete prefix / suffix) and window length w:
    exists window in Sigma^w :  acc_A(text) != acc_B(text)      must be UNSAT
A = the live Arpeggio parser `textx.lang.language_from_str` builds from the
    Python grammar in lang.py (+ rrel.py), B = the live parser textX builds for
    the registered 'textx' language from textx/textx.tx.  Both parser models are
    taken from the running textX and encoded by sympeg over the same symbolic
    text.  Counterexamples are replayed on the two real parsers.
"""
import re
import time

import z3

from ..alg import And, Or, Not, Xor, lift_bool
from ..common import Check, pmap, src_hash, tier
from ..symtext import SymInput, CHR2CODE, WORD, CAT, Unsupported
from ..sympeg import SymPeg

PROP = 'C24'

BNF = "B:name=ID;"
TEMPLATES = [
    # (name, prefix, suffix)
    ('rule-body', "A: ", ";"),
    ('rule-params', "A", ": 'a';"),
    ('rule-params-in', "A[", "]: 'a';"),
    ('objref', "A: a=[B", "];" + BNF),
    ('objref-rule', "A: a=[B:", "];" + BNF),
    ('rrel', "A:a=[B:ID|", "];" + BNF),
    ('rrel-flag', "A:a=[B:ID|+", "a];" + BNF),
    ('rrel-after-dot', "A:a=[B:ID|a.", "];" + BNF),
    ('rrel-nav', "A:a=[B:ID|", "~a];" + BNF),
    ('rrel-parent', "A:a=[B:ID|parent(", "];" + BNF),
    ('rrel-brackets', "A:a=[B:ID|(", ")*];" + BNF),
    ('repeat-op', "A: 'a'", ";"),
    ('repeat-mod', "A: 'a'*[", "];"),
    ('asg-op', "A: a", ";" + BNF),
    ('asg-rhs', "A: a=", ";" + BNF),
    ('asg-mod', "A: a+=B[", "];" + BNF),
    ('leading', "", "A: 'a';"),
    ('trailing', "A: 'a';", ""),
    ('reference', "reference ", " A: 'a';"),
    ('reference-then-import', "reference a\nimport", "\nA: 'a';"),
    ('import-then-reference', "import b\nreference", "\nA: 'a';"),
    ('import', "import ", "\nA: 'a';"),
    ('bracket', "A: (", ");"),
    ('regex', "A: /", "/;"),
    ('string', "A: '", "';"),
    ('predicate', "A: ", " 'a';"),
    ('between', "A: b=B", "c=B;" + BNF),
]
THOROUGH_EXTRA = [
    ('rule-name', "", ": 'a';"),
    ('second-rule', "A: B;", ";"),
    ('ws-param', "A[ws=", "]: 'a';"),
    ('comment-block', "A: 'a' /*", "*/;"),
    ('comment-line', "A: 'a' //", "\n;"),
    ('choice', "A: 'a' |", ";"),
    ('rrel-comma', "A:a=[B:ID|a,", "];" + BNF),
    ('rrel-m', "A:a=[B:ID|+m:", "];" + BNF),
    ('rrel-up', "A:a=[B:ID|^", "];" + BNF),
    ('rrel-dots', "A:a=[B:ID|..", "];" + BNF),
    ('rrel-star', "A:a=[B:ID|a*", "];" + BNF),
    ('rrel-str', "A:a=[B:ID|'n'", "];" + BNF),
    ('objref-sep', "A: a=[B|ID", "];" + BNF),
    ('qualified', "A: a=[b.", "];" + BNF),
    ('unordered', "A: ('a' 'b')#", ";"),
    ('suppress', "A: B", " 'c';" + "B:'b';"),
    ('string-dq', 'A: "', '";'),
    ('asg-str', "A: a=", " b='x';"),
    ('asg-bool', "A: a?=", ";"),
    ('eolterm', "A: a+=INT[", "eolterm];"),
    ('ref-alias', "reference a ", " A: 'a';"),
    ('two-rules', "A: 'a'; B", " 'b';"),
    ('param-value', "A[skipws,", "]: 'a';"),
    ('nested', "A: ('a' (", ")?)*;"),
    ('regex-esc', "A: /\\", "/;"),
]


# grammars a process may well have compiled before the two parsers are compared: they use the
# built-in rules (module-level objects shared by every metamodel, textx.tx's included) in every
# decorated form
HISTORY_GRAMMARS = [
    ("Decl: 'decl' ID- value=INT ';';", {}),
    ("M: INT- STRING- FLOAT- BOOL- NUMBER- x=ID;", {}),
    ("M[noskipws]: a=ID b=ID-;", {'autokwd': True, 'ignore_case': True}),
    ("M: xs+=ID[','] ys*=INT['and'] z=STRING?;", {'memoization': True}),
]
_HISTORY_DONE = []
# which history grammar the process compiles first (the compiler's own parser is built and cached with
# the first compilation of a process)
HISTORY_ROTATION = [0]


def live_parsers():
    import textx.lang as L
    from textx import metamodel_from_str, metamodel_for_language
    if not _HISTORY_DONE:
        _HISTORY_DONE.append(True)
        r = HISTORY_ROTATION[0] % len(HISTORY_GRAMMARS)
        for g, cfg in HISTORY_GRAMMARS[r:] + HISTORY_GRAMMARS[:r]:
            metamodel_from_str(g, **cfg).model_from_str  # compiled; nothing else is done with them
    metamodel_from_str("A: 'a';")            # makes language_from_str build/cache its parser
    pa = L.textX_parsers[False]
    mmm = metamodel_for_language('textx')
    mmb = mmm.metamodel
    pb = mmb._parser_blueprint
    return pa, pb, mmm


def encode(inp):
    pa, pb, mmb = live_parsers()
    A = SymPeg(inp, comments_model=pa.comments_model, skipws=pa.skipws, ws=pa.ws
               ).accept(pa.parser_model)
    B = SymPeg(inp, comments_model=pb.comments_model, skipws=pb.skipws, ws=pb.ws
               ).accept(pb.parser_model)
    return A, B


def real_A(text):
    from arpeggio import NoMatch
    pa, _, _ = live_parsers()
    try:
        pa.parse(text)
        return True
    except NoMatch:
        return False


def real_B(text):
    from textx.exceptions import TextXSyntaxError
    _, _, mmb = live_parsers()
    try:
        mmb.grammar_model_from_str(text)
        return True
    except TextXSyntaxError:
        return False


# ---------------------------------------------------------------- known findings
# Each classifier: (normalise(text) -> text', symbolic trigger over the input)
_FLAG = re.compile(r'\+[mp]+:')
# a fixed name, then whatever the grammar language skips (whitespace, comments), then '~'
_FIXED = re.compile(r'''('((\\')|[^'])*'|"((\\")|[^"])*")((?:\s|/\*.*?\*/|//[^\n]*(?:\n|$))*)~''', re.S)
_DIGID = re.compile(r'(?<!\w)(\d\w*)')


def _norm_flags(t):
    return _FLAG.sub('+m:', t)


def _norm_fixed(t):
    return _FIXED.sub(lambda m: m.group(6) + '~', t)


def _norm_digit(t):
    """prefix identifiers that start with a digit with '_' (identifier tokens
    as lexed by the compiler's parser when it accepts the text)"""
    pa, _, _ = live_parsers()
    spans = []
    try:
        tree = pa.parse(t)

        def walk(n):
            if isinstance(n, list):
                for ch in n:
                    walk(ch)
            elif getattr(n.rule, 'to_match', None) in (r"\w+", r"\w+(\.\w+)?") \
                    and re.match(r'\d', n.value):
                spans.append(n.position)
        walk(tree)
    except Exception:
        # the compiler rejects: the positions where its identifier regex
        # matched a digit-initial token during the failing parse (e.g. the '0'
        # of "reference a as0:a;", lexed as alias '0' after the keyword 'as')
        spans = sorted(_digit_ident_matches(pa, t))
        if not spans:
            return _DIGID.sub(lambda m: '_' + m.group(1), t)
    for a in sorted(spans, reverse=True):
        t = t[:a] + ' _' + t[a:]
    return t


def _digit_ident_matches(pa, t):
    """positions at which the compiler's identifier regexes matched a token
    starting with a digit while (unsuccessfully) parsing t"""
    import arpeggio
    hits = set()
    rules, seen = [], set()

    def collect(r):
        if id(r) in seen:
            return
        seen.add(id(r))
        if isinstance(r, arpeggio.RegExMatch) and r.to_match in (r"\w+", r"\w+(\.\w+)?"):
            rules.append(r)
        for ch in getattr(r, 'nodes', []):
            collect(ch)
    collect(pa.parser_model)
    for r in rules:
        def wrapped(parser, _r=r):
            res = type(_r)._parse(_r, parser)
            if res is not None and re.match(r'\d', str(res.value)):
                hits.add(res.position)
            return res
        r._parse = wrapped
    try:
        pa.parse(t)
    except Exception:
        pass
    finally:
        for r in rules:
            del r._parse
    return hits


def _trig_flags(inp):
    out = []
    for i in range(inp.n - 1):
        plus = inp.inset(i, [ord('+')], record=False)
        mp = inp.inset(i + 1, [ord('m'), ord('p')], record=False)
        plain_m = And(inp.inset(i + 1, [ord('m')], record=False),
                      inp.inset(i + 2, [ord(':')], record=False) if i + 2 < inp.n else False)
        out.append(And(plus, mp, Not(plain_m)))
    return Or(*out)


def _trig_fixed(inp):
    q = [ord("'"), ord('"')]
    out = []
    for i in range(inp.n):
        for j in range(i + 1, inp.n):
            out.append(And(inp.inset(i, q, record=False), inp.inset(j, [ord('~')], record=False)))
    return Or(*out)


def _trig_digit(inp):
    dig = CAT[next(k for k in CAT if str(k).endswith('CATEGORY_DIGIT'))]
    out = []
    for i in range(inp.n):
        d = inp.inset(i, dig, record=False)
        prev_word = inp.inset(i - 1, WORD, record=False) if i > 0 else False
        out.append(And(d, Not(prev_word)))
    return Or(*out)


def _norm_rematch(t):
    """replace every regex literal (as lexed by whichever real parser accepts
    the text) by /x/"""
    spans = []
    pa, pb, mmm = live_parsers()
    try:
        tree = pa.parse(t)

        def walk(n):
            if n.rule_name == 're_match':
                spans.append((n.position, n.position_end))
            elif isinstance(n, list):
                for ch in n:
                    walk(ch)
        walk(tree)
    except Exception:
        try:
            from textx import get_children_of_type
            gm = mmm.grammar_model_from_str(t)
            for o in get_children_of_type('ReMatch', gm):
                spans.append((o._tx_position, o._tx_position_end))
        except Exception:
            return t
    for a, b in sorted(spans, reverse=True):
        t = t[:a] + ' /x/ ' + t[b:]
    return t


def _trig_rematch(inp):
    out = []
    for i in range(inp.n - 1):
        bs = inp.inset(i, [ord('\\')], record=False)
        sl = inp.inset(i, [ord('/')], record=False)
        out.append(And(bs, inp.inset(i + 1, [ord('/')], record=False)))
        out.append(And(sl, inp.inset(i + 1, [ord('/'), ord('*')], record=False)))
    return Or(*out)


KNOWN = {
    'C24-rematch-tokens': (_norm_rematch, _trig_rematch,
                           "textx.tx lexes a regex literal as three tokens ('/', body, '/'): a body "
                           "ending in a backslash is rejected and whitespace/comments after the "
                           "opening '/' are skipped"),
    'C24-rrel-flags': (_norm_flags, _trig_flags,
                       "textx.tx accepts only the RREL flag '+m:'; lang.py/rrel.py accept \\+[mp]+: "
                       "(e.g. '+p:', '+mp:')"),
    'C24-rrel-fixed-name': (_norm_fixed, _trig_fixed,
                            "textx.tx has no fixed-name navigation ('name'~attr) in RREL"),
    'C24-digit-ident': (_norm_digit, _trig_digit,
                        "lang.py identifiers are \\w+ (may start with a digit); textx.tx uses ID"),
}


def classify(text):
    """id of the known finding that explains the real divergence on `text`,
    else None: the divergence must disappear when exactly that root cause is
    normalised away."""
    for fid, (norm, _, _) in KNOWN.items():
        t2 = norm(text)
        if t2 != text and real_A(t2) == real_B(t2):
            return fid
    # two known root causes in one text (e.g. a digit-initial identifier next to
    # a regex literal ending in a backslash): both normalisations together
    import itertools
    for (f1, (n1, _, _)), (f2, (n2, _, _)) in itertools.permutations(KNOWN.items(), 2):
        t1 = n1(text)
        if t1 == text:
            continue
        t2 = n2(t1)
        if t2 != t1 and real_A(t2) == real_B(t2):
            return f1
    return None


# ---------------------------------------------------------------- obligations
def obligation(item):
    name, pre, post, w, budget, timeout_ms, active_known = item
    t0 = time.time()
    res = {'name': name, 'w': w, 'queries': {'sat': 0, 'unsat': 0, 'unknown': 0},
           'solver_s': 0.0, 'known': {}, 'violations': [], 'mismatch': [], 'validated': 0,
           'twin': None, 'verdict': None, 'excluded': []}
    try:
        inp = SymInput.template(pre, w, post)
        A, B = encode(inp)
    except Unsupported as e:
        res['verdict'] = 'unsupported: %s' % e
        return res
    s = z3.Solver()
    s.set('timeout', timeout_ms)
    s.add(*[lift_bool(d) for d in inp.domain()])
    # vacuity twin: some window is accepted by the compiler's parser
    s.push()
    s.add(lift_bool(A))
    ts = time.time()
    r = str(s.check())
    res['solver_s'] += time.time() - ts
    res['queries'][r if r in ('sat', 'unsat') else 'unknown'] += 1
    res['twin'] = r
    if r == 'sat':
        wit = inp.decode(s.model())
        res['twin_witness'] = wit
        ra, rb = real_A(wit), real_B(wit)
        res['validated'] += 2
        if ra is not True:
            res['mismatch'].append({'text': wit, 'model_A': True, 'real_A': ra})
    s.pop()
    # the obligation
    s.add(lift_bool(Xor(A, B)))
    n_cex = 0
    while True:
        ts = time.time()
        r = str(s.check())
        res['solver_s'] += time.time() - ts
        res['queries'][r if r in ('sat', 'unsat') else 'unknown'] += 1
        if r != 'sat':
            res['verdict'] = 'holds' if r == 'unsat' else 'unknown'
            break
        m = s.model()
        text = inp.decode(m)
        ma = z3.is_true(m.eval(lift_bool(A), model_completion=True))
        mb = z3.is_true(m.eval(lift_bool(B), model_completion=True))
        ra, rb = real_A(text), real_B(text)
        res['validated'] += 2
        n_cex += 1
        if ra == rb:
            # does not reproduce: the encoding misrepresents a parser here
            res['mismatch'].append({'text': text, 'model': [ma, mb], 'real': [ra, rb]})
            s.add(lift_bool(inp.block_class(text)))
        else:
            fid = classify(text)
            if fid is not None and fid in active_known:
                res['known'].setdefault(fid, text)
                trig = KNOWN[fid][1](inp)
                s.add(lift_bool(Not(trig)))
                if fid not in res['excluded']:
                    res['excluded'].append(fid)
            else:
                res['violations'].append({'text': text, 'compiler_accepts': ra,
                                          'textx_tx_accepts': rb, 'template': name, 'w': w,
                                          'would_be_known': fid})
                s.add(lift_bool(inp.block_class(text)))
                if len(res['violations']) >= 2:
                    res['verdict'] = 'violated'
                    break
        if n_cex >= budget:
            res['verdict'] = 'violated' if res['violations'] else 'budget'
            break
    if res['violations']:
        res['verdict'] = 'violated'
    res['wall'] = time.time() - t0
    return res


def differential(item):
    """concrete-mode validation of both encodings against the real parsers on
    token-biased random fills of a template window"""
    import random
    name, pre, post, seed_ = item
    rnd = random.Random(seed_)
    toks = ["'a'", '"b"', '/x/', 'a', 'B', 'ID', '=', '+=', '*=', '?=', '[', ']', '(', ')',
            '|', '*', '+', '?', '#', '-', '!', '&', ',', ':', ';', ' ', '\n', '.', '..', '^',
            '~', '+m:', '+p:', 'parent', 'eolterm', 'import', 'reference', 'as', '//c\n',
            '/*c*/', '1', '_', 'é', 'skipws', 'noskipws', "ws=' '"]
    bad = []
    n = 0
    for _ in range(40):
        fill = ''.join(rnd.choice(toks) for _ in range(rnd.randint(0, 4)))
        text = pre + fill + post
        try:
            inp = SymInput.concrete(text)
            A, B = encode(inp)
        except Unsupported:
            continue
        ra, rb = real_A(text), real_B(text)
        n += 2
        if A != ra or B != rb:
            bad.append({'text': text, 'model': [A, B], 'real': [ra, rb]})
    return n, bad


def file_session(item):
    """the file API of the self-hosted grammar: one path is rewritten with a sequence of grammar texts
    (accepted and rejected ones); after every rewrite `grammar_model_from_file(path)` must say what
    `grammar_model_from_str(<current content>)` says — accepted / rejected, and the same rule names"""
    import os
    import random
    import shutil
    import tempfile
    from textx.exceptions import TextXSyntaxError
    name, pre, post, seed_ = item
    rnd = random.Random(seed_)
    toks = ["'a'", '"b"', '/x/', 'a', 'B', 'ID', '=', '+=', '[', ']', '(', ')', '|', '*', '+', '?', '#', '-', ',',
            ':', ';', ' ', '\n', 'eolterm', '1', '_']
    _, _, mmb = live_parsers()
    tmp = tempfile.mkdtemp(prefix='c24f_')
    path = os.path.join(tmp, 'g.tx')
    bad = []
    n = 0

    def via(fn, arg):
        try:
            m = fn(arg)
            return ('ok', [r.name for r in m.rules])
        except TextXSyntaxError:
            return ('rejected', None)
        except Exception as e:  # noqa
            return ('error', type(e).__name__)
    try:
        for step in range(10):
            fill = ''.join(rnd.choice(toks) for _ in range(rnd.randint(0, 3)))
            text = pre + fill + post if step % 3 else 'R%d: %s;' % (step, "'x'")
            with open(path, 'w') as f:
                f.write(text)
            a = via(mmb.grammar_model_from_file, path)
            b = via(mmb.grammar_model_from_str, text)
            n += 2
            if a != b and not bad:
                bad.append({'text': text, 'step': step, 'from_file': a, 'from_str': b, 'template': name, 'seed': seed_})
        return n, bad
    finally:
        shutil.rmtree(tmp, ignore_errors=True)


def history_obligation(item):
    """an obligation in a process whose first compiled grammar is another one (runs in a fresh process)"""
    HISTORY_ROTATION[0] = item[0]
    r = obligation(item[1:])
    for v in r['violations']:
        v['history_rotation'] = item[0]
    return r


HISTORY_TEMPLATES = ('reference', 'import', 'rule-params-in', 'repeat-mod', 'rrel-flag', 'rrel-parent', 'asg-mod')


def main():
    import textx.lang as L
    import textx.scoping.rrel as R
    chk = Check(PROP, 'model_checking')
    quick = tier() == 'quick'
    W = 5 if quick else 8
    templates = TEMPLATES + THOROUGH_EXTRA
    budget = 12
    timeout_ms = 60000 if quick else 300000
    items = []
    for name, pre, post in templates:
        for w in range(0, W + 1):
            items.append((name, pre, post, w, budget, timeout_ms, sorted(chk.known_ids)))
    items.sort(key=lambda it: -it[3])
    results = pmap(obligation, items)
    # the same obligations in processes that compile the history grammars in another order first
    hitems = [(rot,) + it for it in items if it[0] in HISTORY_TEMPLATES and it[3] in ((4,) if quick else (4, 6))
              for rot in range(1, len(HISTORY_GRAMMARS))]
    items = items + [it[1:] for it in hitems]
    results = results + pmap(history_obligation, hitems, fresh_process_per_item=True)
    diffs = pmap(differential, [(n, p, q, chk.seed * 1000 + i) for i, (n, p, q) in enumerate(templates)])
    chk.cov['functions_encoded'] = src_hash(
        L.textx_model, L.textx_rule, L.repeatable_expr, L.expression, L.assignment, L.obj_ref,
        L.repeat_operator, L.repeat_modifiers, L.rule_params, L.string_value, L.re_match,
        L.comment, R.rrel_expression, R.rrel_path, R.rrel_navigation, L.language_from_str
    ) + ['textx/textx.tx (compiled by the running textX)']
    chk.cov['bounds'] = {'window_chars': W, 'templates': len(templates),
                         'process_histories': '%d obligations repeated in fresh processes whose first compiled grammar is each of %d history grammars' % (len(hitems), len(HISTORY_GRAMMARS)),
                         'alphabet': '103 symbols (tab, LF, CR, ASCII 32-126, 5 non-ASCII representatives)',
                         'solver_timeout_ms': timeout_ms, 'counterexample_budget_per_obligation': budget}
    chk.cov['outside_claim'] = ['grammar texts that differ from a template outside its window',
                                'windows longer than the bound', 'characters outside the alphabet',
                                'regions excluded after a known finding was hit (listed per obligation)']
    chk.assumptions = ['Arpeggio 2.0.3 as modelled by sympeg (validated differentially each run)',
                       'z3', 'CPython re semantics as modelled by symre']
    nontrivial = 0
    holds = 0
    for it, (st, r, secs) in zip(items, results):
        if st != 'ok':
            chk.harness_error(r)
            continue
        chk.add_queries(r['queries'], r['solver_s'])
        chk.cov['traces_validated_against_impl'] += r['validated']
        if r['twin'] == 'sat':
            nontrivial += 1
        if str(r['verdict']).startswith('unsupported'):
            chk.cov['unsupported'] += 1
        elif r['verdict'] in ('unknown', 'budget'):
            chk.cov['inconclusive'] += 1
        elif r['verdict'] == 'holds':
            holds += 1
        for mm_ in r['mismatch']:
            chk.cov['model_mismatches'] += 1
            chk.sample({'model_mismatch': mm_}, limit=20)
        for fid, text in r['known'].items():
            chk.known_hit(fid, '%s — e.g. %r' % (KNOWN[fid][2], text))
        for v in r['violations']:
            chk.violation('compiler accepts=%s, textx.tx accepts=%s on %r' % (
                v['compiler_accepts'], v['textx_tx_accepts'], v['text']), v)
        chk.sample({'template': it[1] + '<%d free chars>' % it[3] + it[2], 'verdict': r['verdict'],
                    'twin_witness': r.get('twin_witness'), 'excluded_after_known': r['excluded']})
    for st, r, secs in diffs:
        if st != 'ok':
            chk.harness_error(r)
            continue
        n, bad = r
        chk.cov['traces_validated_against_impl'] += n
        for b in bad:
            chk.cov['model_mismatches'] += 1
            chk.sample({'differential_mismatch': b}, limit=20)
    fs_items = [(n_, p_, q_, chk.seed * 77 + i) for i, (n_, p_, q_) in enumerate(templates[:8])]
    for it, (st, r, secs) in zip(fs_items, pmap(file_session, fs_items)):
        if st != 'ok':
            chk.harness_error(r)
            continue
        n_, bad_ = r
        chk.cov['traces_validated_against_impl'] += n_
        for b in bad_:
            chk.violation('grammar file rewritten %d times: grammar_model_from_file says %s, grammar_model_from_str on '
                          'the same content %r says %s' % (b['step'], b['from_file'], b['text'], b['from_str']),
                          {'file_session': [it[0], it[1], it[2], it[3]], 'text': b['text']})
    chk.cov['bounds']['file_sessions'] = '8 templates x 10 rewrites of one grammar file (file API vs string API of textx.tx)'
    chk.cov['distinct_nontrivial'] = nontrivial
    chk.cov['obligations'] = len(items)
    chk.cov['discharged'] = holds
    if chk.cov['model_mismatches']:
        chk.harness_error('sympeg disagrees with the real parser on %d validated texts'
                          % chk.cov['model_mismatches'])
    return chk.finish('one obligation per (template, window length): z3 query "some window makes '
                      'exactly one of the two live parser models accept"; non-trivial = some window '
                      'of that length is accepted by the compiler parser (vacuity twin sat)')


def _replay(data):
    if 'file_session' in data:
        n_, bad_ = file_session(tuple(data['file_session']))
        return bool(bad_), bad_[:1]
    HISTORY_ROTATION[0] = data.get('history_rotation', 0)
    text = data['text']
    ra, rb = real_A(text), real_B(text)
    return ra != rb, {'text': text, 'compiler_accepts': ra, 'textx_tx_accepts': rb}


def replay(data):
    # in a child process: the parent never compiles a grammar, so the child's first compilation is the
    # one the recorded process history starts with
    from ..common import run_forked
    return run_forked(_replay, data)
