"""
C23 — invalid grammars are always reported as textX errors.

Witness replay (the one property decided by replay only, see DESIGN.md): the
grammar compiler's visitor cannot be executed symbolically, but the solver
enumerates its inputs structurally.  The live Arpeggio parser of the textX
meta-language (built by textx.lang.language_from_str) is encoded by sympeg over
grammar-text templates with a free window; z3 AllSAT with character-class
blocking yields one grammar text per accepted class string (every syntactic
shape the window admits — the partition is refined by the characters the
visitor itself distinguishes: regex metacharacters, escape leaders, quotes) and
a sample of rejected ones.  Every text is passed to the real
`metamodel_from_str` (plain, autokwd, ignore_case): the only accepted outcomes
are a metamodel or a TextXError subclass carrying a message; the documented
exception is an import statement in a grammar given as a string.
"""
import re

from ..common import Check, pmap, src_hash, tier
from ..symtext import SymInput, CHR2CODE, Unsupported
from ..sympeg import SymPeg
from .. import pegcheck
from ..alg import Not
from . import c24

PROP = 'C23'
REFINE = "()[]{}\\*+?|^$.-=~'\"/xuUN07#!&:;,_aegZ"
CFGS = [{}, {'autokwd': True}, {'ignore_case': True}]
EXTRA_TEMPLATES = [
    ('param-name', "A[", "]: 'a';"),
    ('param-ws-value', "A[ws='", "']: 'a';"),
    ('str-escape', "A: '\\", "';"),
    ('str-kw', "A: 'a", "' b=ID;"),
    ('unordered-operand', "A: ", "#; B: 'x' 'y';"),
    ('self-ref', "A: ", "; B: A;"),
    ('regex-body', "A: /", "/ 'x';"),
    ('asg-mod-on-plain', "A: a=INT", ";"),
    ('rule-ref-undefined', "A: b=", " 'x';"),
    ('objref-base', "A: a=[", "];B:name=ID;"),
    ('two-rules-same-name', "A: 'a'; A", " 'b';"),
    # identifier-valued slots: the visitor distinguishes words, so the words are concrete
    ('param-ws-bare', "A[ws", "]: 'a';"),
    ('param-skipws', "A[skipws", "]: 'a';"),
    ('param-noskipws', "A[noskipws", "]: 'a';"),
    ('param-split', "A[split", "]: 'a';"),
    ('param-unknown', "A[foo", "]: 'a';"),
    ('param-nows', "A[nows", "]: 'a';"),
    ('param-nosplit', "A[nosplit", "]: 'a';"),
    ('param-noskipws-value', "A[noskipws=", "]: 'a';"),
    ('self-ref-direct', "A: A", ";"),
    ('self-ref-pair', "A: B", "; B: A;"),
    ('ref-basetype', "A: a=[INT", "];"),
    ('asg-bool-twice', "A: a?='x' a", "'y';"),
    ('mod-eolterm', "A: a+=INT[eolterm", "];"),
    ('mod-on-optional', "A: 'a'?[','", "];"),
    ('bool-in-rep', "A: (a?='x'", ")*;"),
    ('import-stmt', "import b", "\nA: 'a';"),
    ('reference-stmt', "reference textx", "\nA: 'a';"),
    ('qualified-ref', "reference textx as t\nA: a=[t.", "];"),
    # a rule whose whole body is one rule reference with an operator / modifier after it
    ('alias-op', "A: B", "; B: 'b';"),
    ('alias-basetype-op', "A: INT", ";"),
    ('alias-op-used', "M: a=A; A: B", "; B: x=ID;"),
    # rule names that look like the names textX gives its own assignment expressions
    ('rule-name-asgn', "__asgn", ": 'a';"),
    ('rule-name-asgn-used', "M: xs+=__asgn_item; __asgn_item", ": name=ID;"),
]


# hand-written grammar texts at the limits of the libraries underneath (each must compile or be
# rejected with a TextXError like every other text): limits of `re`, deep nesting, odd literals
LIMIT_TEXTS = [
    "A: 'x' a=/a{99999999999}/;",                    # repetition count beyond re's MAXREPEAT (OverflowError in re)
    "A: a=/a{2,1}/;", "A: a=/(?P<n>a)(?P<n>b)/;", "A: a=/(?<=a+)b/;", "A: a=/[z-a]/;", "A: a=/\\1/;",
    "A: a=/(?i)a/ b=/x(?i)y/;",                      # global flags not at the start
    "A: " + "(" * 60 + "'a'" + ")" * 60 + ";",       # deep nesting
    "A: 'a'" + "?" * 1 + ";", "A: ('a'*)*;", "A: ('a'?)+ 'b';",
    "A: a=/" + "a" * 3000 + "/;", "A: '" + "x" * 3000 + "';",
    "A: '\\u12';", "A: '\\N{NOT A NAME}';", "A: '\\x';", "A[ws='\\q']: 'a';", "A[split='']: ID;",
    "A: a=[A:B:C];", "A: a=[B|ID|+m:^~x*.(..)];B:name=ID;", "A: a=[B|ID|'n'~];B:name=ID;",
]


def outcome(text, cfg):
    from textx import metamodel_from_str
    from textx.exceptions import TextXError
    import sys
    old = sys.getrecursionlimit()
    try:
        sys.setrecursionlimit(1500)
        try:
            metamodel_from_str(text, **cfg)
            return 'ok', None
        except TextXError as e:
            msg = str(e)
            if not msg or msg == 'None':
                return 'bad', 'TextXError without a message (%s)' % type(e).__name__
            return 'textx', type(e).__name__
        except AssertionError as e:
            if re.search(r'(^|\s)import', text):       # 'importb' is read as 'import b'
                return 'documented', 'import in a string grammar'
            return 'bad', 'AssertionError: %s' % e
        except BaseException as e:  # noqa
            if isinstance(e, (KeyboardInterrupt, SystemExit)):
                raise
            return 'bad', '%s: %s' % (type(e).__name__, str(e)[:100])
    finally:
        sys.setrecursionlimit(old)


# known findings: (id, predicate on (text, error text))
KNOWN = [
    ('C23-reference-textx-language',
     lambda t, e: "'TextXMetaMetaModel' object is not subscriptable" in e and re.search(r'reference\s+textx\b', t)),
]


def obligation(item):
    name, pre, post, w, limit, timeout_ms = item
    res = {'template': name, 'w': w, 'queries': {}, 'solver_s': 0.0, 'bad': [], 'texts': 0, 'runs': 0,
           'outcomes': {}, 'exhaustive': None}
    try:
        inp = SymInput.template(pre, w, post)
        pa, pb, mmm = c24.live_parsers()
        acc = SymPeg(inp, comments_model=pa.comments_model, skipws=pa.skipws, ws=pa.ws).accept(pa.parser_model)
        # refine the character classes by what the visitor distinguishes
        for ch in REFINE:
            for i in inp.free[:1]:
                inp.inset(i, frozenset([CHR2CODE[ch]]))
        for kw in ('ws', 'skipws', 'noskipws', 'split', 'eolterm'):
            pass
        texts, exhausted, z = pegcheck.enumerate_classes(inp, acc, limit, timeout_ms)
        rej, _, z2 = pegcheck.enumerate_classes(inp, Not(acc), max(5, limit // 10), timeout_ms)
    except Unsupported as e:
        res['unsupported'] = str(e)
        return res
    res['exhaustive'] = exhausted
    res['queries'] = {k: z.queries[k] + z2.queries[k] for k in z.queries}
    res['solver_s'] = z.secs + z2.secs
    for text in texts + rej:
        res['texts'] += 1
        for cfg in CFGS:
            kind, detail = outcome(text, cfg)
            res['runs'] += 1
            res['outcomes'][kind] = res['outcomes'].get(kind, 0) + 1
            if kind == 'bad' and len(res['bad']) < 40:
                res['bad'].append({'text': text, 'cfg': cfg, 'detail': detail})
    return res


def main():
    import textx.lang as L
    import textx.metamodel as MM
    chk = Check(PROP, 'exploration')
    quick = chk.tier == 'quick'
    W = 2 if quick else 4
    limit = 40 if quick else 300
    templates = c24.TEMPLATES + EXTRA_TEMPLATES + ([] if quick else c24.THOROUGH_EXTRA)
    items = [(n, p, q, w, min(limit * (w + 1) * (w + 1), 8 * limit), 30000) for (n, p, q) in templates
             for w in range(0, W + 1)]
    items.sort(key=lambda it: -it[3])
    results = pmap(obligation, items)
    chk.cov['functions_encoded'] = src_hash(L.textx_model, L.language_from_str)
    chk.cov['replayed_through'] = src_hash(L.TextXVisitor.visit_re_match, L.TextXVisitor.visit_str_match,
                                           L.TextXVisitor.visit_rule_params, L.TextXVisitor.visit_repeatable_expr,
                                           L.TextXVisitor.visit_assignment, L.TextXVisitor._resolve_rule_refs,
                                           MM.TextXMetaModel.__init__)
    chk.cov['bounds'] = {'window_chars': W, 'templates': len(templates), 'class_strings_per_obligation': limit,
                         'configurations': [str(c) for c in CFGS]}
    chk.cov['outside_claim'] = ['grammar texts outside the templates / longer windows',
                                'the verdict is by replay; the solver only enumerates the inputs']
    chk.assumptions = ['one representative per character class of the meta-grammar refined by the characters the visitor '
                       'distinguishes (listed in REFINE)']
    texts = runs = 0
    seen = {}
    for it, (st, r, secs) in zip(items, results):
        if st != 'ok':
            chk.harness_error(r)
            continue
        if 'unsupported' in r:
            chk.cov['unsupported'] += 1
            continue
        chk.add_queries(r['queries'], r['solver_s'])
        texts += r['texts']
        runs += r['runs']
        for b in r['bad']:
            key = re.sub(r"[0-9']+", '', b['detail'])[:60]
            seen.setdefault(key, b)
        chk.sample({'template': it[1] + '<%d>' % it[3] + it[2], 'texts': r['texts'], 'outcomes': r['outcomes']})
    for text in LIMIT_TEXTS:
        for cfg in CFGS:
            kind, detail = outcome(text, cfg)
            runs += 1
            if kind == 'bad':
                seen.setdefault(re.sub(r"[0-9']+", '', detail)[:60], {'text': text, 'cfg': cfg, 'detail': detail})
    texts += len(LIMIT_TEXTS)
    chk.cov['bounds']['limit_texts'] = len(LIMIT_TEXTS)
    for key, b in seen.items():
        fid = next((i for i, pred in KNOWN if pred(b['text'], b['detail'])), None)
        if fid and chk.is_known(fid):
            chk.known_hit(fid, '%r -> %s' % (b['text'], b['detail']))
        else:
            chk.violation('metamodel_from_str(%r, %s) raised %s' % (b['text'], b['cfg'], b['detail']), b)
    chk.cov['traces_validated_against_impl'] = runs
    chk.cov['evaluations'] = max(chk.cov['evaluations'], runs)
    chk.cov['distinct_nontrivial'] = texts
    return chk.finish('grammar texts = one representative per (refined) character-class string of each template '
                      'window accepted by the live meta-grammar parser, plus a sample of rejected ones; each is '
                      'compiled by the real metamodel_from_str under three configurations')


def replay(data):
    kind, detail = outcome(data['text'], data.get('cfg', {}))
    return kind == 'bad', detail
