"""Concrete supplements added in round 7: one scenario per defect that was found on the unmodified tree by
probing (and repaired in /repo), so that the checks report it if it ever returns.  Each function returns a
list of problem descriptions (empty = the property holds on the scenario).  They are witness replays of one
situation each, not solver verdicts; the evidence lists them under the bounds as "concrete"."""
import os
import shutil
import tempfile


# ---------------------------------------------------------------- C14 / C15: instrumentation of user classes
def nested_failing_load():
    """a load nested in another load of the same meta-model (made by a scope provider, which handles its
    failure) fails in a user-class constructor / an object processor: the enclosing load still works"""
    from textx import metamodel_from_str
    problems = []
    for how in ('constructor', 'object processor', 'none (nested load succeeds)'):
        class Item:
            def __init__(self, parent=None, name=None):
                if name == 'bad' and how == 'constructor':
                    raise ValueError('rejected')
                self.parent, self.name = parent, name

        class Use:
            def __init__(self, parent=None, name=None, ref=None):
                self.parent, self.name, self.ref = parent, name, ref
        mm = metamodel_from_str("Model: items*=Item uses*=Use;\nItem: 'item' name=ID;\nUse: 'use' name=ID '->' ref=[Item];",
                                classes=[Item, Use])

        def proc(o):
            if o.name == 'bad' and how == 'object processor':
                raise ValueError('rejected')
        mm.register_obj_processors({'Item': proc})
        done = []

        def provider(obj, attr, obj_ref):
            if not done:
                done.append(1)
                try:
                    mm.model_from_str('item bad')
                except ValueError:
                    pass
            for it in obj.parent.items:
                if it.name == obj_ref.obj_name:
                    return it
        mm.register_scope_providers({'Use.ref': provider})
        try:
            m = mm.model_from_str('item a item b use u1 -> a use u2 -> b')
            got = [(u.name, u.ref.name, type(u.parent).__name__) for u in m.uses]
        except Exception as e:  # noqa
            got = '%s: %s' % (type(e).__name__, e)
        if got != [('u1', 'a', 'Model'), ('u2', 'b', 'Model')]:
            problems.append('nested load failing in: %s - the enclosing load gives %s' % (how, got))
        for cls in (Item, Use):
            left = sorted(k for k in vars(cls) if k.startswith('_tx_real') or k == '_tx_instrumented')
            if left:
                problems.append('nested load failing in: %s - %s keeps %s after the load' % (how, cls.__name__, left))
    return problems


def primitive_root_with_user_classes():
    """the root rule reduces to a value of a primitive type for some inputs: user classes are back to their own
    attribute methods after such a load as well"""
    from textx import metamodel_from_str
    problems = []
    for g, text in (("Model: Item | INT;\nItem: 'item' name=ID;", '5'), ("Model: Item | STRING;\nItem: 'item' name=ID;", '"t"')):
        seen = []

        class Item:
            def __init__(self, parent=None, name=None):
                self.name = name

            def __setattr__(self, k, v):
                seen.append(k)
                object.__setattr__(self, k, v)
        before = dict(vars(Item))
        mm = metamodel_from_str(g, classes=[Item])
        v = mm.model_from_str(text)
        after = {k: x for k, x in vars(Item).items() if k not in ('_tx_obj_attrs',)}
        changed = sorted(k for k in set(before) | set(after)
                         if before.get(k, '<absent>') is not after.get(k, '<absent>') and not k.startswith('_tx_')
                         or k in ('_tx_instrumented',) or k.startswith('_tx_real'))
        if changed:
            problems.append('grammar %r, model %r (value %r): user class Item afterwards differs in %s' % (g, text, v, changed))
        del seen[:]
        Item(name='x')
        if seen != ['name']:
            problems.append("grammar %r after loading %r: Item's own __setattr__ saw %s for Item(name='x')" % (g, text, seen))
    return problems


# ---------------------------------------------------------------- C16 / C13: models that compare equal
def equal_root_models(global_repo=True):
    """the root user class defines value equality (by name): a second model that compares equal to the first is
    linked, initialised and processed like on a fresh meta-model (global repository, GlobalRepo provider)"""
    from textx import metamodel_from_str
    import textx.scoping.providers as P
    problems = []
    tmp = tempfile.mkdtemp(prefix='c16e_')
    try:
        with open(os.path.join(tmp, 'lib.m'), 'w') as f:
            f.write('model lib thing L')

        def new_mm():
            inits, procs = [], []

            class Model:
                def __init__(self, name=None, things=None, refs=None):
                    inits.append(name)
                    self.name, self.things, self.refs = name, things, refs

                def __eq__(self, other):
                    return isinstance(other, Model) and self.name == other.name
                __hash__ = None
            mm = metamodel_from_str("Model: 'model' name=ID things*=Thing refs*=Ref;\nThing: 'thing' name=ID;\n"
                                    "Ref: 'ref' t=[Thing];", classes=[Model], global_repository=global_repo)
            mm.register_scope_providers({'*.*': P.PlainNameGlobalRepo(os.path.join(tmp, '*.m'))})
            mm.register_obj_processors({'Ref': lambda r: procs.append(getattr(r.t, 'name', None))})
            return mm, inits, procs

        def shape(mm, inits, procs, text):
            del inits[:], procs[:]
            try:
                m = mm.model_from_str(text)
                return ([getattr(r.t, 'name', None) for r in m.refs], inits.count('a'), list(procs),
                        hasattr(m, '_tx_reference_resolver'))
            except Exception as e:  # noqa
                return '%s: %s' % (type(e).__name__, e)
        first, second = 'model a thing X ref X ref L', 'model a thing Y ref Y ref L'
        want = shape(*new_mm(), second)
        mm, inits, procs = new_mm()
        shape(mm, inits, procs, first)
        got = shape(mm, inits, procs, second)
        if want != (['Y', 'L'], 1, ['Y', 'L'], False):
            problems.append('harness: on a fresh meta-model %r gives %s' % (second, want))
        if got != want:
            problems.append('root class with __eq__ (by name), global repository %s: %r after %r gives (references, '
                            'constructor calls, processor calls, still in construction) = %s, on a fresh meta-model %s'
                            % (global_repo, second, first, got, want))
    finally:
        shutil.rmtree(tmp, ignore_errors=True)
    return problems


# ---------------------------------------------------------------- C17: GlobalRepo.add_model, falsy objects
def added_string_models():
    """several models made from strings are added to a GlobalRepo provider: the elements of all of them are found"""
    from textx import metamodel_from_str
    import textx.scoping.providers as P
    g = "Model: items*=Item uses*=Use;\nItem: 'item' name=ID;\nUse: 'use' ref=[Item];"
    lib = metamodel_from_str(g)
    prov = P.PlainNameGlobalRepo()
    for t in ('item a1', 'item b1', 'item c1'):
        prov.add_model(lib.model_from_str(t))
    mm = metamodel_from_str(g)
    mm.register_scope_providers({'*.*': prov})
    try:
        m = mm.model_from_str('item m1 use a1 use b1 use c1 use m1')
        got = [u.ref.name for u in m.uses]
    except Exception as e:  # noqa
        got = '%s: %s' % (type(e).__name__, e)
    return [] if got == ['a1', 'b1', 'c1', 'm1'] else [
        'three string models added with GlobalRepo.add_model: uses resolve to %s, expected [a1, b1, c1, m1]' % (got,)]


def falsy_objects_across_files():
    """model objects of a falsy user class (__len__ / __bool__): the importing model's own element wins, an
    element of an imported file is found"""
    from textx import metamodel_from_str
    import textx.scoping.providers as P
    problems = []
    for pname in ('PlainNameImportURI', 'FQNImportURI'):
        class Item:
            def __init__(self, parent=None, name=None):
                self.parent, self.name = parent, name

            def __len__(self):
                return 0
        tmp = tempfile.mkdtemp(prefix='c17f_')
        try:
            files = {'a.m': 'import "b.m"\nitem a1\nuse a1\nuse b2', 'b.m': 'item a1\nitem b2'}
            for fn, t in files.items():
                with open(os.path.join(tmp, fn), 'w') as f:
                    f.write(t)
            mm = metamodel_from_str("Model: imports*=Import items*=Item uses*=Use;\nImport: 'import' importURI=STRING;\n"
                                    "Item: 'item' name=ID;\nUse: 'use' ref=[Item];", classes=[Item])
            mm.register_scope_providers({'*.*': getattr(P, pname)()})
            try:
                m = mm.model_from_file(os.path.join(tmp, 'a.m'))
                got = [(u.ref.name, os.path.basename(u.ref.parent._tx_filename)) for u in m.uses]
            except Exception as e:  # noqa
                got = '%s: %s' % (type(e).__name__, str(e).replace(tmp, '')[:80])
            if got != [('a1', 'a.m'), ('b2', 'b.m')]:
                problems.append('%s, falsy Item objects: uses resolve to %s, expected a1 of a.m and b2 of b.m' % (pname, got))
        finally:
            shutil.rmtree(tmp, ignore_errors=True)
    return problems


# ---------------------------------------------------------------- C11 / C09: navigation through a '+p:' reference
def proxy_postponement():
    """an RREL path navigates through a reference that is declared with '+p:' (it holds a ReferenceProxy): the
    lookup waits for the references of the proxied object like it does without '+p:'"""
    from textx import metamodel_from_str
    problems = []
    text = 'u a1 x i1   a a1 k1 c1   k k1 { c c1 { i i1 } }'
    res = {}
    for flag in ('', '+p:'):
        g = ("Model: us*=U as*=A ks*=K;\nU: 'u' a=[A|ID|%sas] 'x' it=[Item|ID|.~a.~b.items];\n"
             "A: 'a' name=ID k=[K|ID|ks] b=[C|ID|.~k.cs];\nK: 'k' name=ID '{' cs*=C '}';\n"
             "C: 'c' name=ID '{' items*=Item '}';\nItem: 'i' name=ID;" % flag)
        try:
            m = metamodel_from_str(g).model_from_str(text)
            res[flag] = m.us[0].it.name
        except Exception as e:  # noqa
            res[flag] = '%s: %s' % (type(e).__name__, e)
    if res[''] != 'i1':
        problems.append('harness: without +p the model gives %s' % res[''])
    if res['+p:'] != res['']:
        problems.append("U.a declared with '+p:': it=[Item|ID|.~a.~b.items] gives %s, without the flag %s" % (res['+p:'], res['']))
    return problems


# ---------------------------------------------------------------- C05: classes with the same short name
def same_named_classes_of_imported_grammar():
    """get_children_of_type / get_parent_of_type with a class: the class of the main grammar is not the
    same-named class of an imported grammar"""
    from textx import metamodel_from_file, get_children_of_type, get_parent_of_type
    tmp = tempfile.mkdtemp(prefix='c05g_')
    problems = []
    try:
        files = {'main.tx': "import base\nModel: items+=Item boxes*=Box;\nItem: 'item' name=ID kids*=Box;",
                 'base.tx': "Box: 'box' name=ID '{' items*=Item '}';\nItem: 'bitem' name=ID;"}
        for fn, t in files.items():
            with open(os.path.join(tmp, fn), 'w') as f:
                f.write(t)
        mm = metamodel_from_file(os.path.join(tmp, 'main.tx'))
        m = mm.model_from_str('item y box k { bitem z } item w box b { bitem x }')
        main_item, base_item = mm['Item'], mm['base.Item']
        got = sorted(o.name for o in get_children_of_type(main_item, m))
        if got != ['w', 'y']:
            problems.append('get_children_of_type(<main Item>, model) gives %s, expected [w, y]' % got)
        got = sorted(o.name for o in get_children_of_type(base_item, m))
        if got != ['x', 'z']:
            problems.append('get_children_of_type(<base.Item>, model) gives %s, expected [x, z]' % got)
        got = sorted(o.name for o in get_children_of_type('Item', m))
        if got != ['w', 'x', 'y', 'z']:
            problems.append("get_children_of_type('Item', model) gives %s, expected all four (by name)" % got)
        z = m.items[0].kids[0].items[0]
        if get_parent_of_type(base_item, z) is not None:
            problems.append('get_parent_of_type(<base.Item>, z) gives %r, z has no such ancestor' % get_parent_of_type(base_item, z))
        if get_parent_of_type(main_item, z) is not m.items[0]:
            problems.append('get_parent_of_type(<main Item>, z) does not give the containing item')
    except Exception as e:  # noqa
        problems.append('%s: %s' % (type(e).__name__, e))
    finally:
        shutil.rmtree(tmp, ignore_errors=True)
    return problems


# ---------------------------------------------------------------- C18: a repository held by the caller
def model_processor_failure_with_user_repository():
    """models are loaded into a repository of the caller (load_models_in_model_repo); a later file is rejected by
    a model processor: the models cached by the earlier, successful load stay, the repaired file loads"""
    from textx import metamodel_from_str
    import textx.scoping.providers as P
    from textx.scoping import GlobalModelRepository
    problems = []
    for global_repo in (False, True):
        tmp = tempfile.mkdtemp(prefix='c18u_')
        try:
            files = {'a.m': 'item a1', 'b.m': 'import "a.m"\nitem BAD\nuse a1'}
            for fn, t in files.items():
                with open(os.path.join(tmp, fn), 'w') as f:
                    f.write(t)
            import textx.registration as REG
            mm = metamodel_from_str("Model: imports*=Import items*=Item uses*=Use;\nImport: 'import' importURI=STRING;\n"
                                    "Item: 'item' name=ID;\nUse: 'use' ref=[Item];", global_repository=global_repo)
            mm.register_scope_providers({'*.*': P.PlainNameImportURI()})

            def reject(model, metamodel):
                if any(i.name == 'BAD' for i in model.items):
                    raise ValueError('model processor rejects BAD')
            mm.register_model_processor(reject)
            REG.clear_language_registrations()
            REG.register_language(REG.LanguageDesc('c18lang', pattern='*.m', metamodel=lambda: mm))
            a, b_ = os.path.join(tmp, 'a.m'), os.path.join(tmp, 'b.m')
            loader = P.PlainNameGlobalRepo()
            loader.register_models(a)
            repo = loader.load_models_in_model_repo()
            loader.register_models(b_)
            try:
                loader.load_models_in_model_repo(global_model_repo=repo)
                problems.append('harness: the rejected file loads')
            except ValueError:
                pass
            names = sorted(os.path.basename(k) for k in repo.all_models.filename_to_model)
            if names != ['a.m']:
                problems.append('global repository %s: after the rejected load the caller\'s repository holds %s, '
                                'expected [a.m]' % (global_repo, names))
            with open(b_, 'w') as f:
                f.write('import "a.m"\nitem b1\nuse a1')
            try:
                loader.load_models_in_model_repo(global_model_repo=repo)
                names = sorted(os.path.basename(k) for k in repo.all_models.filename_to_model)
                if names != ['a.m', 'b.m']:
                    problems.append('global repository %s: after the repaired load the repository holds %s' % (global_repo, names))
            except BaseException as e:  # noqa
                problems.append('global repository %s: the repaired file does not load: %s: %s' % (
                    global_repo, type(e).__name__, str(e)[:80]))
        finally:
            import textx.registration as REG2
            REG2.clear_language_registrations()
            shutil.rmtree(tmp, ignore_errors=True)
    return problems


# ---------------------------------------------------------------- C29: a falsy model
def export_falsy_model():
    """model_export of a model whose root object is falsy (user class with __len__)"""
    import io
    from textx import metamodel_from_str
    from textx.export import model_export_to_file

    class Model:
        def __init__(self, **kw):
            for k, v in kw.items():
                setattr(self, k, v)

        def __len__(self):
            return len(self.items)
    mm = metamodel_from_str("Model: 'm' items*=Item;\nItem: 'item' name=ID;", classes=[Model])
    m = mm.model_from_str('m')
    buf = io.StringIO()
    try:
        model_export_to_file(buf, m)
    except Exception as e:  # noqa
        return ['model_export of a model whose root object is falsy (empty list-like user class): %s: %s' % (type(e).__name__, e)]
    return [] if ':Model' in buf.getvalue() else ['model_export of a falsy root object: no node for it']


# ---------------------------------------------------------------- C07 / C11 / C32: one attribute, several references
def references_per_assignment():
    """one attribute is assigned references at several places of a rule, with different target classes / RREL
    expressions: each reference is looked up with the class and the expression of its own place"""
    from textx import metamodel_from_str
    problems = []

    def load(mm, text):
        try:
            return mm.model_from_str(text)
        except Exception as e:  # noqa
            return '%s: %s' % (type(e).__name__, e)
    # target classes (default provider)
    for order in ("'ref' r=[A] | 'xref' r=[C]", "'xref' r=[C] | 'ref' r=[A]"):
        mm = metamodel_from_str("Model: things*=Thing refs*=Ref;\nThing: A | C;\nA: 'a' name=ID;\nC: 'c' name=ID;\nRef: %s;" % order)
        m = load(mm, 'a x c y ref y')
        if not (isinstance(m, str) and 'Unknown object "y" of class "A"' in m):
            problems.append("Ref: %s; 'ref y' with y a C: %s, expected Unknown object \"y\" of class \"A\"" % (
                order, m if isinstance(m, str) else 'resolved to <%s:%s>' % (type(m.refs[0].r).__name__, m.refs[0].r.name)))
        m = load(mm, 'a x c x ref x xref x')
        got = m if isinstance(m, str) else [(type(r.r).__name__, r.r.name) for r in m.refs]
        if got != [('A', 'x'), ('C', 'x')]:
            problems.append("Ref: %s; 'ref x xref x' with an A and a C named x: %s, expected [A x, C x]" % (order, got))
    # RREL expressions (grammar) - in one sequence and in a choice
    g = ("Model: 'xs' xs*=X 'zs' zs*=X rs*=R;\nX: '#' name=ID;\n"
         "R: 'r' a=[X|ID|xs] a=[X|ID|zs] | 'one' b=[X|ID|xs] | 'two' b=[X|ID|zs];")
    mm = metamodel_from_str(g)
    m = load(mm, 'xs #p #q zs #q #s r p s one q two q')
    if isinstance(m, str):
        problems.append('two RREL expressions on one attribute: %s' % m)
    else:
        got = [[x.name for x in m.rs[0].a], m.rs[1].b is m.xs[1], m.rs[2].b is m.zs[0]]
        if got != [['p', 's'], True, True]:
            problems.append('two RREL expressions on one attribute: %s, expected [[p, s], q of xs, q of zs]' % got)
    m = load(mm, 'xs #p zs #s r s p')
    if not (isinstance(m, str) and 'Unknown object' in m):
        problems.append("a=[X|ID|xs] a=[X|ID|zs] on 'r s p' (s only in zs, p only in xs): %s, expected Unknown object"
                        % (m if isinstance(m, str) else 'resolved'))
    return problems
