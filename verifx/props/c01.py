"""
C01 — the compiled parser and the model follow the grammar's documented PEG
semantics.

Per corpus grammar x configuration and per input length n <= N (solver, S-level):
    exists s in Sigma^n:  impl(s) differs from ref(s)  and  patched(s) differs from ref(s)
must be UNSAT, where impl = sympeg over the live parser model compiled by
textx/lang.py, ref = refpeg over the grammar AST (documented semantics),
patched = sympeg with the known root cause removed (a node-less success counts
as success), and "differs" = acceptance differs, or both accept with different
fingerprints (objects created per rule, values assigned per attribute).
Divergences explained by the root cause are replayed and reported as the
known finding.  Model clause (witness replay, labelled as such): one witness
per character-class string accepted by impl, n <= Nw, is loaded by the real
textX (auto_init_attributes on and off) and compared with the reference model.
"""
import time

from ..alg import And, Or, Not
from ..common import Check, pmap, src_hash, tier
from ..symtext import SymInput, Unsupported
from .. import corpus, pegcheck, modelcmp
from ..pegcheck import Formulas, Z3, class_text, real_parse, real_load, concrete_eval
from ..refpeg import RefPeg

PROP = 'C01'
NODELESS = 'C01-nodeless-success'


def configs_for(g, thorough):
    out = [{}]
    if thorough and 'skipws' not in g['cfg'] and 'ws' not in g['cfg']:
        out.append({'ws': ' '})
    return out


def replay_text(g, cfg, text):
    """real behaviour vs reference on one text -> (diverges, detail)"""
    mm = pegcheck.build_mm(g, **cfg)
    res = compare_one(g, mm, cfg, text, auto_init=True)
    return res


def compare_one(g, mm, cfg, text, auto_init=True):
    """('same'|'accept'|'model'|'skip', detail)"""
    ce = concrete_eval(g, mm, text, extra_cfg=cfg)
    ref_acc = ce['ref'][0]
    kind, val = real_load(mm, text)
    real_acc = kind != 'syntax'
    if real_acc != ref_acc:
        return ('accept', 'real parser %s, reference %s' % (
            'accepts' if real_acc else 'rejects', 'accepts' if ref_acc else 'rejects'), ce)
    if not real_acc:
        return ('same', None, ce)
    if kind == 'semantic':
        if getattr(val, 'err_type', None) == 'Unknown object' or 'Unknown object' in str(val):
            return ('skip', 'dangling reference', ce)
        return ('model', 'accepted input fails to load: %s' % val, ce)
    if kind == 'error':
        return ('model', 'accepted input raises %s: %s' % (type(val).__name__, val), ce)
    rules = {r[0]: r for r in g['rules']}
    exp = modelcmp.expected(ce['refmodel'], rules, auto_init)
    real = modelcmp.canon_real(val)
    d = modelcmp.first_diff(exp, real)
    if d:
        return ('model', d, ce)
    probs = modelcmp.check_parents(val)
    if probs:
        return ('model', probs[0], ce)
    return ('same', None, ce)


def explained_by_nodeless(ce):
    """the concrete divergence impl-vs-ref disappears in the patched model"""
    return ce['impl'] != ce['ref'] and ce['patched'] == ce['ref']


COMMENT_CACHE = 'comment-position-cache'


def explained_by_comment_cache(g, mm, cfg, text, auto_init=True):
    """root-cause re-evaluation: the divergence real-vs-reference disappears
    when Arpeggio's per-position comment cache is switched off"""
    if not any(r[0] == 'Comment' for r in g['rules']):
        return False
    with pegcheck.no_comment_position_cache():
        kind, detail, ce = compare_one(g, mm, cfg, text, auto_init=auto_init)
    return kind in ('same', 'skip')


def classify_known(g, mm, cfg, text, ce, known_ids, auto_init=True, prop='C01'):
    """id of the listed known finding that explains a reproduced divergence"""
    if explained_by_nodeless(ce) and NODELESS in known_ids:
        return NODELESS
    cid = '%s-%s' % (prop, COMMENT_CACHE)
    if cid in known_ids and explained_by_comment_cache(g, mm, cfg, text, auto_init):
        return cid
    return None


def obligation(item):
    gi, cfg, n, timeout_ms, nw, wlimit, known_ids = item
    g = corpus_list()[gi]
    t0 = time.time()
    res = {'grammar': g['name'], 'cfg': cfg, 'n': n, 'queries': {}, 'solver_s': 0.0, 'twin': None,
           'verdict': None, 'known': {}, 'violations': [], 'mismatch': [], 'validated': 0,
           'witnesses': 0, 'witness_exhaustive': None}
    try:
        mm = pegcheck.build_mm(g, **cfg)
        inp = SymInput.symbolic(n)
        f = Formulas(g, mm, inp, extra_cfg=cfg)
    except Unsupported as e:
        res['verdict'] = 'unsupported: %s' % e
        # the live parser model cannot be encoded: at least no load of a probe text may crash
        try:
            mm = pegcheck.build_mm(g, **cfg)
            for text in ('', '0', 'a', ' 0 0', 'a 0 ;'):
                kind, val = real_load(mm, text)
                res['validated'] += 1
                if kind == 'error':
                    res['violations'].append({'grammar': g['name'], 'cfg': cfg, 'text': text, 'kind': 'model',
                                              'detail': 'load raises %s: %s (the live parser model could not be '
                                                        'encoded: %s)' % (type(val).__name__, val, e)})
                    res['verdict'] = 'violated'
                    break
        except Exception as e2:  # noqa
            res['violations'].append({'grammar': g['name'], 'cfg': cfg, 'text': None, 'kind': 'model',
                                      'detail': 'the grammar does not compile: %s: %s' % (type(e2).__name__, e2)})
            res['verdict'] = 'violated'
        return res
    z = Z3(timeout_ms)
    z.add(*inp.domain())
    # vacuity twin
    res['twin'] = z.check(f.acc_i)
    d_ir = Formulas.differ(f.acc_i, f.fp_i, f.acc_r, f.fp_r)
    d_pr = Formulas.differ(f.acc_p, f.fp_p, f.acc_r, f.fp_r)
    # (1) divergences not explained by the known root cause
    z.push()
    z.add(d_ir, d_pr)
    tries = 0
    verdict = None
    while True:
        r = z.check()
        if r != 'sat':
            verdict = 'holds' if r == 'unsat' else 'unknown'
            break
        text = class_text(inp, z.model())
        tries += 1
        kind, detail, ce = compare_one(g, mm, cfg, text)
        res['validated'] += 1
        if kind in ('accept', 'model'):
            fid = classify_known(g, mm, cfg, text, ce, known_ids)
            if fid is None:
                res['violations'].append({'grammar': g['name'], 'cfg': cfg, 'text': text, 'kind': kind,
                                          'detail': detail})
                verdict = 'violated'
                break
            res['known'].setdefault(fid, {'grammar': g['name'], 'text': text, 'detail': detail})
        if kind in ('same', 'skip'):
            res['mismatch'].append({'text': text, 'note': 'solver divergence does not reproduce',
                                    'impl': str(ce['impl']), 'ref': str(ce['ref'])})
        z.add(inp.block_class(text))
        if tries >= 6:
            verdict = 'budget'
            break
    z.pop()
    res['verdict'] = verdict
    # (2) divergences explained by the root cause: reproduce one, report as known finding
    z.push()
    z.add(d_ir, Not(d_pr))
    r = z.check()
    if r == 'sat':
        text = class_text(inp, z.model())
        kind, detail, ce = compare_one(g, mm, cfg, text)
        res['validated'] += 1
        if kind in ('accept', 'model'):
            fid = classify_known(g, mm, cfg, text, ce, known_ids)
            if fid is not None:
                res['known'].setdefault(fid, {'grammar': g['name'], 'text': text, 'detail': detail})
            else:
                res['violations'].append({'grammar': g['name'], 'cfg': cfg, 'text': text,
                                          'kind': kind, 'detail': detail})
                res['verdict'] = 'violated'
    z.pop()
    # (3) model clause: witness replay, one per accepted character-class string
    if n <= nw and res['twin'] == 'sat':
        mm2 = pegcheck.build_mm(g, auto_init_attributes=False, **cfg)
        texts, exhausted, z2 = pegcheck.enumerate_classes(inp, f.acc_i, wlimit, timeout_ms)
        res['witness_exhaustive'] = exhausted
        for k in ('sat', 'unsat', 'unknown'):
            z.queries[k] += z2.queries[k]
        z.secs += z2.secs
        for text in texts:
            res['witnesses'] += 1
            for m_, ai in ((mm, True), (mm2, False)):
                kind, detail, ce = compare_one(g, m_, cfg, text, auto_init=ai)
                res['validated'] += 1
                if kind in ('accept', 'model'):
                    fid = classify_known(g, m_, cfg, text, ce, known_ids, auto_init=ai)
                    if fid is not None:
                        res['known'].setdefault(fid, {'grammar': g['name'], 'text': text, 'detail': detail})
                    else:
                        if len(res['violations']) < 3:
                            res['violations'].append({'grammar': g['name'], 'cfg': cfg, 'text': text,
                                                      'kind': kind, 'detail': detail,
                                                      'auto_init_attributes': ai})
                        res['verdict'] = 'violated'
    res['queries'] = z.queries
    res['solver_s'] = z.secs
    res['wall'] = time.time() - t0
    return res


_CORPUS = None


def corpus_list():
    global _CORPUS
    if _CORPUS is None:
        from ..common import seed
        base = [g for g in corpus.ALL if 'multi' not in g['tags']]
        if tier() == 'thorough':
            _CORPUS = base + corpus.MULTI + corpus.random_corpus(seed(), 40)
        else:
            _CORPUS = base
    return _CORPUS


def main():
    import textx.lang as L
    import textx.model as M
    import textx.metamodel as MM
    chk = Check(PROP, 'model_checking')
    quick = chk.tier == 'quick'
    N = 5 if quick else 8
    NW = 4 if quick else 6
    WL = 60 if quick else 400
    timeout_ms = 30000 if quick else 240000
    gs = corpus_list()
    items = []
    for gi, g in enumerate(gs):
        for cfg in configs_for(g, not quick):
            for n in range(0, N + 1):
                items.append((gi, cfg, n, timeout_ms, NW, WL, sorted(chk.known_ids)))
    items.sort(key=lambda it: -it[2])
    results = pmap(obligation, items)
    chk.cov['functions_encoded'] = src_hash(
        L.TextXVisitor._resolve_rule_refs, L.TextXVisitor.visit_textx_rule,
        L.TextXVisitor.visit_repeatable_expr, L.TextXVisitor.visit_assignment,
        L.TextXVisitor.visit_str_match, L.TextXVisitor.visit_re_match,
        L.TextXVisitor.visit_rule_params, L.TextXVisitor.visit_expression,
        L.TextXVisitor.visit_sequence, L.TextXVisitor.visit_choice, M.get_model_parser)
    chk.cov['replayed_through'] = src_hash(M.parse_tree_to_objgraph, MM.TextXMetaModel._init_obj_attrs)
    chk.cov['bounds'] = {'input_chars': N, 'witness_chars': NW, 'witness_classes_per_obligation': WL,
                         'grammars': len(gs), 'solver_timeout_ms': timeout_ms,
                         'alphabet': '103 symbols'}
    chk.cov['outside_claim'] = ['longer inputs', 'characters outside the alphabet',
                                'grammars outside the corpus (grammars are sampled, inputs are solver-quantified)',
                                'attribute values beyond one representative per character class (model clause is witness replay)']
    chk.assumptions = ['Arpeggio 2.0.3 as modelled by sympeg (every solver witness is replayed on the real parser)',
                       'the reference semantics in verifx/refpeg.py (documented textX PEG semantics)', 'z3']
    nontrivial = holds = 0
    for it, (st, r, secs) in zip(items, results):
        if st != 'ok':
            chk.harness_error(r)
            continue
        chk.add_queries(r['queries'], r['solver_s'])
        chk.cov['traces_validated_against_impl'] += r['validated']
        chk.cov['witness_replays'] = chk.cov.get('witness_replays', 0) + r['witnesses']
        if r['twin'] == 'sat':
            nontrivial += 1
        v = str(r['verdict'])
        if v.startswith('unsupported'):
            chk.cov['unsupported'] += 1
        elif v in ('unknown', 'budget'):
            chk.cov['inconclusive'] += 1
        elif v == 'holds':
            holds += 1
        for mm_ in r['mismatch']:
            chk.cov['model_mismatches'] += 1
            chk.sample({'model_mismatch': mm_, 'grammar': r['grammar']}, limit=20)
        for fid, k in r['known'].items():
            what = ('Arpeggio treats a successful match that produces no parse-tree node as failure in choices / '
                    'stop in repetitions' if fid == NODELESS else
                    "Arpeggio caches the position after skipped comments per input position, ignoring the "
                    "whitespace state")
            chk.known_hit(fid, '%s — e.g. grammar %s, input %r: %s' % (what, k['grammar'], k['text'], k['detail']))
        for vv in r['violations']:
            chk.violation('%s on %r (grammar %s): %s' % (vv['kind'], vv['text'], vv['grammar'],
                                                        vv['detail']), vv)
        chk.sample({'grammar': r['grammar'], 'cfg': r['cfg'], 'n': r['n'], 'verdict': r['verdict'],
                    'witnesses_replayed': r['witnesses']})
    chk.cov['distinct_nontrivial'] = nontrivial
    chk.cov['obligations'] = len(items)
    chk.cov['discharged'] = holds
    return chk.finish('one obligation per (grammar, configuration, input length): z3 query "impl and the '
                      'reference differ, and the known root cause does not explain it"; non-trivial = some '
                      'input of that length is accepted (vacuity twin sat)')


def replay(data):
    g = next(x for x in corpus.ALL + corpus.random_corpus(0, 40) if x['name'] == data['grammar'])
    mm = pegcheck.build_mm(g, **data.get('cfg', {}))
    kind, detail, ce = compare_one(g, mm, data.get('cfg', {}), data['text'],
                                   auto_init=data.get('auto_init_attributes', True))
    return kind in ('accept', 'model'), {'kind': kind, 'detail': detail}
