"""
C28 — model loading errors point at the offending text.

Path-exhaustive (level P) exploration with symx selectors: error kind (syntax
error, unknown object, non-unique name — duplicates in the same file or in an
imported one —, unresolvable postponed reference) x line terminator of the
model files (LF, CRLF, CR) x
location (string model, main model file with and without imports, imported model file loaded last / not last) x reference form
(single reference, 1st / 2nd / 3rd element of a reference list) x layout of
the whitespace in front of the offending token (spaces, tabs, newlines).  Every
combination is one real load; the raised error must name the file that contains
the offending token (None for strings) and the line / column of that token,
computed independently from the file's text.  Finite space, enumerated
exhaustively; the solver only steers the enumeration.
"""
import os
import tempfile

import z3

from ..common import Check, pmap, src_hash
from ..symx import Ctx

PROP = 'C28'
KNOWN_UNRES = 'C28-unresolvable-location'
KNOWN_NOTUNIQUE_IMPORTED = 'C28-not-unique-in-imported-model'

GRAMMAR = """
Model: imports*=Import objs*=Obj users*=User;
Import: 'import' importURI=STRING;
Obj: 'obj' name=ID;
User: 'user' name=ID ('ref' r=[Obj] | 'many' rs+=[Obj][',']) ';';
"""
KINDS = ['syntax', 'unknown', 'notunique', 'unresolvable', 'notunique-in-import']
# line terminators of model files (read in text mode: each is one line end)
EOLS = ['\n', '\r\n', '\r']
WHERE = ['string', 'main', 'imported', 'main-with-import', 'imported-first-of-two', 'string-global-repo-provider',
         'string-builtin-model']
FORMS = ['single', 'list1', 'list2', 'list3']
GAPS = [' ', '\n', '\n\n  ', '\t ', ' \n\t', ' \r ']      # the last one: a lone CR is whitespace, not a line end (string models)
MARK = '@@'


def body(kind, form, gap, dup_here, import_dup=True):
    """text of the file holding the offending token; MARK marks the token"""
    objs = 'obj a obj b' + (' obj a' if dup_here else '') + '\n'
    tok = {'syntax': '%', 'unknown': 'zz', 'notunique': 'a', 'unresolvable': 'b', 'notunique-in-import': 'k'}[kind]
    if form == 'single':
        users = 'user u ref' + gap + MARK + tok + ' ;'
    elif form == 'list1':
        users = 'user u many' + gap + MARK + tok + ', b ;'
    elif form == 'list2':
        users = 'user u many b,' + gap + MARK + tok + ', b ;'
    else:
        users = 'user u many b, b\n ,' + gap + MARK + tok + ' ;'
    head = 'import "dup.m"\n' if kind == 'notunique-in-import' and import_dup else ''
    return head + objs + 'user t ref b ;\n' + users + '\nuser w ref b ;'


def build(kind, where, form, gap):
    """{'main': text, 'lib.m': text} (or string model) and the offending file"""
    files = {}
    import_dup = True
    if where == 'string-builtin-model':
        where = 'string'
        import_dup = False        # a builtin model (built from a string, too) holds the duplicates
    if where == 'string-global-repo-provider':
        where = 'string'
        import_dup = False        # the pattern of the global-repository provider finds dup.m
    if kind == 'notunique-in-import':
        # the name is defined twice in a file the offending file imports: the offending text is the reference
        files['dup.m'] = 'obj k\nobj k'
        if where == 'string' and import_dup:
            where = 'main'
    if where == 'imported':
        files['lib.m'] = body(kind, form, gap, kind == 'notunique')
        files['main'] = 'import "lib.m"\nobj c\nuser m ref c ;'
        off = 'lib.m'
    elif where == 'main-with-import':
        # the offending file is not the last one loaded
        files['main'] = 'import "lib.m"\n' + body(kind, form, gap, kind == 'notunique')
        files['lib.m'] = 'obj c\nuser m ref c ;'
        off = 'main'
    elif where == 'imported-first-of-two':
        files['lib.m'] = body(kind, form, gap, kind == 'notunique')
        files['lib2.m'] = 'obj d\nuser n ref d ;'
        files['main'] = 'import "lib.m"\nimport "lib2.m"\nobj c\nuser m ref c ;'
        off = 'lib.m'
    else:
        files['main'] = body(kind, form, gap, kind == 'notunique', import_dup)
        off = 'main'
    text = files[off]
    pos = text.index(MARK)
    files[off] = text.replace(MARK, '')
    text = files[off]
    line = text.count('\n', 0, pos) + 1
    col = pos - (text.rfind('\n', 0, pos) + 1) + 1
    return files, off, pos, line, col


def load(kind, where, form, gap, eol='\n'):
    from textx import metamodel_from_str
    from textx.scoping import Postponed
    import textx.scoping.providers as P
    from textx.exceptions import TextXError
    files, off, pos, line, col = build(kind, where, form, gap)
    if kind == 'notunique-in-import' and where == 'string':
        where = 'main'              # an import statement needs a file to be relative to
    mm = metamodel_from_str(GRAMMAR)
    if where == 'string-builtin-model':
        from textx.scoping import ModelRepository
        builtins = ModelRepository()
        builtins.add_model(metamodel_from_str(GRAMMAR).model_from_str(files.get('dup.m', 'obj zz9')))
        mm = metamodel_from_str(GRAMMAR, builtin_models=builtins)
        where = 'string'
    inner = P.PlainNameImportURI()

    class Prov(P.ImportURI):
        def __init__(self):
            P.ImportURI.__init__(self, P.PlainName())

        def __call__(self, obj, attr, obj_ref):
            if kind == 'unresolvable' and obj.name == 'u' and obj_ref.position == pos:
                return Postponed()
            return inner(obj, attr, obj_ref)
    mm.register_scope_providers({'*.*': Prov()})
    tmpd = None
    try:
        if where == 'string-global-repo-provider':
            # a string model whose scope provider finds library files by a pattern: the model is
            # registered in the repository under an invented name — its errors still name no file
            tmpd = tempfile.mkdtemp(prefix='c28_')
            files = dict(files, **{'zlib.m': 'obj zlibobj'})
            for fn in files:
                if fn != 'main':
                    with open(os.path.join(tmpd, fn), 'w') as f:
                        f.write(files[fn])
            if kind != 'unresolvable':
                mm.register_scope_providers({'*.*': P.PlainNameGlobalRepo(os.path.join(tmpd, '*.m'))})
            try:
                mm.model_from_str(files['main'])
                return ('noerror', None, None)
            except TextXError as e:
                return ('err', e, {'filename': None, 'line': line, 'col': col})
        if where == 'string':
            try:
                mm.model_from_str(files['main'])
                return ('noerror', None, None)
            except TextXError as e:
                return ('err', e, {'filename': None, 'line': line, 'col': col})
        tmpd = tempfile.mkdtemp(prefix='c28_')
        for fn, content in files.items():
            with open(os.path.join(tmpd, fn), 'wb') as f:
                f.write(content.replace('\n', eol).encode('utf-8'))
        try:
            mm.model_from_file(os.path.join(tmpd, 'main'))
            return ('noerror', None, None)
        except TextXError as e:
            return ('err', e, {'filename': os.path.join(tmpd, off), 'line': line, 'col': col})
    finally:
        if tmpd:
            for fn in files:
                try:
                    os.remove(os.path.join(tmpd, fn))
                except OSError:
                    pass
            os.rmdir(tmpd)


def judge(kind, where, form, gap, eol='\n'):
    if '\r' in gap and (not where.startswith('string') or (kind == 'notunique-in-import' and where == 'string')):
        gap = ' '            # model files are read in text mode: a CR there is a line end (see the eol dimension)
    try:
        st, e, want = load(kind, where, form, gap, eol)
    except Exception as ex:  # noqa
        return True, 'load raised %s: %s' % (type(ex).__name__, ex), None
    if st == 'noerror':
        return True, 'no error raised', None
    msgs = {'syntax': 'Expected', 'unknown': 'Unknown object', 'notunique': 'not unique',
            'unresolvable': 'Unresolvable cross references', 'notunique-in-import': 'not unique'}
    if msgs[kind] not in str(e):
        return True, 'unexpected error: %s' % str(e)[:100], None
    got = {'filename': e.filename, 'line': e.line, 'col': e.col}
    if want['filename'] is not None and got['filename'] is not None:
        got['filename'] = os.path.basename(got['filename'])
        want = dict(want, filename=os.path.basename(want['filename']))
    if got != want:
        return True, 'error located at %s, offending text is at %s' % (got, want), (got, want)
    return False, 'ok', None


def given_text_scenario():
    """model_from_str(text, file_name=F): the errors point into the text that was given (named F), whatever F
    holds on disk — also for an empty text"""
    import shutil
    from textx import metamodel_from_str
    from textx.exceptions import TextXError
    tmp = tempfile.mkdtemp(prefix='c28t_')
    problems = []
    try:
        fn = os.path.join(tmp, 'buffer.m')
        with open(fn, 'w') as f:
            f.write('obj a\nuser u ref zz ;')        # on disk: unknown object at 2:12
        for text, want in (('', None), ('\n\n  user u ref zz ;', (3, 14)), ('obj a user u ref a ;', None)):
            mm = metamodel_from_str(GRAMMAR)
            try:
                mm.model_from_str(text, file_name=fn)
                got = None
            except TextXError as e:
                got = (e.line, e.col)
                if os.path.basename(e.filename or '') != 'buffer.m':
                    problems.append('text %r given for buffer.m: the error names the file %r' % (text, e.filename))
            if got != want:
                problems.append('text %r given for buffer.m (other content on disk): error at %s, expected %s' % (text, got, want))
        return problems
    finally:
        shutil.rmtree(tmp, ignore_errors=True)


def rewritten_file_scenario():
    """concrete supplement: a file is loaded, rewritten (same length, line ends elsewhere) and loaded again in
    the same process, with the same and with a fresh meta-model: errors point into the current content"""
    import shutil
    from textx import metamodel_from_str
    import textx.scoping.providers as P
    from textx.exceptions import TextXError
    tmp = tempfile.mkdtemp(prefix='c28w_')
    problems = []
    try:
        def at(text, needle):
            i = text.index(needle)
            return (text.count('\n', 0, i) + 1, i - (text.rfind('\n', 0, i) + 1) + 1)
        raw = [('obj a\nobj b\nuser u ref a ;\n', None),
               ('obj a obj b\n\nuser u ref q ;', 'q ;'),           # unknown object
               ('obj a\n\n\nobj b user ref a ;', 'a ;'),           # syntax error ('ref' is taken as the name)
               ('\n\n\nobj a obj b user u ref z;', 'z;')]
        width = max(len(t) for t, _ in raw)
        versions = [(t.ljust(width), None if n is None else at(t, n)) for t, n in raw]   # all of the same length
        for via_import in (False, True):
            mm = metamodel_from_str(GRAMMAR)
            mm.register_scope_providers({'*.*': P.PlainNameImportURI()})
            fn = os.path.join(tmp, 'lib.m' if via_import else 'main.m')
            if via_import:
                with open(os.path.join(tmp, 'main.m'), 'w') as f:
                    f.write('import "lib.m"\nobj m')
            for text, want in versions:
                with open(fn, 'w') as f:
                    f.write(text)
                for label, m_ in (('the same meta-model', mm), ('a fresh meta-model', None)):
                    if m_ is None:
                        m_ = metamodel_from_str(GRAMMAR)
                        m_.register_scope_providers({'*.*': P.PlainNameImportURI()})
                    try:
                        m_.model_from_file(os.path.join(tmp, 'main.m'))
                        got = None
                    except TextXError as e:
                        got = (e.line, e.col) if os.path.basename(e.filename or '') == os.path.basename(fn) else (
                            'file', e.filename)
                    if got != want:
                        problems.append('%s rewritten as %r and loaded again with %s: error at %s, expected %s'
                                        % (os.path.basename(fn), text, label, got, want))
        return problems
    finally:
        shutil.rmtree(tmp, ignore_errors=True)


def explore(item):
    kind, = item
    ctx = Ctx(10000, max_paths=5000, free_selectors=True)

    def pick(c, name, options):
        for i in range(len(options) - 1):
            if c.branch(z3.Bool('%s_%d' % (name, i))):
                return options[i]
        return options[-1]

    def path(c):
        where = pick(c, 'where', WHERE)
        form = pick(c, 'form', FORMS)
        gap = pick(c, 'gap', GAPS)
        eol = pick(c, 'eol', EOLS) if not where.startswith('string') else '\n'
        bad, detail, gw = judge(kind, where, form, gap, eol)
        return (bad, where, form, gap, detail, gw, eol)
    outs = ctx.explore(path)
    return {'kind': kind, 'paths': ctx.paths, 'bad': [list(o[1:]) for o in outs if o[0]],
            'ok': sum(1 for o in outs if not o[0])}


def classify(kind, where, form, gap, detail, gw):
    if gw is None:
        return None
    got, want = gw
    if kind == 'unresolvable':
        # recorded root cause: filename never set and the main model's parser is
        # used for offsets of imported files
        if where in ('string', 'main') and got['line'] == want['line'] and got['col'] == want['col'] \
                and got['filename'] is None:
            return KNOWN_UNRES
        if where == 'imported' and got['filename'] is None:
            return KNOWN_UNRES
    return None


def main():
    import textx.model as M
    import textx.scoping.providers as P
    chk = Check(PROP, 'exploration')
    results = pmap(explore, [(k,) for k in KINDS])
    chk.cov['functions_encoded'] = src_hash(M.ReferenceResolver.resolve_one_step, M.parse_tree_to_objgraph,
                                            P.PlainName.__call__, M.get_model_parser)
    chk.cov['bounds'] = {'kinds': KINDS, 'locations': WHERE, 'reference_forms': FORMS, 'layouts': len(GAPS),
                         'file_line_terminators': EOLS}
    chk.cov['outside_claim'] = ['other grammars, deeper import chains', 'other scope providers than ImportURI(PlainName)']
    chk.assumptions = ['finite space enumerated exhaustively (selectors are unconstrained: the solver decides nothing here)',
                       'Arpeggio pos_to_linecol (dependency) maps offsets to line/column']
    paths = 0
    for (st, r, secs) in results:
        if st != 'ok':
            chk.harness_error(r)
            continue
        paths += r['paths']
        if r['ok'] == 0 and not r['bad']:
            chk.harness_error('vacuous: %s' % r['kind'])
        seen = set()
        for where, form, gap, detail, gw, eol in r['bad']:
            fid = classify(r['kind'], where, form, gap, detail, gw)
            if fid and chk.is_known(fid):
                chk.known_hit(fid, '%s error in %s (%s): %s' % (r['kind'], where, form, detail))
                continue
            key = (where, form)
            if key in seen or len(chk.violations) >= 8:
                continue
            seen.add(key)
            chk.cov['traces_validated_against_impl'] += 1
            chk.violation('%s error, offending text in %s, %s reference, gap %r, line ends %r: %s' % (
                r['kind'], where, form, gap, eol, detail),
                {'kind': r['kind'], 'where': where, 'form': form, 'gap': gap, 'eol': eol})
        chk.sample({'kind': r['kind'], 'loads': r['paths'], 'located_correctly': r['ok'], 'mislocated': len(r['bad'])})
    for pr in given_text_scenario()[:2]:
        chk.violation(pr, {'given_text': True})
    for pr in rewritten_file_scenario()[:2]:
        chk.violation(pr, {'rewritten_file': True})
    paths += 16
    chk.cov['bounds']['rewritten_file'] = 'a file rewritten with the same length and loaded again, main and imported (concrete)'
    paths += 3
    chk.cov['bounds']['given_text'] = 'model_from_str(text, file_name=F) with other content on disk, incl. the empty text (concrete)'
    chk.cov['paths_explored'] = paths
    chk.cov['evaluations'] = paths
    chk.cov['distinct_nontrivial'] = paths
    chk.cov['exhaustive'] = True
    return chk.finish('every combination (error kind, location, reference form, layout) is one path = one real load')


def replay(data):
    if data.get('rewritten_file'):
        pr = rewritten_file_scenario()
        return bool(pr), pr[:2]
    if data.get('given_text'):
        pr = given_text_scenario()
        return bool(pr), pr[:2]
    bad, detail, gw = judge(data['kind'], data['where'], data['form'], data['gap'], data.get('eol', '\n'))
    return bad, detail
