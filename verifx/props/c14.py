"""
C14 — user classes are constructed once with exactly the grammar attributes.

Fault enumeration (level P) over whole real loads (one file, two files, import
cycle; user classes plain / __slots__ / own __setattr__ + __getattribute__):
the k-th callback among {scope provider, object processor, model processor}
raises (k = symbolic selector; also "no fault"), plus loads that fail by
themselves (syntax error / unknown reference in the main or the imported file).
On every path:
  * every user object is initialised exactly once, __init__ receives exactly the
    rule's attributes plus `parent`, with references already resolved, and no
    __init__ runs after an object processor has been called;
  * after the load — successful or not — the user classes are exactly as before
    it (same class attributes, identical function objects, no per-object
    storage left in _tx_obj_attrs).
"""
from ..common import Check, pmap, src_hash
from . import lifecycle as LC

PROP = 'C14'
KNOWN_RESIDUE = 'C14-obj-attrs-residue-after-failed-load'
KNOWN_INSTR = 'C14-class-left-instrumented-after-failed-load'
ATTRS = {'Box': ('items', 'name', 'parent'), 'Leaf': ('more', 'name', 'parent', 'to'), 'Model': ('imports', 'items')}

FAIL_CASES = {
    'syntax-main': {'main': 'import "lib.m" box a { leaf x -> p; } leaf % ;', 'lib.m': "leaf p; box l { leaf q -> p; }"},
    'syntax-lib': {'main': 'import "lib.m" box a { leaf x -> p; }', 'lib.m': "leaf p; box l { leaf q -> p; } }"},
    'unknown-main': {'main': 'import "lib.m" box a { leaf x -> nope; }', 'lib.m': "leaf p; box l { leaf q -> p; }"},
    'unknown-lib': {'main': 'import "lib.m" box a { leaf x -> p; }', 'lib.m': "leaf p; box l { leaf q -> nope; }"},
    'unknown-single': {'main': 'box a { leaf x -> nope; } leaf y;'},
    # the failure happens while the imports are loaded, another imported model is already under construction
    'syntax-second-import': {'main': 'import "lib.m" import "bad.m" box a { leaf x -> p; }', 'lib.m': "leaf p; box l { leaf q -> p; }",
                             'bad.m': "leaf r; box { }"},
    'missing-second-import': {'main': 'import "lib.m" import "absent.m" box a { leaf x -> p; }', 'lib.m': "leaf p; box l { leaf q -> p; }"},
    'string-unknown': {'main': "box a { leaf x -> nope; } leaf w -> p;", 'lib.m': "leaf p; box l { leaf q -> p; }"},
    'string-syntax': {'main': "box a { leaf x -> p; } leaf % ;", 'lib.m': "leaf p; box l { leaf q -> p; }"},
}
LC.CASES.update(FAIL_CASES)


def judge(obs):
    """[(kind, text)] problems of one path"""
    out = []
    log = obs['log']
    inits = [e for e in log if e[0] == 'init']
    seen = {}
    for e in inits:
        seen[e[5]] = seen.get(e[5], 0) + 1
        if e[3] != ATTRS[e[1]]:
            out.append(('init', '%s %r initialised with %s, expected %s' % (e[1], e[2], e[3], ATTRS[e[1]])))
        if e[4]:
            out.append(('init', '%s %r initialised with unresolved references %s' % (e[1], e[2], e[4])))
    for oid, n in seen.items():
        if n != 1:
            out.append(('init', 'a user object was initialised %d times' % n))
    first_proc = next((i for i, e in enumerate(log) if e[0] == 'proc'), None)
    if first_proc is not None:
        late = [e for e in log[first_proc:] if e[0] == 'init']
        if late:
            out.append(('init', '%s %r initialised after an object processor ran' % (late[0][1], late[0][2])))
    if obs['outcome'] == 'ok':
        import re
        names = set()
        for text in LC.CASES[obs['case']].values():
            names |= set(re.findall(r'(?:box|leaf)\s+(\w+)', text))
        got = {e[2] for e in inits if e[1] != 'Model'}      # the root objects have no name
        nmodels = sum(1 for e in inits if e[1] == 'Model')
        if nmodels != len(LC.CASES[obs['case']]):
            out.append(('init', '%d root objects initialised for %d model files' % (nmodels, len(LC.CASES[obs['case']]))))
        if got != names:
            out.append(('init', 'initialised objects %s, model objects %s' % (sorted(got), sorted(names))))
    if obs['outcome'] == 'exception':
        out.append(('crash', obs.get('error')))
    for d in obs['class_diffs']:
        out.append(('residue' if '_tx_obj_attrs' in d else 'class', d))
    return out


def explore(item):
    r = LC.explore(item)
    bad = []
    outcomes = {}
    for obs in r['obs']:
        outcomes[obs['outcome']] = outcomes.get(obs['outcome'], 0) + 1
        probs = judge(obs)
        if probs:
            bad.append({'case': obs['case'], 'variant': obs['variant'], 'fired': obs['fired'],
                        'outcome': obs['outcome'], 'problems': probs[:4]})
    return {'item': r['item'], 'paths': r['paths'], 'bad': bad, 'outcomes': outcomes}


def classify(b):
    kinds = {k for k, t in b['problems']}
    if b['outcome'] != 'ok' and kinds <= {'residue'}:
        return KNOWN_RESIDUE
    if b['outcome'] != 'ok' and kinds <= {'residue', 'class'}:
        return KNOWN_INSTR
    return None


def main(prop=PROP):
    import textx.model as M
    chk = Check(PROP, 'fault_enumeration')
    quick = chk.tier == 'quick'
    items = []
    for case in ('single', 'two-files', 'cycle'):
        for variant in LC.VARIANTS:
            if quick and variant != 'plain' and case == 'cycle':
                continue
            items.append((case, variant, False, True, False, 'runtime'))
    for case in FAIL_CASES:
        items.append((case, 'plain', False, False, False, 'runtime'))
    if not quick:
        for case in ('two-files',):
            items.append((case, 'plain', True, True, False, 'textx'))
    results = pmap(explore, items)
    chk.cov['functions_encoded'] = src_hash(M.parse_tree_to_objgraph, M._end_model_construction, M.get_model_parser)
    chk.cov['bounds'] = {'cases': sorted(set(i[0] for i in items)), 'variants': LC.VARIANTS,
                         'fault_points': 'every scope-provider / object-processor / match-rule-processor (during construction) / model-processor call and every user-class constructor call'}
    chk.cov['outside_claim'] = ['other grammars']
    chk.assumptions = ['finite fault space enumerated exhaustively (selectors unconstrained: z3 decides nothing)']
    paths = 0
    seen = set()
    for (st, r, secs) in results:
        if st != 'ok':
            chk.harness_error(r)
            continue
        paths += r['paths']
        for b in r['bad']:
            fid = classify(b)
            if fid and chk.is_known(fid):
                chk.known_hit(fid, '%s/%s fault %s: %s' % (b['case'], b['variant'], b['fired'], b['problems'][:2]))
                continue
            key = (b['case'], b['variant'], tuple(sorted({k for k, t in b['problems']})))
            if key in seen or len(chk.violations) >= 8:
                continue
            seen.add(key)
            chk.cov['traces_validated_against_impl'] += 1
            chk.violation('%s/%s, fault %s, load %s: %s' % (b['case'], b['variant'], b['fired'], b['outcome'],
                                                           b['problems']),
                          {'item': r['item'], 'fired': b['fired']})
        chk.sample({'case': r['item'][0], 'variant': r['item'][1], 'paths': r['paths'], 'outcomes': r['outcomes'],
                    'paths_with_problems': len(r['bad'])})
    chk.cov['paths_explored'] = paths
    chk.cov['evaluations'] = paths
    chk.cov['distinct_nontrivial'] = paths
    chk.cov['exhaustive'] = True
    from . import extras7
    for fn_ in ('nested_failing_load', 'primitive_root_with_user_classes'):
        for pr in getattr(extras7, fn_)()[:2]:
            chk.violation(pr, {'extras7': fn_})
        chk.cov['traces_validated_against_impl'] += 1
    chk.cov.setdefault('bounds', {})['concrete_supplements_round7'] = ['nested_failing_load', 'primitive_root_with_user_classes']
    return chk.finish('one path per fault point (callback call that raises) per case and user-class variant, plus the '
                      'fault-free load and the self-failing loads; each path is a real load')


def replay(data):
    if isinstance(data, dict) and data.get('extras7'):
        from . import extras7
        pr = getattr(extras7, data['extras7'])()
        return bool(pr), pr[:2]
    item = data['item']
    if data.get('fired'):
        obs = LC.replay_fault(item[0], item[1], item[2], data['fired'][0], item[5])
    else:
        class C:
            def branch(self, b):
                return False
        obs = LC.run_path(C(), item[0], item[1], item[2], False, False, item[5])
    probs = judge(obs)
    return bool(probs), probs[:3]
