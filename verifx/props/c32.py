"""
C32 — scope provider selection follows the documented precedence.

Path-exhaustive (level P) over configurations, steered by symx selectors:
which of the four registration keys 'Rule.attr', '*.attr', 'Rule.*', '*.*' are
registered (each bound to a distinguishable provider: it returns its own
marker object, or None when a second selector says so, or is an RREL string),
with and without an RREL expression written in the grammar, for references in
a single attribute, a list attribute and a second rule.  Every configuration
is one real load; the object each reference resolves to (or the error) must be
the one produced by the first provider in the documented order: grammar RREL,
'Rule.attr', '*.attr', 'Rule.*', '*.*', default provider.  The references use
two match rules with different name delimiters (FQN '.', PATH '/'), one- and
two-part names: a registered RREL string behaves like the same expression
written in the grammar for each of them.
"""
import z3

from ..common import Check, pmap, src_hash
from ..symx import Ctx

PROP = 'C32'

GRAMMAR = """
Model: objs+=Obj boxes*=Box users+=User others*=Other;
Obj: 'obj' name=ID;
Box: 'box' name=ID '{' objs*=Obj '}';
User: 'user' name=ID 'ref' r=[Obj%(rrel)s] 'many' rs+=[Obj%(rrel)s] (',' rs+=[Obj%(rrel)s])* ';';
Other: 'other' name=ID 'ref' r=[Obj:PATH] ';';
FQN: ID ('.' ID)*;
PATH[split='/']: ID ('/' ID)*;
"""
# the references are written with the name delimiters of their match rules ('.' for FQN, '/' for PATH)
MODEL = "obj a obj k0 obj k1 obj k2 obj k3 box b { obj a } user u ref a many b.a, a ; other o ref b/a ;"
REFS = [('User', 'r', 'a'), ('User', 'rs', 'b.a'), ('User', 'rs', 'a'), ('Other', 'r', 'b/a')]
RREL = 'objs,boxes.objs'
KEYS = {
    ('User', 'r'): ['User.r', '*.r', 'User.*', '*.*'],
    ('User', 'rs'): ['User.rs', '*.rs', 'User.*', '*.*'],
    ('Other', 'r'): ['Other.r', '*.r', 'Other.*', '*.*'],
}
ALL_KEYS = ['User.r', '*.r', 'User.*', '*.*', 'User.rs', 'Other.r']


def expected_for(rule, attr, registered, grammar_rrel, name='a'):
    """'top-a' | 'boxed-a' | 'k<i>' | 'unknown' | 'notunique'"""
    by_rrel = 'top-a' if name == 'a' else 'boxed-a'
    if grammar_rrel and rule == 'User':
        return by_rrel
    for k in KEYS[(rule, attr)]:
        if k in registered:
            kind = registered[k]
            if kind == 'rrel':
                return by_rrel
            if kind == 'none':
                return 'unknown'
            return kind          # marker object name
    # default provider: two objects named a, none with a qualified name
    return 'notunique' if name == 'a' else 'unknown'


class FalsyProvider:
    """a callable provider object whose truth value is False (e.g. a memoising
    provider with __len__, still empty when it is registered)"""

    def __init__(self, fn):
        self.fn = fn

    def __call__(self, obj, attr, ref):
        return self.fn(obj, attr, ref)

    def __len__(self):
        return 0


def run_config(registered, grammar_rrel, falsy=False):
    from textx import metamodel_from_str
    from textx.exceptions import TextXSemanticError
    mm = metamodel_from_str(GRAMMAR % {'rrel': (':FQN|' + RREL) if grammar_rrel else ':FQN'})
    provs = {}
    for key, kind in registered.items():
        if kind == 'rrel':
            provs[key] = RREL
        elif kind == 'none':
            provs[key] = (lambda obj, attr, ref: None)
        else:
            provs[key] = (lambda obj, attr, ref, kind=kind:
                          next(o for o in _root(obj).objs if o.name == kind))
    if falsy:
        provs = {k: (v if isinstance(v, str) else FalsyProvider(v)) for k, v in provs.items()}
    mm.register_scope_providers(provs)
    try:
        m = mm.model_from_str(MODEL)
    except TextXSemanticError as e:
        msg = str(e)
        return ('error', 'unknown' if 'Unknown object' in msg else ('notunique' if 'not unique' in msg else msg[:60]))
    u, o = m.users[0], m.others[0]

    def tag(x):
        if x.name == 'a':
            return 'top-a' if x in m.objs else 'boxed-a'
        return x.name
    return ('ok', [tag(u.r), tag(u.rs[0]), tag(u.rs[1]), tag(o.r)])


def _root(obj):
    while hasattr(obj, 'parent'):
        obj = obj.parent
    return obj


def judge(registered, grammar_rrel, falsy=False):
    exp = [expected_for(r, a, registered, grammar_rrel, nm) for r, a, nm in REFS]
    try:
        got = run_config(registered, grammar_rrel, falsy)
    except Exception as e:  # noqa
        return True, 'load raised %s: %s' % (type(e).__name__, e), exp
    first_err = next((x for x in exp if x in ('unknown', 'notunique')), None)
    if first_err:
        want = ('error', first_err)
    else:
        want = ('ok', exp)
    return got != want, {'got': got, 'expected': want}, exp


# ---------------------------------------------------------------- the same RREL text in both places
F_GRAMMAR = """
Model: boxes+=Box users+=User;
Box: 'box' name=STRING '{' objs*=Obj '}';
Obj: 'obj' name=ID;
User: 'user' name=ID 'ref' r=[Obj:ID%s] ('also' rs+=[Obj:ID%s])*;
"""
F_MODEL = ('box "p q" { obj a } box "t\\\\x" { obj a obj b } box "t\\x" { obj a obj c } box "it\'s" { obj a obj d } '
           'box "tab\\there" { obj a obj e } user u ref a also a')
F_EXPRS = ["boxes.objs", "'p q'~boxes.objs", "'t\\x'~boxes.objs", "'it\\'s'~boxes.objs", "'tab\\there'~boxes.objs",
           "'nope'~boxes.objs,'p q'~boxes.objs", "+p:'t\\x'~boxes.objs"]


def rrel_forms_scenario():
    """an RREL text (with fixed names that contain quotes and backslashes) registered as a string resolves
    exactly like the same text written in the grammar"""
    from textx import metamodel_from_str
    from textx.exceptions import TextXError
    problems = []

    def outcome(mm):
        try:
            m = mm.model_from_str(F_MODEL)
        except TextXError as e:
            return ('error', 'Unknown object' if 'Unknown object' in str(e) else str(e)[:50])
        except Exception as e:  # noqa
            return ('exception', type(e).__name__)
        u = m.users[0]
        return ('ok', [o.parent.name for o in [u.r] + list(u.rs)])
    for e in F_EXPRS:
        try:
            in_grammar = outcome(metamodel_from_str(F_GRAMMAR % ('|' + e, '|' + e)))
        except Exception as ex:  # noqa
            in_grammar = ('grammar-error', type(ex).__name__)
        mm = metamodel_from_str(F_GRAMMAR % ('', ''))
        try:
            mm.register_scope_providers({'User.*': e})
            registered = outcome(mm)
        except Exception as ex:  # noqa
            registered = ('grammar-error', type(ex).__name__)
        if in_grammar != registered:
            problems.append('RREL %s: written in the grammar %s, registered as a string %s' % (e, in_grammar, registered))
    return problems


def grammar_rrel_flags_scenario():
    """two RREL expressions in one grammar, one with the multi-file flag '+m:' and one without: each keeps its
    own flags, in either rule order (as two registered strings do)"""
    import os
    import shutil
    import tempfile
    from textx import metamodel_from_str
    from textx.exceptions import TextXSemanticError
    rules = ["Use: 'use' ref=[Item:ID|+m:items];", "Local: 'local' ref=[Item:ID|items];"]
    problems = []
    tmp = tempfile.mkdtemp(prefix='c32f_')
    try:
        with open(os.path.join(tmp, 'lib.m'), 'w') as f:
            f.write('item l1')
        for order in (rules, rules[::-1]):
            for registered in (False, True):
                g = ("Model: imports*=Import items*=Item uses*=Use locals*=Local;\nImport: 'import' importURI=STRING;\n"
                     "Item: 'item' name=ID;\n" + '\n'.join(order))
                if registered:
                    g = g.replace('|+m:items', '').replace('|items', '')
                what = '%s first, %s' % (order[0].split(':')[0], 'registered strings' if registered else 'grammar RRELs')
                for text, want in (('import "lib.m" item m1 use l1 local m1', 'ok'), ('import "lib.m" item m1 use m1 local l1', 'Unknown object')):
                    mm = metamodel_from_str(g)
                    if registered:
                        mm.register_scope_providers({'Use.ref': '+m:items', 'Local.ref': 'items'})
                    with open(os.path.join(tmp, 'main.m'), 'w') as f:
                        f.write(text)
                    try:
                        m = mm.model_from_file(os.path.join(tmp, 'main.m'))
                        got = 'ok'
                        if want == 'ok' and (m.uses[0].ref.name != 'l1' or m.locals[0].ref is not m.items[0]):
                            got = 'wrong targets'
                    except TextXSemanticError as e:
                        got = 'Unknown object' if 'Unknown object' in str(e) else str(e)[:60]
                    except Exception as e:  # noqa
                        got = '%s: %s' % (type(e).__name__, str(e)[:60])
                    if got != want:
                        problems.append("%s: %r gives %s, expected %s" % (what, text, got, want))
        return problems
    finally:
        shutil.rmtree(tmp, ignore_errors=True)


def grammar_files_rrel_scenario():
    """concrete supplement: the grammar is spread over files (main.tx imports mid.tx imports base.tx) and the
    RREL reference - with the multi-file flag and its own match rule - is written in base.tx: it behaves like the
    same expression registered as a string, and like the single-file grammar"""
    import os
    import shutil
    import tempfile
    from textx import metamodel_from_file
    problems = []
    for registered in (False, True):
        ref = "[Item:QN]" if registered else "[Item:QN|+m:groups.items]"
        files = {'main.tx': "import mid\nModel: imports*=Import groups*=Group wraps*=Wrap;\nImport: 'import' importURI=STRING;\n"
                            "QN: ID('.'ID)*;",        # another QN of the main grammar (no split): not the one meant in base.tx
                 'mid.tx': "import base\nGroup: 'group' name=ID '{' items*=Item '}';\nWrap: 'w' uses*=Use;",
                 'base.tx': "Item: 'item' name=ID;\nUse: 'use' ref=%s;\nQN[split='/']: ID('/'ID)*;" % ref}
        tmp = tempfile.mkdtemp(prefix='c32g_')
        try:
            for fn, t in files.items():
                with open(os.path.join(tmp, fn), 'w') as f:
                    f.write(t)
            with open(os.path.join(tmp, 'lib.m'), 'w') as f:
                f.write('group g { item l1 }')
            with open(os.path.join(tmp, 'main.m'), 'w') as f:
                f.write('import "lib.m" group h { item m1 } w use g/l1 use h/m1')
            mm = metamodel_from_file(os.path.join(tmp, 'main.tx'))
            if registered:
                mm.register_scope_providers({'Use.ref': '+m:groups.items'})
            what = 'grammar in three files, reference in the transitively imported one, %s' % (
                'registered string' if registered else 'RREL written in the grammar')
            try:
                m = mm.model_from_file(os.path.join(tmp, 'main.m'))
                got = [u.ref.name for u in m.wraps[0].uses]
            except Exception as e:  # noqa
                got = '%s: %s' % (type(e).__name__, str(e).replace(tmp, '')[:80])
            if got != ['l1', 'm1']:
                problems.append('%s: uses resolve to %s, expected [l1, m1]' % (what, got))
        finally:
            shutil.rmtree(tmp, ignore_errors=True)
    return problems


def explore(item):
    grammar_rrel, = item
    ctx = Ctx(10000, max_paths=100000, free_selectors=True)

    def path(c):
        registered = {}
        for k in ALL_KEYS:
            if c.branch(z3.Bool('reg_%s' % k)):
                if c.branch(z3.Bool('none_%s' % k)):
                    registered[k] = 'none'
                elif k in ('*.r', 'User.*', '*.*') and c.branch(z3.Bool('rrel_%s' % k)):
                    registered[k] = 'rrel'
                else:
                    registered[k] = 'k%d' % (ALL_KEYS.index(k) % 4)
        falsy = c.branch(z3.Bool('falsy_provider_objects'))
        bad, detail, exp = judge(registered, grammar_rrel, falsy)
        return (bad, dict(registered, falsy_provider_objects=falsy) if falsy else registered, detail)
    outs = ctx.explore(path)
    return {'grammar_rrel': grammar_rrel, 'paths': ctx.paths,
            'bad': [[o[1], o[2]] for o in outs if o[0]][:5], 'nbad': sum(1 for o in outs if o[0])}


def main():
    import textx.model as M
    import textx.metamodel as MM
    chk = Check(PROP, 'exploration')
    results = pmap(explore, [(False,), (True,)])
    chk.cov['functions_encoded'] = src_hash(M.ReferenceResolver.resolve_one_step,
                                            MM.TextXMetaModel.register_scope_providers)
    chk.cov['bounds'] = {'keys': ALL_KEYS, 'provider_kinds': ['marker object', 'returns None', 'RREL string'], 'provider_objects': ['functions', 'falsy callable objects'],
                         'grammar_rrel': [False, True]}
    chk.cov['outside_claim'] = ['other grammars', 'providers that return Postponed']
    chk.assumptions = ['finite configuration space enumerated exhaustively (selectors unconstrained: z3 decides nothing)']
    paths = 0
    for (st, r, secs) in results:
        if st != 'ok':
            chk.harness_error(r)
            continue
        paths += r['paths']
        for registered, detail in r['bad'][:3]:
            chk.cov['traces_validated_against_impl'] += 1
            chk.violation('registered %s, grammar RREL %s: %s' % (registered, r['grammar_rrel'], detail),
                          {'registered': registered, 'grammar_rrel': r['grammar_rrel']})
        chk.sample({'grammar_rrel': r['grammar_rrel'], 'configurations': r['paths'], 'wrong': r['nbad']})
    for pr in rrel_forms_scenario()[:3]:
        chk.violation(pr, {'rrel_forms': True})
    for pr in grammar_rrel_flags_scenario()[:3]:
        chk.violation(pr, {'rrel_flags': True})
    for pr in grammar_files_rrel_scenario()[:3]:
        chk.violation(pr, {'rrel_grammar_files': True})
    paths += 2
    paths += 8
    paths += len(F_EXPRS)
    chk.cov['bounds']['rrel_forms'] = 'grammar form vs registered string for %d expressions with fixed names (quotes, backslashes)' % len(F_EXPRS)
    chk.cov['paths_explored'] = paths
    chk.cov['evaluations'] = paths
    chk.cov['distinct_nontrivial'] = paths
    chk.cov['exhaustive'] = True
    from . import extras7
    for fn_ in ('references_per_assignment',):
        for pr in getattr(extras7, fn_)()[:2]:
            chk.violation(pr, {'extras7': fn_})
        chk.cov['traces_validated_against_impl'] += 1
    chk.cov.setdefault('bounds', {})['concrete_supplements_round7'] = ['references_per_assignment']
    return chk.finish('every configuration (registered keys x provider kind per key x grammar RREL) is one real load')


def replay(data):
    if isinstance(data, dict) and data.get('extras7'):
        from . import extras7
        pr = getattr(extras7, data['extras7'])()
        return bool(pr), pr[:2]
    if data.get('rrel_grammar_files'):
        pr = grammar_files_rrel_scenario()
        return bool(pr), pr[:3]
    if data.get('rrel_flags'):
        pr = grammar_rrel_flags_scenario()
        return bool(pr), pr[:3]
    if data.get('rrel_forms'):
        pr = rrel_forms_scenario()
        return bool(pr), pr[:3]
    reg = dict(data['registered'])
    falsy = reg.pop('falsy_provider_objects', False)
    bad, detail, exp = judge(reg, data['grammar_rrel'], falsy)
    return bad, detail
