"""
C03 — rule kinds determine what objects a model contains.

Three parts over the rule-kind family of the corpus (chains, diamonds and
cycles of abstract rules, match/common mixes):
 (static, reported separately) the live `_tx_type` of every rule equals the
   reference classification computed from the grammar AST;
 (S) per grammar and input length n <= N the solver shows that the compiled
   parser and the reference semantics agree on acceptance and on the number of
   objects created per rule (same obligation as C01: which rule yields which
   object is part of the fingerprint);
 (witness replay) one witness per accepted character-class string is loaded by
   the real textX: every object's class and every match-rule value must equal
   the reference model (abstract rule = first non-match reference of the
   matched alternative, else concatenated text); for every object o and every
   rule R of the grammar `textx_isinstance(o, R)` must terminate and be True
   exactly when R is o's rule, OBJECT, or o's rule is reachable from R through
   abstract-rule alternatives — once over textX's generated classes and once
   over Python user classes for all common and abstract rules (built in worker
   processes that have built other such meta-models before).
"""
import sys
import time

from ..common import Check, pmap, src_hash, tier, seed
from ..symtext import SymInput, Unsupported
from .. import corpus, pegcheck, gram
from ..pegcheck import Formulas, Z3, class_text
from . import c01

PROP = 'C03'


def corpus_list():
    gs = list(corpus.KINDS) + [g for g in corpus.BASIC if g['name'] in ('abstract', 'abstract-seq',
                                                                        'match-rule-choice', 'match-rule-multi')]
    if tier() == 'thorough':
        gs += corpus.random_corpus(seed() + 3, 30)
    return gs


# ---------------------------------------------------------------- reference inheritance
def first_nonmatch(e, kinds):
    """(set of rules that can be the first non-match reference of e, definite)"""
    k = e[0]
    if k == 'ref':
        if e[1] in kinds and kinds[e[1]] != 'match':
            return {e[1]}, True
        return set(), False
    if k == 'seq':
        out = set()
        for x in e[1]:
            s, d = first_nonmatch(x, kinds)
            out |= s
            if d:
                return out, True
        return out, False
    if k == 'alt':
        out, alld = set(), True
        for x in e[1]:
            s, d = first_nonmatch(x, kinds)
            out |= s
            alld = alld and d
        return out, alld
    if k in ('opt', 'star'):
        return first_nonmatch(e[1], kinds)[0], False
    if k == 'plus':
        return first_nonmatch(e[1], kinds)
    if k == 'ung':
        out = set()
        for x in e[1]:
            out |= first_nonmatch(x, kinds)[0]
        return out, False
    return set(), False


def ref_instance_of(rules):
    """{(cls_rule, R)}: an object of common rule cls_rule is an instance of R"""
    kinds = gram.rule_kinds(rules)
    direct = {}
    for name, params, body in rules:
        direct[name] = first_nonmatch(body, kinds)[0] if kinds[name] == 'abstract' else set()
    rel = set()
    for name in kinds:
        if kinds[name] != 'common':
            continue
        for r in kinds:
            # is `name` reachable from r through abstract alternatives?
            seen, todo = set(), [r]
            ok = (r == name)
            while todo and not ok:
                x = todo.pop()
                if x in seen:
                    continue
                seen.add(x)
                for y in direct.get(x, ()):
                    if y == name:
                        ok = True
                        break
                    todo.append(y)
            if ok:
                rel.add((name, r))
    return rel, kinds


def static_check(g):
    """live rule kinds vs reference"""
    mm = pegcheck.build_mm(g, **g['cfg'])
    rel, kinds = ref_instance_of(g['rules'])
    out = []
    for name, k in kinds.items():
        live = getattr(mm[name], '_tx_type', None)
        if live != k:
            out.append({'grammar': g['name'], 'kind': 'rule-kind', 'rule': name, 'live': live, 'reference': k})
    return out


def user_class_mm(g):
    """meta-model of g over Python user classes for every common and every
    abstract rule (built in a process that has built such meta-models before:
    per-class inheritance data must not leak between classes or meta-models)"""
    from textx import metamodel_from_str
    rel, kinds = ref_instance_of(g['rules'])

    def init(self, parent=None, **kw):
        if parent is not None:
            self.parent = parent
        for k, v in kw.items():
            setattr(self, k, v)
    classes = [type(nm, (object,), {'__init__': init}) for nm, k in kinds.items() if k in ('common', 'abstract')]
    if not classes:
        return None
    cfg = {k: v for k, v in g['cfg'].items() if k in pegcheck.MM_KEYS}
    mm = metamodel_from_str(pegcheck.render_grammar(g['rules']), classes=classes, **cfg)
    mm._verif_user_classes = {c.__name__: c for c in classes}
    return mm


def isinstance_check(g, mm, model):
    """textx_isinstance on every object of a loaded witness"""
    from textx import get_children, textx_isinstance
    rel, kinds = ref_instance_of(g['rules'])
    out = []
    objs = get_children(lambda x: True, model) if hasattr(type(model), '_tx_attrs') else []
    seen_cls = set()
    for o in objs:
        cn = type(o).__name__
        if cn in seen_cls:
            continue
        seen_cls.add(cn)
        uc = getattr(mm, '_verif_user_classes', None)
        if uc is not None and cn in uc and type(o) is not uc[cn]:
            out.append({'grammar': g['name'], 'kind': 'isinstance', 'cls': cn, 'rule': cn,
                        'got': 'object of %r' % type(o), 'expected': 'an instance of the user class'})
        for r in kinds:
            want = (cn, r) in rel
            old = sys.getrecursionlimit()
            sys.setrecursionlimit(300)
            try:
                got = textx_isinstance(o, mm[r])
            except RecursionError:
                got = 'RecursionError'
            finally:
                sys.setrecursionlimit(old)
            if got != want:
                out.append({'grammar': g['name'], 'kind': 'isinstance', 'cls': cn, 'rule': r, 'got': got,
                            'expected': want})
        if not textx_isinstance(o, mm['OBJECT']):
            out.append({'grammar': g['name'], 'kind': 'isinstance', 'cls': cn, 'rule': 'OBJECT', 'got': False,
                        'expected': True})
    return out


# ---------------------------------------------------------------- grammars spread over files
# the same short rule names in two files, on one inheritance path (main.Shape -> base.Basic -> base.Shape):
# rule kinds and the isinstance relation are per class, not per name
from ..gram import S, A, Str, Ref, Asg, Rule      # noqa: E402
MF = {
    'main': (['base'], [Rule('Model', Asg('shapes', '+=', Ref('Shape'))),
                        Rule('Shape', A(Ref('Basic'), Ref('Tri'))),
                        Rule('Tri', S(Str('tri'), Asg('name', '=', Ref('ID')))),
                        Rule('Group', A(Ref('Tri'), Ref('Leaf')))]),
    'base': ([], [Rule('Basic', A(Ref('Shape'), Ref('Leaf'))),
                  Rule('Shape', A(Ref('Circle'), Ref('Square'))),
                  Rule('Circle', S(Str('circle'), Asg('name', '=', Ref('ID')))),
                  Rule('Square', S(Str('square'), Asg('name', '=', Ref('ID')))),
                  Rule('Leaf', S(Str('leaf'), Asg('name', '=', Ref('ID')))),
                  Rule('Group', A(Ref('Circle'), Ref('Leaf')))]),
}
MF_MODEL = 'circle c square s leaf l tri t'


def mf_qualified():
    """one rule list with names '<file>.<rule>', references resolved by the documented order"""
    defined = {ns: {r[0] for r in rules} for ns, (imps, rules) in MF.items()}

    def owner(ns, name):
        if name in defined[ns]:
            return ns
        for i in MF[ns][0]:
            if name in defined[i]:
                return i
        return None

    def ren(ns, e):
        if isinstance(e, tuple):
            if e and e[0] == 'ref' and owner(ns, e[1]):
                return ('ref', owner(ns, e[1]) + '.' + e[1]) + tuple(e[2:])
            return tuple(ren(ns, x) for x in e)
        if isinstance(e, list):
            return [ren(ns, x) for x in e]
        return e
    out = []
    for ns, (imps, rules) in MF.items():
        for name, params, body in rules:
            out.append((ns + '.' + name, params, ren(ns, body)))
    return out


def multi_file_check():
    """[(problem text)] on the real metamodel compiled from files"""
    import os
    import shutil
    import tempfile
    from textx import metamodel_from_file, get_children, textx_isinstance
    rel, kinds = ref_instance_of(mf_qualified())
    tmp = tempfile.mkdtemp(prefix='c03m_')
    out = []
    try:
        for ns, (imps, rules) in MF.items():
            with open(os.path.join(tmp, ns + '.tx'), 'w') as f:
                f.write(''.join('import %s\n' % i for i in imps) + gram.render_grammar(rules))
        mm = metamodel_from_file(os.path.join(tmp, 'main.tx'))
        for q, k in kinds.items():
            ns, name = q.split('.')
            live = getattr(mm.namespaces[ns][name], '_tx_type', None)
            if live != k:
                out.append('rule %s is typed %r, reference %r' % (q, live, k))
        model = mm.model_from_str(MF_MODEL)
        for o in get_children(lambda x: True, model):
            oq = type(o)._tx_fqn
            for q in kinds:
                ns, name = q.split('.')
                old = sys.getrecursionlimit()
                sys.setrecursionlimit(300)
                try:
                    got = textx_isinstance(o, mm.namespaces[ns][name])
                except RecursionError:
                    got = 'RecursionError'
                finally:
                    sys.setrecursionlimit(old)
                if got != ((oq, q) in rel):
                    out.append('textx_isinstance(<%s>, %s) is %r, expected %r' % (oq, q, got, (oq, q) in rel))
        return out
    finally:
        shutil.rmtree(tmp, ignore_errors=True)


def obligation(item):
    gi, n, timeout_ms, nw, wlimit, known_ids = item
    g = corpus_list()[gi]
    c01._CORPUS = corpus_list()
    res = c01.obligation((gi, {}, n, timeout_ms, nw, wlimit, known_ids))
    # isinstance on the witnesses of this length
    res['isinstance'] = []
    res['isinstance_checked'] = 0
    if n <= nw and res.get('twin') == 'sat' and not str(res.get('verdict')).startswith('unsupported'):
        try:
            mm = pegcheck.build_mm(g, **g['cfg'])
            inp = SymInput.symbolic(n)
            f = Formulas(g, mm, inp, want_patched=False, want_ref=False)
            texts, exhausted, z2 = pegcheck.enumerate_classes(inp, f.acc_i, min(wlimit, 60), timeout_ms)
            mm_uc = user_class_mm(g)
            for t in texts:
                for m_, uc in ((mm, False), (mm_uc, True)):
                    if m_ is None:
                        continue
                    kind, val = pegcheck.real_load(m_, t)
                    if kind == 'ok':
                        res['isinstance_checked'] += 1
                        for b in isinstance_check(g, m_, val):
                            b['text'] = t
                            b['user_classes'] = uc
                            if len(res['isinstance']) < 4:
                                res['isinstance'].append(b)
        except Unsupported:
            pass
    return res


def main():
    import textx.lang as L
    import textx.model as M
    chk = Check(PROP, 'model_checking')
    quick = chk.tier == 'quick'
    N = 6 if quick else 8
    NW = 6 if quick else 7
    WL = 120 if quick else 500
    timeout_ms = 30000 if quick else 240000
    gs = corpus_list()
    statics = []
    for g in gs:
        statics += static_check(g)
    items = [(gi, n, timeout_ms, NW, WL, sorted(chk.known_ids | {c01.NODELESS})) for gi in range(len(gs))
             for n in range(0, N + 1)]
    items.sort(key=lambda it: -it[1])
    results = pmap(obligation, items)
    chk.cov['functions_encoded'] = src_hash(L.TextXVisitor._determine_rule_types, L.TextXVisitor._resolve_rule_refs,
                                            L.TextXVisitor.visit_textx_rule)
    chk.cov['replayed_through'] = src_hash(M.parse_tree_to_objgraph, M.textx_isinstance)
    chk.cov['bounds'] = {'input_chars': N, 'witness_chars': NW, 'witness_classes_per_obligation': WL,
                         'grammars': len(gs), 'solver_timeout_ms': timeout_ms}
    chk.cov['outside_claim'] = ['longer inputs', 'grammars outside the corpus', 'replacing object processors']
    chk.assumptions = ['Arpeggio 2.0.3 as modelled by sympeg (witnesses replayed)', 'reference classification and '
                       'inheritance computed from the grammar AST (verifx/props/c03.py)', 'z3']
    chk.cov['static_rule_kind_checks'] = sum(len(g['rules']) for g in gs)
    for s in statics:
        chk.violation('rule %s of grammar %s is typed %r, reference %r' % (s['rule'], s['grammar'], s['live'],
                                                                           s['reference']), s)
    for pr in multi_file_check()[:4]:
        chk.violation('grammar in two files (main.tx imports base.tx): %s' % pr, {'kind': 'multi-file'})
    chk.cov['bounds']['multi_file'] = 'one two-file grammar with clashing short names on one inheritance path, one model (concrete)'
    nontrivial = holds = 0
    seen = set()
    for it, (st, r, secs) in zip(items, results):
        if st != 'ok':
            chk.harness_error(r)
            continue
        chk.add_queries(r['queries'], r['solver_s'])
        chk.cov['traces_validated_against_impl'] += r['validated'] + r.get('isinstance_checked', 0)
        chk.cov['witness_replays'] = chk.cov.get('witness_replays', 0) + r['witnesses']
        if r['twin'] == 'sat':
            nontrivial += 1
        v = str(r['verdict'])
        if v.startswith('unsupported'):
            chk.cov['unsupported'] += 1
        elif v in ('unknown', 'budget'):
            chk.cov['inconclusive'] += 1
        elif v == 'holds':
            holds += 1
        for m_ in r['mismatch']:
            chk.cov['model_mismatches'] += 1
        for vv in r['violations']:
            key = (vv['grammar'], vv['kind'], str(vv['detail'])[:40])
            if key in seen:
                continue
            seen.add(key)
            chk.violation('%s on %r (grammar %s): %s' % (vv['kind'], vv['text'], vv['grammar'], vv['detail']), vv)
        for b in r.get('isinstance', []):
            key = (b['grammar'], b['cls'], b['rule'])
            if key in seen:
                continue
            seen.add(key)
            chk.violation('textx_isinstance(<%s>, %s) is %r, expected %r (grammar %s, input %r)' % (
                b['cls'], b['rule'], b['got'], b['expected'], b['grammar'], b['text']), b)
        chk.sample({'grammar': r['grammar'], 'n': r['n'], 'verdict': r['verdict'], 'witnesses': r['witnesses'],
                    'isinstance_models': r.get('isinstance_checked', 0)})
    chk.cov['distinct_nontrivial'] = nontrivial
    chk.cov['obligations'] = len(items)
    chk.cov['discharged'] = holds
    return chk.finish('one obligation per (grammar, input length) as in C01, restricted to the rule-kind family; '
                      'non-trivial = some input of that length is accepted')


def replay(data):
    if data.get('kind') == 'multi-file':
        pr = multi_file_check()
        return bool(pr), pr[:3]
    gs = corpus.ALL + corpus.random_corpus(seed() + 3, 30)
    g = next(x for x in gs if x['name'] == data['grammar'])
    mm = pegcheck.build_mm(g, **g['cfg'])
    if data.get('kind') == 'rule-kind':
        live = mm[data['rule']]._tx_type
        return live != data['reference'], {'live': live}
    if data.get('kind') == 'isinstance':
        if data.get('user_classes'):
            user_class_mm(corpus.KINDS[0])        # a meta-model over user classes was built before
            mm = user_class_mm(g)
        kind, val = pegcheck.real_load(mm, data['text'])
        bad = [b for b in isinstance_check(g, mm, val) if b['cls'] == data['cls'] and b['rule'] == data['rule']]
        return bool(bad), bad
    kind, detail, ce = c01.compare_one(g, mm, {}, data['text'])
    return kind in ('accept', 'model'), detail
