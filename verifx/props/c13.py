"""
C13 — object processors run once each, bottom-up, on a fully linked model.

Path-exhaustive (level P) over replacement decisions: whole real loads of
nested / recursive / abstract-containment models (one file, two files, import
cycle) with user classes and recording processors on every rule; every
processor call on a Leaf / Item may return a replacement (symbolic selector).
On every path:
  * per model file the processor calls equal the reference order (post-order
    over containment; own-rule processor, then the processor of the abstract
    rule that types the containing attribute; Model last), each exactly once;
  * every user-class __init__ of the whole load precedes the first processor
    call and no processor sees an unresolved reference;
  * a non-None return value replaces the object in its containing attribute
    (the own-rule processor's value dominates the abstract rule's).
"""
import re

from ..common import Check, pmap, src_hash
from . import lifecycle as LC

PROP = 'C13'


def file_objects(text):
    """reference post-order of one file's processor calls, from its text:
    [(rule, name)] (Box/Leaf own processor then Item; Model last)"""
    toks = re.findall(r'import\s+"[^"]*"|\{|\}|box|leaf|;|->|also|\w+', text)
    out = []
    stack = []
    i = 0
    while i < len(toks):
        t = toks[i]
        if t == 'box':
            stack.append(toks[i + 1])
            i += 3          # box name {
            continue
        if t == '}':
            name = stack.pop()
            out += [('Box', name), ('Item', name)]
        if t == 'leaf':
            name = toks[i + 1]
            out += [('Leaf', name), ('Item', name)]
            i += 2
            continue
        i += 1
    out.append(('Model', None))
    return out


def judge(obs):
    problems = []
    if obs['outcome'] != 'ok':
        return ['load failed without an injected fault: %s %s' % (obs['outcome'], obs.get('error'))]
    log = obs['log']
    files = LC.CASES[obs['case']]
    stale = [e for e in log if e[0] == 'stale']
    if stale:
        problems.append('a processor of an earlier, replaced registration still ran (%d calls, first on %s %r)' % (
            len(stale), stale[0][1], stale[0][3]))
    procs = [e for e in log if e[0] == 'proc']
    inits = [i for i, e in enumerate(log) if e[0] == 'init']
    first_proc = next((i for i, e in enumerate(log) if e[0] == 'proc'), None)
    if inits and first_proc is not None and max(inits) > first_proc:
        late = log[max(inits)]
        problems.append('user object %s %r initialised after a processor already ran' % (late[1], late[2]))
    for e in procs:
        if e[4]:
            problems.append('processor %s saw unresolved references in %s of %r' % (e[1], e[4], e[3]))
    # per file order
    owner = {}
    for fn, text in files.items():
        for rule, name in file_objects(text):
            if name is not None:
                owner[name] = fn
    seqs = {fn: [] for fn in files}
    models_seen = []
    for e in procs:
        rule, name = e[1], e[3]
        if rule == 'Model':
            models_seen.append(e[5])
            continue
        seqs[owner.get(name, 'main')].append((rule, name))
    for fn, text in files.items():
        exp = [x for x in file_objects(text) if x[0] != 'Model']
        if seqs[fn] != exp:
            problems.append('%s: processor calls %s, expected %s' % (fn, seqs[fn], exp))
    if len(models_seen) != len(files) or len(set(models_seen)) != len(files):
        problems.append('Model processor ran %d times for %d model files' % (len(models_seen), len(files)))
    # replacements
    want = {}
    for rule, oid in obs['replaced']:
        name = next(e[3] for e in procs if e[5] == oid)
        if rule == 'Leaf' or name not in want:
            want[name] = rule
    got = obs['model_facts'] or []
    # model_facts only walks the main model: restrict to main-file objects
    want_main = sorted((r, n) for n, r in want.items() if owner.get(n) == 'main')
    got_names = sorted((r, next(e[3] for e in procs if e[5] == oid)) for r, oid in got)
    if want_main != got_names:
        problems.append('replacements in the model: %s, expected %s' % (got_names, want_main))
    return problems


def explore(item):
    r = LC.explore(item)
    bad = []
    for obs in r['obs']:
        probs = judge(obs)
        if probs:
            bad.append({'case': obs['case'], 'variant': obs['variant'], 'replaced': len(obs['replaced']),
                        'problems': probs[:3]})
    return {'item': r['item'], 'paths': r['paths'], 'bad': bad[:5], 'nbad': len(bad)}


def main():
    import textx.model as M
    chk = Check(PROP, 'exploration')
    quick = chk.tier == 'quick'
    items = []
    for case in LC.CASES:
        for variant in (['plain'] if quick else LC.VARIANTS):
            items.append((case, variant, False, False, case != 'cycle' or not quick, 'runtime'))
    results = pmap(explore, items)
    chk.cov['functions_encoded'] = src_hash(M.parse_tree_to_objgraph, M._end_model_construction)
    chk.cov['bounds'] = {'cases': list(LC.CASES), 'replacement_selectors': 'every Leaf / Item processor call'}
    chk.cov['outside_claim'] = ['other grammars / models', 'processors that modify the model beyond returning a value']
    chk.assumptions = ['finite decision space enumerated exhaustively (selectors unconstrained: z3 decides nothing)']
    paths = 0
    for (st, r, secs) in results:
        if st != 'ok':
            chk.harness_error(r)
            continue
        paths += r['paths']
        for b in r['bad'][:1]:
            chk.cov['traces_validated_against_impl'] += 1
            chk.violation('%s/%s with %d replacement(s): %s' % (b['case'], b['variant'], b['replaced'],
                                                              b['problems']), {'item': r['item'], 'detail': b})
        chk.sample({'case': r['item'][0], 'variant': r['item'][1], 'paths': r['paths'], 'failing': r['nbad']})
    chk.cov['paths_explored'] = paths
    chk.cov['evaluations'] = paths
    chk.cov['distinct_nontrivial'] = paths
    chk.cov['exhaustive'] = True
    return chk.finish('one path per subset of processor calls that return a replacement, per case; each is a real load')


def replay(data):
    r = explore(tuple(data['item']))
    return r['nbad'] > 0, r['bad'][:1]
