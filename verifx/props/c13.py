"""
C13 — object processors run once each, bottom-up, on a fully linked model.

Path-exhaustive (level P) over replacement decisions: whole real loads of
nested / recursive / abstract-containment models (one file, two files, import
cycle) with user classes and recording processors on every rule; every
processor call on a Leaf / Item may return a replacement (symbolic selector).
On every path:
  * per model file the processor calls equal the reference order (post-order
    over containment; own-rule processor, then the processor of the abstract
    rule that types the containing attribute; Model last), each exactly once;
  * every user-class __init__ of the whole load precedes the first processor
    call and no processor sees an unresolved reference;
  * a non-None return value replaces the object in its containing attribute
    (the own-rule processor's value dominates the abstract rule's).
Second family: every subset of the rules of a recursive grammar has processors
(the other rules none), both orders of the recursive attribute — same clauses.
"""
import re

from ..common import Check, pmap, src_hash
from . import lifecycle as LC

PROP = 'C13'


def file_objects(text):
    """reference post-order of one file's processor calls, from its text:
    [(rule, name)] (Box/Leaf own processor then Item; Model last)"""
    toks = re.findall(r'import\s+"[^"]*"|\{|\}|box|leaf|;|->|also|\w+', text)
    out = []
    stack = []
    i = 0
    while i < len(toks):
        t = toks[i]
        if t == 'box':
            stack.append(toks[i + 1])
            i += 3          # box name {
            continue
        if t == '}':
            name = stack.pop()
            out += [('Box', name), ('Item', name)]
        if t == 'leaf':
            name = toks[i + 1]
            out += [('Leaf', name), ('Item', name)]
            i += 2
            continue
        i += 1
    out.append(('Model', None))
    return out


def judge(obs):
    problems = []
    if obs['outcome'] != 'ok':
        return ['load failed without an injected fault: %s %s' % (obs['outcome'], obs.get('error'))]
    log = obs['log']
    files = LC.CASES[obs['case']]
    stale = [e for e in log if e[0] == 'stale']
    if stale:
        problems.append('a processor of an earlier, replaced registration still ran (%d calls, first on %s %r)' % (
            len(stale), stale[0][1], stale[0][3]))
    procs = [e for e in log if e[0] == 'proc']
    inits = [i for i, e in enumerate(log) if e[0] == 'init']
    first_proc = next((i for i, e in enumerate(log) if e[0] == 'proc'), None)
    if inits and first_proc is not None and max(inits) > first_proc:
        late = log[max(inits)]
        problems.append('user object %s %r initialised after a processor already ran' % (late[1], late[2]))
    for e in procs:
        if e[4]:
            problems.append('processor %s saw unresolved references in %s of %r' % (e[1], e[4], e[3]))
    # per file order
    owner = {}
    for fn, text in files.items():
        for rule, name in file_objects(text):
            if name is not None:
                owner[name] = fn
    seqs = {fn: [] for fn in files}
    models_seen = []
    for e in procs:
        rule, name = e[1], e[3]
        if rule == 'Model':
            models_seen.append(e[5])
            continue
        seqs[owner.get(name, 'main')].append((rule, name))
    for fn, text in files.items():
        exp = [x for x in file_objects(text) if x[0] != 'Model']
        if seqs[fn] != exp:
            problems.append('%s: processor calls %s, expected %s' % (fn, seqs[fn], exp))
    if len(models_seen) != len(files) or len(set(models_seen)) != len(files):
        problems.append('Model processor ran %d times for %d model files' % (len(models_seen), len(files)))
    # replacements
    want = {}
    for rule, oid in obs['replaced']:
        name = next(e[3] for e in procs if e[5] == oid)
        if rule == 'Leaf' or name not in want:
            want[name] = rule
    got = obs['model_facts'] or []
    # model_facts only walks the main model: restrict to main-file objects
    want_main = sorted((r, n) for n, r in want.items() if owner.get(n) == 'main')
    got_names = sorted((r, next(e[3] for e in procs if e[5] == oid)) for r, oid in got)
    if want_main != got_names:
        problems.append('replacements in the model: %s, expected %s' % (got_names, want_main))
    return problems


# ---------------------------------------------------------------- which rules have processors
# every subset of the rules of a recursive grammar gets recording processors (the others none), for both
# orders of the recursive and the non-recursive containment attribute: the registered ones run exactly once
# per object, children first, whatever else is (not) registered
PS_RULES = ['Model', 'Group', 'Sub', 'Member', 'Item', 'Note']
PS_TREE = [('g1', [('g11', [], [('Item', 'i111'), ('Note', 'n11', 'x')]), ('g12', [('g121', [], [('Item', 'i1211')])], [])],
            [('Item', 'i1'), ('Note', 'n1', None)]),
           ('g2', [], [('Note', 'n2', 'y')])]


def ps_grammar(subs_first):
    # the containment cycle has length two: Group -> Sub -> Group
    body = "sub=Sub? members*=Member" if subs_first else "members*=Member sub=Sub?"
    return ("Model: groups+=Group;\nGroup: 'group' name=ID '{' %s '}';\nSub: 'sub' '{' groups+=Group '}';\n"
            "Member: Item | Note;\n"
            "Item: 'item' name=ID;\nNote: 'note' name=ID ('[' inner=Item ']')?;" % body)


def ps_text(subs_first):
    def member(m):
        if m[0] == 'Item':
            return 'item %s' % m[1]
        return 'note %s%s' % (m[1], ' [ item %s ]' % m[2] if m[2] else '')

    def group(g):
        name, subs, members = g
        parts = (['sub { %s }' % ' '.join(group(x) for x in subs)] if subs else []), [member(m) for m in members]
        if not subs_first:
            parts = parts[::-1]
        return 'group %s { %s }' % (name, ' '.join(parts[0] + parts[1]))
    return ' '.join(group(g) for g in PS_TREE)


def ps_expected(subs_first, registered):
    out = []

    def member(m):
        if m[0] == 'Note' and m[2]:
            out.append(('Item', m[2]))
        out.append((m[0], m[1]))
        out.append(('Member', m[1]))

    def group(g):
        name, subs, members = g
        def sub():
            if subs:
                for x in subs:
                    group(x)
                out.append(('Sub', None))
        steps = [sub, lambda: [member(m) for m in members]]
        for st in (steps if subs_first else steps[::-1]):
            st()
        out.append(('Group', name))
    for g in PS_TREE:
        group(g)
    out.append(('Model', None))
    return [e for e in out if e[0] in registered]


def processor_subsets(item):
    import z3
    from ..symx import Ctx
    subs_first, = item
    from textx import metamodel_from_str
    ctx = Ctx(10000, max_paths=5000, free_selectors=True)

    def path(c):
        registered = [r for r in PS_RULES if c.branch(z3.Bool('processor_on_%s' % r))]
        mm = metamodel_from_str(ps_grammar(subs_first))
        log = []

        def proc(rule):
            def p(obj):
                log.append((rule, getattr(obj, 'name', None)))
                if rule == 'Item':
                    return 'item:%s' % obj.name        # replaces the object
                return None
            return p
        mm.register_obj_processors({r: proc(r) for r in registered})
        try:
            m = mm.model_from_str(ps_text(subs_first))
        except Exception as e:  # noqa
            return (registered, ['load raised %s: %s' % (type(e).__name__, e)])
        problems = []
        exp = ps_expected(subs_first, registered)
        if log != exp:
            problems.append('processor calls %s, expected %s' % (log, exp))
        # replacements by the Item processor

        def items_of(g):
            out = [x for x in g.members if isinstance(x, str) or type(x).__name__ == 'Item']
            out += [x.inner for x in g.members if type(x).__name__ == 'Note' and x.inner is not None]
            for s_ in (g.sub.groups if g.sub is not None else []):
                out += items_of(s_)
            return out
        its = [x for g in m.groups for x in items_of(g)]
        if 'Item' in registered and not all(isinstance(x, str) and x.startswith('item:') for x in its):
            problems.append('Item objects not replaced by the value their processor returned: %s' % (
                [x if isinstance(x, str) else x.name for x in its],))
        if 'Item' not in registered and any(isinstance(x, str) for x in its):
            problems.append('Item objects replaced although no Item processor is registered')
        return (registered, problems)
    outs = ctx.explore(path)
    return {'subs_first': subs_first, 'paths': ctx.paths, 'bad': [(r, p) for r, p in outs if p][:3]}


def imported_grammar_scenario():
    """the grammar is spread over files (main.tx imports a.tx, a.tx imports b.tx): objects of rules that
    the main grammar sees only through a transitive import have processors like all others"""
    import os
    import shutil
    import tempfile
    from textx import metamodel_from_file
    layouts = [
        ('main imports a imports b',
         {'main.tx': "import a\nModel: xs+=A ys*=Y;\nY: 'y' name=ID a=A?;",
          'a.tx': "import b\nA: 'a' name=ID b=B;",
          'b.tx': "B: 'b' name=ID cs+=C;\nC: 'c' name=ID;"}),
        # a grammar file named like the package directory next to it (main imports a, a imports a.b)
        ('main imports a imports a.b (a.tx next to the directory a/)',
         {'main.tx': "import a\nModel: xs+=A ys*=Y;\nY: 'y' name=ID a=A?;",
          'a.tx': "import a.b\nA: 'a' name=ID b=B;",
          'a/b.tx': "B: 'b' name=ID cs+=C;\nC: 'c' name=ID;"}),
    ]
    text = 'a a1 b b1 c c1 c c2 a a2 b b2 c c3 y y1 a a3 b b3 c c4'
    exp = [('C', 'c1'), ('C', 'c2'), ('B', 'b1'), ('A', 'a1'), ('C', 'c3'), ('B', 'b2'), ('A', 'a2'),
           ('C', 'c4'), ('B', 'b3'), ('A', 'a3'), ('Y', 'y1'), ('Model', None)]
    # the root object itself is of a rule of a transitively imported grammar
    layouts.append(('root rule reduces to a rule of a transitively imported grammar',
                    {'main.tx': "import mid\nRoot: Wrapped;", 'mid.tx': "import leaf\nWrapped: Thing;",
                     'leaf.tx': "Thing: 't' name=ID parts+=Part;\nPart: 'p' name=ID;"}))
    out = []
    for label, files in layouts:
        tmp = tempfile.mkdtemp(prefix='c13g_')
        try:
            for fn, t in files.items():
                os.makedirs(os.path.dirname(os.path.join(tmp, fn)), exist_ok=True)
                with open(os.path.join(tmp, fn), 'w') as f:
                    f.write(t)
            mm = metamodel_from_file(os.path.join(tmp, 'main.tx'))
            log = []
            rules = ('Thing', 'Part') if 'leaf.tx' in files else ('Model', 'A', 'B', 'C', 'Y')
            mm.register_obj_processors({r: (lambda o, r=r: log.append((r, getattr(o, 'name', None)))) for r in rules})
            t_, e_ = (('t t1 p p1 p p2', [('Part', 'p1'), ('Part', 'p2'), ('Thing', 't1')]) if 'leaf.tx' in files
                      else (text, exp))
            try:
                mm.model_from_str(t_)
            except Exception as e:  # noqa
                log = '%s: %s' % (type(e).__name__, e)
            if log != e_:
                out.append('grammar in several files (%s): processor calls %s, expected %s' % (label, log, e_))
        finally:
            shutil.rmtree(tmp, ignore_errors=True)
    return out


def reload_after_failing_processor(global_repo):
    """a processor fails during one load; the next load of the same file (and of another file importing the
    same library) delivers models in which every object was processed exactly once"""
    import os
    import shutil
    import tempfile
    from textx import metamodel_from_str, get_children
    import textx.scoping.providers as P
    tmp = tempfile.mkdtemp(prefix='c13r_')
    problems = []
    try:
        files = {'lib.m': 'leaf l1; box lb { leaf l2 -> l1; }', 'main': 'import "lib.m" leaf m1 -> l2; box mb { leaf m2; }',
                 'other': 'import "lib.m" leaf o1 -> l1;'}
        for fn, t in files.items():
            with open(os.path.join(tmp, fn), 'w') as f:
                f.write(t)
        mm = metamodel_from_str(LC.GRAMMAR, global_repository=global_repo)
        mm.register_scope_providers({'*.*': P.PlainNameImportURI()})
        state = {'fail_on': 'm2', 'count': {}}

        def proc(o):
            if o.name == state['fail_on']:
                raise ValueError('processor rejects %s' % o.name)
            state['count'][id(o)] = state['count'].get(id(o), 0) + 1
        mm.register_obj_processors({'Leaf': proc, 'Box': proc})
        try:
            mm.model_from_file(os.path.join(tmp, 'main'))
            return ['harness: the load with a failing processor succeeds']
        except ValueError:
            pass
        state['fail_on'] = None
        for fn in ('main', 'other'):
            m = mm.model_from_file(os.path.join(tmp, fn))
            models = [m] + list(m._tx_model_repository.all_models)
            seen = set()
            for mod in models:
                for o in get_children(lambda x: type(x).__name__ in ('Leaf', 'Box'), mod):
                    if id(o) in seen:
                        continue
                    seen.add(id(o))
                    n = state['count'].get(id(o), 0)
                    if n != 1:
                        problems.append('after a load that failed in a processor (global repository %s): %s %r of the '
                                        'model delivered for %s was processed %d times' % (global_repo, type(o).__name__, o.name, fn, n))
        return problems[:3]
    finally:
        shutil.rmtree(tmp, ignore_errors=True)


def abstract_with_match_alternative():
    """an abstract rule with match-rule alternatives (Value: INT | STRING | Obj) typing a list: the processor
    of the abstract rule runs once per element (objects and primitive values alike), after the element's own"""
    from textx import metamodel_from_str
    mm = metamodel_from_str("Model: vals+=Value;\nValue: INT | STRING | Obj;\nObj: 'o' name=ID;")
    log = []
    mm.register_obj_processors({'Value': lambda v: log.append(('Value', getattr(v, 'name', v))),
                                'Obj': lambda o: log.append(('Obj', o.name))})
    try:
        mm.model_from_str('o a 5 "s" o b')
    except Exception as e:  # noqa
        return ['Value: INT | STRING | Obj with processors on Value and Obj: load raised %s: %s' % (type(e).__name__, e)]
    exp = [('Obj', 'a'), ('Value', 'a'), ('Value', 5), ('Value', 's'), ('Obj', 'b'), ('Value', 'b')]
    if log != exp:
        return ['Value: INT | STRING | Obj: processor calls %s, expected %s' % (log, exp)]
    return []


def replay_subset(subs_first, registered):
    res = processor_subsets((subs_first,))
    for reg, probs in res['bad']:
        if sorted(reg) == sorted(registered):
            return True, probs[:2]
    return bool(res['bad']), res['bad'][:1]


def explore(item):
    r = LC.explore(item)
    bad = []
    for obs in r['obs']:
        probs = judge(obs)
        if probs:
            bad.append({'case': obs['case'], 'variant': obs['variant'], 'replaced': len(obs['replaced']),
                        'problems': probs[:3]})
    return {'item': r['item'], 'paths': r['paths'], 'bad': bad[:5], 'nbad': len(bad)}


def main():
    import textx.model as M
    chk = Check(PROP, 'exploration')
    quick = chk.tier == 'quick'
    items = []
    for case in LC.CASES:
        for variant in (['plain'] if quick else LC.VARIANTS):
            items.append((case, variant, False, False, case != 'cycle' or not quick, 'runtime'))
    results = pmap(explore, items)
    chk.cov['functions_encoded'] = src_hash(M.parse_tree_to_objgraph, M._end_model_construction)
    chk.cov['bounds'] = {'cases': list(LC.CASES), 'replacement_selectors': 'every Leaf / Item processor call'}
    chk.cov['outside_claim'] = ['other grammars / models', 'processors that modify the model beyond returning a value']
    chk.assumptions = ['finite decision space enumerated exhaustively (selectors unconstrained: z3 decides nothing)']
    paths = 0
    for (st, r, secs) in results:
        if st != 'ok':
            chk.harness_error(r)
            continue
        paths += r['paths']
        for b in r['bad'][:1]:
            chk.cov['traces_validated_against_impl'] += 1
            chk.violation('%s/%s with %d replacement(s): %s' % (b['case'], b['variant'], b['replaced'],
                                                              b['problems']), {'item': r['item'], 'detail': b})
        chk.sample({'case': r['item'][0], 'variant': r['item'][1], 'paths': r['paths'], 'failing': r['nbad']})
    for (st, r, secs) in pmap(processor_subsets, [(True,), (False,)]):
        if st != 'ok':
            chk.harness_error(r)
            continue
        paths += r['paths']
        for reg, probs in r['bad'][:1]:
            chk.cov['traces_validated_against_impl'] += 1
            chk.violation('processors registered on %s only (recursive attribute %s): %s' % (
                reg, 'first' if r['subs_first'] else 'last', probs[:2]),
                {'processor_subset': reg, 'subs_first': r['subs_first']})
    for pr in imported_grammar_scenario():
        chk.cov['traces_validated_against_impl'] += 1
        chk.violation(pr, {'imported_grammar': True})
    for pr in abstract_with_match_alternative():
        chk.cov['traces_validated_against_impl'] += 1
        chk.violation(pr, {'abstract_match_alt': True})
    for gr in (False, True):
        for pr in reload_after_failing_processor(gr):
            chk.cov['traces_validated_against_impl'] += 1
            if pr.startswith('harness'):
                chk.harness_error(pr)
            else:
                chk.violation(pr, {'reload_after_failure': gr})
    chk.cov['bounds']['imported_grammar'] = 'one grammar in three files with a transitive import, processors on every rule (concrete)'
    chk.cov['bounds']['processor_subsets'] = 'every subset of %s x 2 attribute orders on one recursive model' % PS_RULES
    chk.cov['paths_explored'] = paths
    chk.cov['evaluations'] = paths
    chk.cov['distinct_nontrivial'] = paths
    chk.cov['exhaustive'] = True
    from . import extras7
    for fn_ in ('equal_root_models',):
        for pr in getattr(extras7, fn_)()[:2]:
            chk.violation(pr, {'extras7': fn_})
        chk.cov['traces_validated_against_impl'] += 1
    chk.cov.setdefault('bounds', {})['concrete_supplements_round7'] = ['equal_root_models']
    return chk.finish('one path per subset of processor calls that return a replacement, per case; each is a real load')


def replay(data):
    if isinstance(data, dict) and data.get('extras7'):
        from . import extras7
        pr = getattr(extras7, data['extras7'])()
        return bool(pr), pr[:2]
    if 'reload_after_failure' in data:
        pr = reload_after_failing_processor(data['reload_after_failure'])
        return bool(pr), pr
    if data.get('abstract_match_alt'):
        pr = abstract_with_match_alternative()
        return bool(pr), pr
    if data.get('imported_grammar'):
        pr = imported_grammar_scenario()
        return bool(pr), pr
    if 'processor_subset' in data:
        return replay_subset(data['subs_first'], data['processor_subset'])
    r = explore(tuple(data['item']))
    return r['nbad'] > 0, r['bad'][:1]
