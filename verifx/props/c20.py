"""
C20 — ignore_case makes grammar literals case-insensitive.

Relational solver obligation on the live parser model compiled with
ignore_case=True (a case-sensitive metamodel of the same grammar is built first
in the same process, as a user would): two symbolic inputs s, s' of equal
length n <= N whose characters are pairwise equal up to letter case.  Over the
corpus used here every matcher is case-agnostic once ignore_case reaches it
(string / regex literals, separators, keywords with autokwd, ID / INT / STRING),
so the property's "case of literal-matched text" is strengthened to "case
anywhere":
        acc(s) != acc(s')  or  both accept with different fingerprints    UNSAT
(fingerprint = objects per rule, values per attribute).  Witness replay: for
solver-chosen pairs the two real models must be equal up to the case of string
values, and each ID / regex value must appear verbatim in its own input.
"""
import z3

from ..alg import And, Or, Not, Xor, Eq
from ..common import Check, pmap, src_hash, tier
from ..symtext import SymInput, CHR2CODE, Unsupported
from ..sympeg import SymPeg, FpIndex
from .. import corpus, pegcheck, modelcmp
from ..pegcheck import Z3, real_load

PROP = 'C20'


def corpus_list():
    gs = [g for g in corpus.KEYWORDS]
    gs += [g for g in corpus.BASIC if g['name'] in ('seq-choice', 'star-sep', 'match-regex', 'str-assign',
                                                    'ung-optional', 'pred-not', 'comment-line')]
    return gs


def same_fold(c, d):
    """z3: characters c and d are equal up to letter case"""
    up = z3.And(z3.UGE(c, 65), z3.ULE(c, 90))
    lo = z3.And(z3.UGE(c, 97), z3.ULE(c, 122))
    return z3.Or(c == d, z3.And(up, d == c + 32), z3.And(lo, d == c - 32),
                 z3.And(c == 128, d == 129), z3.And(c == 129, d == 128))


def build(g, n, autokwd):
    # a user may well have a case-sensitive metamodel of the same grammar around
    pegcheck.build_mm(g, ignore_case=False, autokwd=autokwd)
    mm = pegcheck.build_mm(g, ignore_case=True, autokwd=autokwd)
    s1 = SymInput.symbolic(n, 'c')
    s2 = SymInput.symbolic(n, 'd')
    fi = FpIndex(n + 2)
    root = mm._parser_blueprint.parser_model
    a1, _, f1 = SymPeg.for_metamodel(mm, s1, fpindex=fi).accept_attrs(root)
    a2, _, f2 = SymPeg.for_metamodel(mm, s2, fpindex=fi).accept_attrs(root)
    return mm, s1, s2, a1, f1, a2, f2


def grammar_literals(g):
    from .. import gram
    out = set()
    for name, params, body in g['rules']:
        for x in gram.subexprs(body):
            if x[0] == 'str':
                out.add(x[1])
    return out


def verbatim_problem(g, canon, text):
    """every string value is the text as written in its own input (regex / ID / STRING matches), or the
    grammar's spelling of a string literal (string matches are reported as spelled in the grammar)"""
    lits = grammar_literals(g) if g is not None else set()

    def walk(x):
        if isinstance(x, dict):
            for k, v in x.items():
                if k.startswith('_'):
                    continue
                r = walk(v)
                if r:
                    return r
        elif isinstance(x, (list, tuple)):
            for v in x:
                r = walk(v)
                if r:
                    return r
        elif isinstance(x, str) and x and x not in text and x not in lits and chr(92) not in text:
            return x
        return None
    return walk(canon)


def compare_real(mm, t1, t2, g=None):
    k1, m1 = real_load(mm, t1)
    k2, m2 = real_load(mm, t2)
    if (k1 == 'syntax') != (k2 == 'syntax'):
        return True, 'accepted: %s vs %s' % (k1 != 'syntax', k2 != 'syntax')
    if k1 != 'ok' or k2 != 'ok':
        return (k1 != k2), '%s vs %s' % (k1, k2)
    c1, c2 = modelcmp.canon_real(m1), modelcmp.canon_real(m2)

    def low(x):
        if isinstance(x, dict):
            return {k: low(v) for k, v in x.items()}
        if isinstance(x, list):
            return [low(v) for v in x]
        if isinstance(x, str):
            return x.lower()
        return x
    if not modelcmp.same(low(c1), low(c2)):
        return True, 'models differ: %s' % modelcmp.first_diff(low(c1), low(c2))
    for c, t in ((c1, t1), (c2, t2)):
        v = verbatim_problem(g, c, t)
        if v is not None:
            return True, 'the value %r does not appear in its input %r' % (v, t)
    return False, 'ok'


def obligation(item):
    gi, n, autokwd, timeout_ms = item
    g = corpus_list()[gi]
    res = {'grammar': g['name'], 'n': n, 'autokwd': autokwd, 'queries': {}, 'solver_s': 0.0, 'violations': [],
           'mismatch': [], 'validated': 0, 'twin': None, 'verdict': None}
    try:
        mm, s1, s2, a1, f1, a2, f2 = build(g, n, autokwd)
    except Unsupported as e:
        res['verdict'] = 'unsupported: %s' % e
        return res
    z = Z3(timeout_ms)
    z.add(*s1.domain())
    z.add(*s2.domain())
    for c, d in zip(s1.chars, s2.chars):
        z.add(same_fold(c, d))
    # twin: an accepted pair that really differs in case
    differs = Or(*[c != d for c, d in zip(s1.chars, s2.chars)]) if n else False
    res['twin'] = z.check(And(a1, differs)) if n else z.check(a1)
    if res['twin'] == 'sat' and n:
        t1, t2 = s1.decode(z.model()), s2.decode(z.model())
        bad, detail = compare_real(mm, t1, t2, g)
        res['validated'] += 2
        if bad:
            res['violations'].append({'grammar': g['name'], 'autokwd': autokwd, 's': t1, 's2': t2, 'detail': detail})
    diff = Or(Xor(a1, a2), And(a1, a2, Not(Eq(f1, f2))))
    tries = 0
    z.push()
    z.add(diff)
    while True:
        r = z.check()
        if r != 'sat':
            res['verdict'] = 'holds' if r == 'unsat' else 'unknown'
            break
        t1, t2 = s1.decode(z.model()), s2.decode(z.model())
        bad, detail = compare_real(mm, t1, t2, g)
        res['validated'] += 2
        tries += 1
        if bad:
            res['violations'].append({'grammar': g['name'], 'autokwd': autokwd, 's': t1, 's2': t2, 'detail': detail})
            res['verdict'] = 'violated'
            break
        res['mismatch'].append({'s': t1, 's2': t2})
        z.add(Or(*[c != CHR2CODE[ch] for c, ch in zip(s1.chars, t1)] +
                 [d != CHR2CODE[ch] for d, ch in zip(s2.chars, t2)]))
        if tries > 5:
            res['verdict'] = 'budget'
            break
    z.pop()
    res['queries'] = z.queries
    res['solver_s'] = z.secs
    return res


def main():
    import textx.lang as L
    chk = Check(PROP, 'model_checking')
    quick = chk.tier == 'quick'
    N = 6 if quick else 8
    timeout_ms = 60000 if quick else 300000
    gs = corpus_list()
    items = [(gi, n, ak, timeout_ms) for gi in range(len(gs)) for n in range(0, N + 1) for ak in (False, True)]
    items.sort(key=lambda it: -it[1])
    results = pmap(obligation, items)
    chk.cov['functions_encoded'] = src_hash(L.TextXVisitor.visit_str_match, L.TextXVisitor.visit_re_match,
                                            L.TextXVisitor.__init__, L.TextXVisitor.visit_textx_model)
    chk.cov['bounds'] = {'input_chars_each': N, 'grammars': len(gs), 'autokwd': [False, True],
                         'solver_timeout_ms': timeout_ms}
    chk.cov['outside_claim'] = ['longer inputs', 'grammars outside the corpus', 'the BOOL base type (compiled without the flag)',
                                'case pairs outside ASCII letters and the one non-ASCII pair of the alphabet']
    chk.assumptions = ['Arpeggio 2.0.3 as modelled by sympeg (witness pairs replayed)', 'z3']
    nontrivial = holds = 0
    for it, (st, r, secs) in zip(items, results):
        if st != 'ok':
            chk.harness_error(r)
            continue
        chk.add_queries(r['queries'], r['solver_s'])
        chk.cov['traces_validated_against_impl'] += r['validated']
        if r['twin'] == 'sat':
            nontrivial += 1
        v = str(r['verdict'])
        if v.startswith('unsupported'):
            chk.cov['unsupported'] += 1
        elif v in ('unknown', 'budget'):
            chk.cov['inconclusive'] += 1
        elif v == 'holds':
            holds += 1
        chk.cov['model_mismatches'] += len(r['mismatch'])
        for vv in r['violations'][:1]:
            chk.violation('grammar %s (autokwd=%s): %r vs %r: %s' % (vv['grammar'], vv['autokwd'], vv['s'], vv['s2'],
                                                                   vv['detail']), vv)
        chk.sample({'grammar': r['grammar'], 'n': r['n'], 'autokwd': r['autokwd'], 'verdict': r['verdict']})
    chk.cov['distinct_nontrivial'] = nontrivial
    chk.cov['obligations'] = len(items)
    chk.cov['discharged'] = holds
    return chk.finish('one obligation per (grammar, input length, autokwd): z3 query over two inputs equal up to letter '
                      'case; non-trivial = an accepted pair that differs in case exists (twin)')


def replay(data):
    g = next(x for x in corpus.ALL if x['name'] == data['grammar'])
    pegcheck.build_mm(g, ignore_case=False, autokwd=data['autokwd'])
    mm = pegcheck.build_mm(g, ignore_case=True, autokwd=data['autokwd'])
    return compare_real(mm, data['s'], data['s2'], g)
