"""
C02 — assignments never lose, duplicate or reorder matched values.

Solver obligations per grammar of the repeated-assignment family and input
length n <= N, over the live parser model and the live attribute
multiplicities computed by textx/lang.py:
  (a) for every attribute the metamodel types as single-valued:
        exists s: accepted(s) and some object frame assigns it twice    UNSAT
      (a second plain assignment either raises 'Multiple assignments' or
      silently overwrites a falsy first value — model.py);
  (b) an attribute typed as a list although, syntactically, no object can ever
      collect two values (reference analysis on the grammar AST) is a violation;
      for list attributes the solver is asked for a witness with two values
      (not finding one inside the bound is reported as undecided).
Order / exactly-once (witness replay): one witness per accepted
character-class string is loaded by the real textX and compared with the
reference model (values in input order, nothing lost) — once over textX's
generated classes and once over Python user classes that were used before
with a grammar of opposite multiplicities (stale per-class state).
"""
import time

from ..common import Check, pmap, src_hash, tier, seed
from ..symtext import SymInput, Unsupported
from .. import corpus, pegcheck, gram
from ..pegcheck import Formulas, Z3, class_text, real_load
from .c01 import compare_one, explained_by_nodeless

PROP = 'C02'


def corpus_list():
    gs = list(corpus.MULTI)
    if tier() == 'thorough':
        gs += [g for g in corpus.BASIC + corpus.KINDS if 'nodeless' not in g['tags']]
        gs += [g for g in corpus.random_corpus(seed() + 7, 60)]
    return gs


def plain_tags(g):
    tags = []
    for name, params, body in g['rules']:
        for x in gram.subexprs(body):
            if x[0] == 'asg' and x[2] == '=' and (name, x[1]) not in tags:
                tags.append((name, x[1]))
    return tags


def live_mult(mm, tag):
    return mm[tag[0]]._tx_attrs[tag[1]].mult


def check_text(g, mm, text, tag):
    """real behaviour on a solver witness of a double assignment"""
    kind, val = real_load(mm, text)
    if kind == 'semantic' and 'Multiple assignments' in str(val):
        return True, "accepted input fails with %s" % val
    if kind == 'ok':
        k2, detail, ce = compare_one(g, mm, {}, text)
        if k2 == 'model':
            return True, 'value lost: ' + str(detail)
        return False, 'loads and equals the reference model'
    return False, 'real outcome %s: %s' % (kind, val)


def reused_user_class_mm(g, mm):
    """meta-model of g over Python user classes that were used before, in the
    same process, with another grammar that gives every attribute the opposite
    multiplicity (scalar <-> list) and that has built one object of each class.
    Returns None when g has no common rule."""
    from textx import metamodel_from_str
    from textx.const import RULE_COMMON
    names = [r[0] for r in g['rules']]
    commons = [nm for nm in names if mm[nm]._tx_type == RULE_COMMON and mm[nm]._tx_attrs]
    if not commons:
        return None

    def init(self, parent=None, **kw):
        if parent is not None:
            self.parent = parent
        for k, v in kw.items():
            setattr(self, k, v)
    classes = [type(nm, (object,), {'__init__': init}) for nm in commons]
    prior = ["Prior_: objs_+=Any_;", "Any_: %s;" % ' | '.join(commons)]
    for nm in commons:
        parts = []
        for a in mm[nm]._tx_attrs.values():
            parts.append("('%s' %s=INT)?" % (a.name, a.name) if a.mult in ('0..*', '1..*')
                         else "('%s' %s+=INT)*" % (a.name, a.name))
        prior.append("%s: '%s' %s;" % (nm, nm, ' '.join(parts)))
    pm = metamodel_from_str('\n'.join(prior), classes=classes)
    pm.model_from_str(' '.join(commons))
    cfg = {k: v for k, v in g['cfg'].items() if k in pegcheck.MM_KEYS}
    return metamodel_from_str(pegcheck.render_grammar(g['rules']), classes=classes, **cfg)


def obligation(item):
    gi, n, timeout_ms, nw, wlimit = item
    g = corpus_list()[gi]
    res = {'grammar': g['name'], 'n': n, 'queries': {}, 'solver_s': 0.0, 'violations': [],
           'mismatch': [], 'validated': 0, 'per_tag': {}, 'witnesses': 0, 'nontrivial': 0,
           'undecided': 0, 'discharged': 0, 'obligations': 0}
    try:
        mm = pegcheck.build_mm(g, **g['cfg'])
        tags = plain_tags(g)
        inp = SymInput.symbolic(n)
        f = Formulas(g, mm, inp, want_patched=False, want_ref=False, single=tags)
    except Unsupported as e:
        res['unsupported'] = str(e)
        return res
    z = Z3(timeout_ms)
    z.add(*inp.domain())
    rules = {r[0]: r for r in g['rules']}
    for tag in tags:
        lm = live_mult(mm, tag)
        single = lm in ('1', '0..1')
        refm = gram.ref_multiplicity(rules[tag[0]][2], tag[1])
        dup = f.dup.get(tag, False)
        r = z.check(dup)
        res['per_tag']['%s.%s' % tag] = {'live_mult': lm, 'reference': refm, 'two_values_witness': r}
        if single:
            res['obligations'] += 1
            if r == 'unsat':
                res['discharged'] += 1
            elif r == 'sat':
                text = class_text(inp, z.model())
                bad, detail = check_text(g, mm, text, tag)
                res['validated'] += 1
                if bad:
                    res['violations'].append({'grammar': g['name'], 'text': text, 'attr': '%s.%s' % tag,
                                              'kind': 'double-assignment', 'detail': detail,
                                              'live_mult': lm})
                else:
                    res['mismatch'].append({'text': text, 'attr': '%s.%s' % tag, 'detail': detail})
            else:
                res['undecided'] += 1
        else:
            if refm == 'one' and not gram.uses_list_op(rules[tag[0]][2], tag[1]):
                res['violations'].append({'grammar': g['name'], 'attr': '%s.%s' % tag, 'kind': 'spurious-list',
                                          'detail': 'typed %s although one object can never collect '
                                                    'two values' % lm, 'live_mult': lm, 'text': None})
            elif r == 'sat':
                res['nontrivial'] += 1
    # vacuity: something is accepted at this length
    if z.check(f.acc_i) == 'sat':
        res['nontrivial'] += 1
        if n <= nw:
            texts, exhausted, z2 = pegcheck.enumerate_classes(inp, f.acc_i, wlimit, timeout_ms)
            for k in z.queries:
                z.queries[k] += z2.queries[k]
            z.secs += z2.secs
            mm_uc = reused_user_class_mm(g, mm)
            for text in texts:
                res['witnesses'] += 1
                for m_, kd in ((mm, 'model'), (mm_uc, 'model-reused-user-classes')):
                    if m_ is None:
                        continue
                    kind, detail, ce = compare_one(g, m_, {}, text)
                    res['validated'] += 1
                    if kind == 'model' and not explained_by_nodeless(ce) and len(res['violations']) < 3:
                        res['violations'].append({'grammar': g['name'], 'text': text, 'kind': kd,
                                                  'detail': detail, 'attr': None})
    res['queries'] = z.queries
    res['solver_s'] = z.secs
    return res


# known findings are identified by grammar shape: the attribute is assigned
# before an ordered choice and again inside one of its branches (or in two
# nested-choice levels) — classifier on (grammar, attribute)
def classify(v):
    return None


def main():
    import textx.lang as L
    import textx.model as M
    chk = Check(PROP, 'model_checking')
    quick = chk.tier == 'quick'
    N = 6 if quick else 9
    NW = 5 if quick else 7
    WL = 80 if quick else 500
    timeout_ms = 30000 if quick else 240000
    gs = corpus_list()
    items = [(gi, n, timeout_ms, NW, WL) for gi in range(len(gs)) for n in range(0, N + 1)]
    items.sort(key=lambda it: -it[1])
    results = pmap(obligation, items)
    chk.cov['functions_encoded'] = src_hash(L.TextXVisitor.visit_textx_rule, L.TextXVisitor.visit_assignment)
    chk.cov['replayed_through'] = src_hash(M.parse_tree_to_objgraph)
    chk.cov['bounds'] = {'input_chars': N, 'witness_chars': NW, 'grammars': len(gs),
                         'witness_classes_per_obligation': WL, 'solver_timeout_ms': timeout_ms}
    chk.cov['outside_claim'] = ['longer inputs', 'grammars outside the corpus',
                                'list attributes for which no two-value witness exists inside the bound (undecided)']
    chk.assumptions = ['Arpeggio 2.0.3 as modelled by sympeg (witnesses replayed on the real textX)', 'z3',
                       'reference multiplicity = syntactic bound on assignments per object (verifx/gram.py)']
    obligations = discharged = nontrivial = 0
    seen = set()
    for it, (st, r, secs) in zip(items, results):
        if st != 'ok':
            chk.harness_error(r)
            continue
        if 'unsupported' in r:
            chk.cov['unsupported'] += 1
            continue
        chk.add_queries(r['queries'], r['solver_s'])
        chk.cov['traces_validated_against_impl'] += r['validated']
        chk.cov['witness_replays'] = chk.cov.get('witness_replays', 0) + r['witnesses']
        chk.cov['inconclusive'] += r['undecided']
        obligations += r['obligations']
        discharged += r['discharged']
        nontrivial += r['nontrivial']
        for m_ in r['mismatch']:
            chk.cov['model_mismatches'] += 1
            chk.sample({'model_mismatch': m_, 'grammar': r['grammar']}, limit=20)
        for v in r['violations']:
            key = (v['grammar'], v.get('attr'), v['kind'])
            if key in seen:
                continue
            seen.add(key)
            chk.violation('%s: %s %s on %r: %s' % (v['grammar'], v['kind'], v.get('attr'), v.get('text'),
                                                   v['detail']), v)
        chk.sample({'grammar': r['grammar'], 'n': r['n'], 'attributes': r['per_tag'],
                    'witnesses_replayed': r['witnesses']})
    chk.cov['distinct_nontrivial'] = nontrivial
    chk.cov['obligations'] = obligations
    chk.cov['discharged'] = discharged
    return chk.finish('one obligation per (grammar, input length, single-valued attribute): z3 query "an accepted '
                      'input assigns the attribute twice in one object"; non-trivial = the length admits an accepted '
                      'input / a list attribute has a two-value witness')


def replay(data):
    g = next(x for x in corpus.ALL + corpus.random_corpus(seed() + 7, 60) if x['name'] == data['grammar'])
    mm = pegcheck.build_mm(g, **g['cfg'])
    if data.get('kind') == 'spurious-list':
        name, attr = data['attr'].split('.')
        lm = live_mult(mm, (name, attr))
        return lm not in ('1', '0..1'), {'live_mult': lm}
    if data.get('kind') == 'model':
        kind, detail, ce = compare_one(g, mm, {}, data['text'])
        return kind == 'model', detail
    if data.get('kind') == 'model-reused-user-classes':
        kind, detail, ce = compare_one(g, reused_user_class_mm(g, mm), {}, data['text'])
        return kind == 'model', detail
    name, attr = data['attr'].split('.')
    return check_text(g, mm, data['text'], (name, attr))
