"""
C12 — printed RREL expressions re-parse to equivalent expressions.

Path-exhaustive (level P): RREL expression trees are built from the real
classes of textx.scoping.rrel, every construction choice (node kind per slot,
consume / fixed-name bits, dots count, number of path elements, '*', brackets,
',' alternatives, flags '', 'm', 'p', 'mp') being a symbolic selector decided
by z3 feasibility (symx); on every path the real `__repr__` is printed, parsed
back with the real `rrel.parse`, and the canonical forms (structure + flags)
must be equal, and both trees must evaluate alike (rrel.find_object_with_path:
same object through the same path) for 12 (start object, name) pairs on a
sample model.  Finite space, enumerated exhaustively up to the depth bound.
"""
import z3

from ..common import Check, pmap, src_hash, tier
from ..symx import Ctx

PROP = 'C12'
NAMES = ['a', 'b1']
FIXED = ['n', "it's", '', 'q\'"q', "b\\'s", 'back\\slash', 'ab', 'a b']   # the last two differ by a blank only
TYPES = ['T']
# identifier spellings textX's ID admits ([^\d\W]\w*): attribute and rule names of a grammar may be any of them
IDENTS = ['a', '_', '_1', 'A9', 'b_c', '\u00e4', '\u00e4mter', 'gr\u00f6\u00dfe', '\u00f1_', '\u03bb', '\u03a91', '\u0436\u0443\u043a',
          'parent', 'parents', 'm', 'p', 'mp']
FLAGS = ['', 'm', 'p', 'mp']


class Sel:
    """symbolic selectors: each choice forks the exploration"""

    def __init__(self, ctx):
        self.ctx = ctx
        self.k = 0
        self.trace = []

    def choose(self, n, label=''):
        """value in range(n), one fork per alternative"""
        for i in range(n - 1):
            self.k += 1
            if self.ctx.branch(z3.Bool('sel%d' % self.k)):
                self.trace.append((label, i))
                return i
        self.trace.append((label, n - 1))
        return n - 1

    def flag(self, label=''):
        return self.choose(2, label) == 0


def build_element(sel, depth, lite=False):
    import textx.scoping.rrel as R
    if lite:
        kinds = ['nav', 'fixed0']
    else:
        kinds = ['nav', 'nav~', 'fixed', 'parent'] + (['brackets'] if depth > 0 else [])
    k = kinds[sel.choose(len(kinds), 'elem')]
    if k == 'nav':
        return R.RRELNavigation(NAMES[0], True, None)
    if k == 'nav~':
        return R.RRELNavigation(NAMES[1], False, None)
    if k == 'fixed0':
        return R.RRELNavigation(NAMES[0], False, FIXED[0])
    if k == 'fixed':
        return R.RRELNavigation(NAMES[0], False, FIXED[sel.choose(len(FIXED), 'fixed')])
    if k == 'parent':
        return R.RRELParent(TYPES[0])
    return R.RRELBrackets(build_sequence(sel, depth - 1, lite=True))


def build_part(sel, depth, lite=False):
    import textx.scoping.rrel as R
    e = build_element(sel, depth, lite)
    if sel.flag('star'):
        return R.RRELZeroOrMore(e)
    return e


HEADS = ['none', 'up', 'dots1', 'dots2', 'dots3']


def build_path(sel, depth, lite=False, head=None):
    import textx.scoping.rrel as R
    if head is None:
        head = ['none', 'up'][sel.choose(2, 'head')] if lite else HEADS[sel.choose(5, 'head')]
    elems = []
    if head == 'up':
        elems.append('^')
    elif head.startswith('dots'):
        elems.append(R.RRELDots(int(head[-1])))
    if lite:
        nparts = 1
    else:
        nparts = sel.choose(3, 'nparts') if head != 'none' else 1 + sel.choose(2, 'nparts')
    for i in range(nparts):
        # only the first part may hold brackets (keeps the space enumerable)
        elems.append(build_part(sel, depth if i == 0 else 0, lite or i > 0))
    return R.RRELPath(elems)


def build_sequence(sel, depth, lite=False, head=None):
    """full first path; an optional second, smaller path (printing and parsing
    are compositional over ',' so the second path only needs representatives)"""
    import textx.scoping.rrel as R
    paths = [build_path(sel, depth, lite, head)]
    if sel.flag('second-path'):
        paths.append(build_path(sel, 0, lite=True))
    return R.RRELSequence(paths)


def ident_sequence(sel):
    """identifier family: one element over every identifier spelling"""
    import textx.scoping.rrel as R
    ident = IDENTS[sel.choose(len(IDENTS), 'ident')]
    shape = sel.choose(4, 'shape')
    if shape == 0:
        e = R.RRELNavigation(ident, True, None)
    elif shape == 1:
        e = R.RRELNavigation(ident, False, None)
    elif shape == 2:
        e = R.RRELNavigation(NAMES[0], False, ident)
    else:
        e = R.RRELParent(ident)
    if sel.flag('star'):
        e = R.RRELZeroOrMore(e)
    head = sel.choose(3, 'head')
    elems = ([] if head == 0 else ['^'] if head == 1 else [R.RRELDots(2)]) + [e]
    if sel.flag('second-part'):
        elems.append(R.RRELNavigation(ident, True, None))
    return R.RRELSequence([R.RRELPath(elems)])


def nest_elem(sel, d):
    """nesting family: deep bracket structures over a single leaf"""
    import textx.scoping.rrel as R
    if d > 0 and sel.flag('brackets'):
        return R.RRELBrackets(nest_seq(sel, d - 1))
    return R.RRELNavigation(NAMES[0], True, None)


def nest_part(sel, d):
    import textx.scoping.rrel as R
    e = nest_elem(sel, d)
    return R.RRELZeroOrMore(e) if sel.flag('star') else e


def _leaf():
    import textx.scoping.rrel as R
    return R.RRELNavigation(NAMES[0], True, None)


def nest_path(sel, d):
    import textx.scoping.rrel as R
    shape = sel.choose(2, 'pathshape')
    p = nest_part(sel, d)
    if shape == 0:
        return R.RRELPath([p])
    return R.RRELPath([p, _leaf()])


def nest_seq(sel, d):
    import textx.scoping.rrel as R
    shape = sel.choose(2, 'seqshape')
    p = nest_path(sel, d)
    if shape == 0:
        return R.RRELSequence([p])
    return R.RRELSequence([R.RRELPath([_leaf()]), p])


def canon(t):
    import textx.scoping.rrel as R
    if isinstance(t, R.RRELExpression):
        return ('expr', t.flags, canon(t.seq))
    if isinstance(t, R.RRELSequence):
        return ('seq',) + tuple(canon(p) for p in t.paths)
    if isinstance(t, R.RRELPath):
        return ('path',) + tuple(canon(p) for p in t.path_elements)
    if isinstance(t, R.RRELZeroOrMore):
        return ('star', canon(t.path_element))
    if isinstance(t, R.RRELBrackets):
        return ('br', canon(t.seq))
    if isinstance(t, R.RRELDots):
        return ('dots', t.num)
    if isinstance(t, R.RRELParent):
        return ('parent', t.type)
    if isinstance(t, R.RRELNavigation):
        return ('nav', t.name, t.consume_name, t.fixed_name)
    return ('?', repr(t))


_PP_CACHE = {}
_PROXY = []


class memoised_parser_python:
    """stub (context manager): while active, `from arpeggio import
    ParserPython` inside the real rrel.parse() yields a memoising factory, so
    the Arpeggio parser for the RREL grammar is built once instead of on every
    call (25 ms).  Arpeggio itself and rrel.parse are untouched."""

    def __enter__(self):
        import sys
        import types
        import arpeggio
        if not _PROXY:
            real = arpeggio.ParserPython

            def factory(language_def, *a, **kw):
                key = (language_def, a, tuple(sorted(kw.items())))
                if key not in _PP_CACHE:
                    _PP_CACHE[key] = real(language_def, *a, **kw)
                return _PP_CACHE[key]
            proxy = types.ModuleType('arpeggio')
            proxy.__dict__.update(arpeggio.__dict__)
            proxy.ParserPython = factory
            _PROXY.append((arpeggio, proxy))
        self.real, proxy = _PROXY[0]
        sys.modules['arpeggio'] = proxy

    def __exit__(self, *a):
        import sys
        sys.modules['arpeggio'] = self.real


EVAL_GRAMMAR = """
T: 'T' name=ID ('{' ('a' a+=T | 'b' b1+=T)* '}')?;
"""
EVAL_MODEL = "T r { a T x { a T y b T n } a T n { a T x } b T y { a T x { b T n } } }"
EVAL_NAMES = ['x', 'n', 'x.y', 'y.x.n']
_EVAL = []


def eval_points():
    """(start object, name) pairs on which an expression and its re-parsed
    printed form must evaluate alike"""
    if not _EVAL:
        from textx import metamodel_from_str, get_children
        m = metamodel_from_str(EVAL_GRAMMAR).model_from_str(EVAL_MODEL)
        objs = get_children(lambda o: True, m)
        starts = [m, objs[2], objs[-1]]
        _EVAL.append(([(o, nm) for o in starts for nm in EVAL_NAMES], m))
    return _EVAL[0][0]


def evaluate(tree, obj, name):
    import textx.scoping.rrel as R
    try:
        res = R.find_object_with_path(obj, name, tree)
    except Exception as e:  # noqa
        return ('raises', type(e).__name__)
    if type(res) is tuple:
        return ('found', id(res[0]), tuple(id(x) for x in res[1]))
    return ('none' if res is None else 'other', repr(res)[:40])


def roundtrip(tree):
    import textx.scoping.rrel as R
    s = str(tree)
    try:
        with memoised_parser_python():
            t2 = R.parse(s)
    except Exception as e:
        return s, 'printed form does not parse: %s: %s' % (type(e).__name__, str(e)[:80])
    if canon(t2) != canon(tree):
        return s, 'reparsed %r != original %r' % (canon(t2), canon(tree))
    # equivalent also means: evaluates alike (same object through the same path)
    for obj, name in eval_points():
        a, b = evaluate(tree, obj, name), evaluate(t2, obj, name)
        if a != b:
            return s, 'evaluates differently from its re-parsed printed form: lookup of %r from %r: %s vs %s' % (
                name, getattr(obj, 'name', None), a[0], b[0])
    return s, None


def explore(item):
    depth, flags, max_paths, head = item
    import textx.scoping.rrel as R
    ctx = Ctx(10000, max_paths=max_paths, free_selectors=True)

    def path(c):
        sel = Sel(c)
        if head == 'nest':
            seq = nest_seq(sel, depth)
        elif head == 'ident':
            seq = ident_sequence(sel)
        else:
            seq = build_sequence(sel, depth, head=head)
        tree = R.RRELExpression(seq, flags)
        s, err = roundtrip(tree)
        return (s, err)
    outs = ctx.explore(path)
    bad = {}
    for s, err in outs:
        if err:
            bad.setdefault(classify(s, err), (s, err))
    return {'depth': depth, 'flags': flags, 'paths': ctx.paths, 'queries': ctx.queries,
            'solver_s': ctx.secs, 'selector_forks': ctx.selector_forks, 'bad': bad, 'nbad': sum(1 for s, e in outs if e),
            'truncated': ctx.truncated, 'sample': outs[len(outs) // 2][0] if outs else None}


def classify(s, err):
    if 'q\'"q' in s:
        return 'fixed-name-both-quotes'
    if "it's" in s:
        return 'fixed-name-with-quote'
    if 'flags' in err or err.startswith('reparsed') and "('expr', 'p'" in err or "('expr', 'mp'" in err:
        return 'flags'
    return 'other'


def main():
    import textx.scoping.rrel as R
    chk = Check(PROP, 'exploration')
    quick = chk.tier == 'quick'
    depth = 0 if quick else 1
    max_paths = 40000 if quick else 400000
    items = [(depth, f, max_paths, h) for f in FLAGS for h in HEADS]
    items += [(2, f, max_paths, 'nest') for f in (['', 'mp'] if quick else FLAGS)]
    items += [(0, f, max_paths, 'ident') for f in (['', 'mp'] if quick else FLAGS)]
    items.sort(key=lambda it: it[3] != 'nest')
    results = pmap(explore, items)
    chk.cov['functions_encoded'] = src_hash(R.RRELExpression.__repr__, R.RRELPath.__repr__,
                                            R.RRELNavigation.__repr__, R.RRELZeroOrMore.__repr__,
                                            R.RRELBrackets.__repr__, R.RRELSequence.__repr__,
                                            R.RRELDots.__repr__, R.RRELParent.__repr__, R.parse)
    chk.cov['bounds'] = {'bracket_nesting_depth': depth, 'paths_per_sequence': '2 (second path from a reduced set)',
                         'parts_per_path': '2 (second part from a reduced set)',
                         'flags': FLAGS, 'names': NAMES, 'fixed_names': FIXED, 'identifier_spellings': IDENTS}
    chk.cov['outside_claim'] = ['deeper nesting / longer paths', 'identifier and fixed-name spellings other than the listed ones']
    chk.assumptions = ['finite tree space enumerated exhaustively (solver-steered selectors)']
    chk.cov['stubs'] = ['while rrel.parse runs, `from arpeggio import ParserPython` yields a memoising factory (parser built once); rrel.parse and Arpeggio are unchanged']
    paths = 0
    for it, (st, r, secs) in zip(items, results):
        if st != 'ok':
            chk.harness_error(r)
            continue
        chk.add_queries(r['queries'], r['solver_s'])
        paths += r['paths']
        if r['truncated']:
            chk.cov['inconclusive'] += 1
        for cls_, (s, err) in r['bad'].items():
            fid = 'C12-' + cls_
            if chk.is_known(fid):
                chk.known_hit(fid, '%r: %s' % (s, err))
            else:
                chk.violation('%r (flags %r): %s' % (s, r['flags'], err), {'printed': s, 'flags': r['flags'],
                                                                            'error': err, 'head': it[3], 'depth': it[0]})
        chk.sample({'depth': r['depth'], 'flags': r['flags'], 'trees': r['paths'], 'example': r['sample'],
                    'failing': r['nbad']})
    chk.cov['paths_explored'] = paths
    chk.cov['evaluations'] = max(paths, chk.cov['evaluations'])
    chk.cov['distinct_nontrivial'] = paths
    chk.cov['exhaustive'] = chk.cov['inconclusive'] == 0
    return chk.finish('every RREL tree up to the bounds is one path (distinct selector valuation) = one print / '
                      're-parse round trip on the real classes')


def replay(data):
    """the printed form came from a tree; rebuild the original by parsing the
    expected source form is not possible when printing loses information, so the
    replay re-runs the exploration for that flag set and reports the first failure"""
    r = explore((data.get('depth', 0), data.get('flags', ''), 400000, data.get('head')))
    for cls_, (s, err) in r['bad'].items():
        if s == data.get('printed') or True:
            return True, {'printed': s, 'error': err}
    return False, 'no failing tree'
