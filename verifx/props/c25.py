"""
C25 — grammar imports resolve rules in the documented order.

Exploration (level P), steered by symx selectors: a tree of grammar files
    root.tx  base.tx  other.tx  pkg/a.tx  pkg/leaf.tx  pkg/sub/deep.tx  pkg/sub/leaf.tx
is generated per path.  Selectors decide, per file, whether it defines the
shared rule name X (each definition has its own keyword, so a parsed model
tells which definition was used), the order of the import statements of
root.tx and pkg/a.tx, whether pkg/sub/leaf.tx imports pkg/sub/deep.tx back
(cycle), and whether root.tx imports pkg.leaf as well (diamond).  Every file
that can see an X refers to it (`U_<file>: 'u_<file>' x=X;`).  The real
`metamodel_from_file` compiles the tree; a reference implementation of the
documented rule (own file first, then the directly imported files in import
order; imports are relative to the importing file's package; one namespace
per file) says which definition each reference must reach.  Checked per path:
  * the class of every `x` attribute *is* the class `namespaces[<file>]['X']`
    of the prescribed file and reports `<file namespace>.X` as `_tx_fqn`;
  * `metamodel['base.X']` and an object reference `[base.X]` select base.tx's
    rule; every namespace exists exactly once and is shared by all importers;
  * a model using every reference parses, with each `x` an instance of the
    prescribed definition (the keywords differ per definition).
A second family of trees does the same for the special rule name Comment
(definitions with different comment leaders in every subset of root.tx and its
direct imports): the comments the model parser skips are those of the Comment
rule the root grammar sees under the same order.
"""
import os
import tempfile

import z3

from ..common import Check, pmap, src_hash
from ..symx import Ctx

PROP = 'C25'
KNOWN_CYCLE = 'C25-cycle-back-reference'

FILES = ['root', 'base', 'other', 'pkg.a', 'pkg.leaf', 'pkg.sub.deep', 'pkg.sub.leaf']
# which files may define X (root itself only by a dedicated selector)
MAY_DEFINE = ['root', 'base', 'other', 'pkg.a', 'pkg.leaf', 'pkg.sub.leaf', 'pkg.sub.deep']


def tag(ns):
    return ns.replace('.', '_')


def imports_of(cfg):
    """namespace -> list of (import statement text, imported namespace), in order"""
    root = [('pkg.a', 'pkg.a'), ('base', 'base'), ('other', 'other'), ('pkg.sub.deep', 'pkg.sub.deep')]
    if cfg['root_order'] == 1:
        root = [root[2], root[1], root[0], root[3]]
    elif cfg['root_order'] == 2:
        root = [root[1], root[3], root[2], root[0]]
    if cfg['diamond']:
        root.append(('pkg.leaf', 'pkg.leaf'))
    a = [('sub.deep', 'pkg.sub.deep'), ('leaf', 'pkg.leaf')]
    if cfg['a_order']:
        a.reverse()
    out = {'root': root, 'base': [], 'other': [], 'pkg.a': a, 'pkg.leaf': [],
           'pkg.sub.deep': [('leaf', 'pkg.sub.leaf')],
           'pkg.sub.leaf': [('deep', 'pkg.sub.deep')] if cfg['cycle'] else []}
    return out


def resolve(ns, imports, defines):
    """reference semantics: the namespace whose X an unqualified X in `ns` denotes"""
    if ns in defines:
        return ns
    for _, imp in imports[ns]:
        if imp in defines:
            return imp
    return None


COMMENT_FILES = ['root', 'base', 'other', 'pkg.a', 'pkg.sub.deep']


def file_text(ns, imports, defines, comments=()):
    lines = ['import %s' % stmt for stmt, _ in imports[ns]]
    target = resolve(ns, imports, defines)
    body = []
    if ns == 'root':
        users = ['U_%s' % tag(f) for f in FILES if (f == 'root' or any(i == f for _, i in imports['root']))
                 and resolve(f, imports, defines)]
        lines.append('Model: items*=Item refs*=R;')
        lines.append('Item: %s;' % ' | '.join(users + ['Nothing']))
        lines.append("Nothing: 'nothing' name=ID;")
        if 'base' in defines:
            lines.append("R: 'ref' r=[base.X];")
        else:
            lines.append("R: 'ref' r=[Nothing];")
    if target:
        body.append("U_%s: 'u_%s' x=X;" % (tag(ns), tag(ns)))
    else:
        body.append("T_%s: 't_%s' name=ID;" % (tag(ns), tag(ns)))
    if ns in defines:
        body.append("X: 'x_%s' name=ID;" % tag(ns))
    if target:
        # an alias-like rule (a single rule reference): abstract, inherited by exactly the X it denotes
        body.append("AX_%s: X;" % tag(ns))
    if ns in comments:
        # the special rule Comment: every definition has its own comment leader
        body.append("Comment: /#%s#.*?$/;" % tag(ns))
    return '\n'.join(lines + body) + '\n'


def run(cfg):
    """one generated tree -> list of problems"""
    from textx import metamodel_from_file
    imports = imports_of(cfg)
    defines = set(cfg['defines'])
    tmp = tempfile.mkdtemp(prefix='c25_')
    problems = []
    try:
        for ns in FILES:
            p = os.path.join(tmp, *ns.split('.')) + '.tx'
            os.makedirs(os.path.dirname(p), exist_ok=True)
            with open(p, 'w') as f:
                f.write(file_text(ns, imports, defines, cfg.get('comments', ())))
        classes = []
        if cfg.get('user_classes'):
            # Python user classes for the U_* rules of all files, each derived from the previous one
            def init(self, parent=None, **kw):
                self.parent = parent
                for k, v in kw.items():
                    setattr(self, k, v)
            base = object
            reach_, todo_ = set(), ['root']
            while todo_:
                n_ = todo_.pop()
                if n_ not in reach_:
                    reach_.add(n_)
                    todo_ += [i for _, i in imports[n_]]
            for ns in FILES:
                if ns in reach_ and resolve(ns, imports, defines):
                    base = type('U_%s' % tag(ns), (base,), {'__init__': init})
                    classes.append(base)
        try:
            mm = metamodel_from_file(os.path.join(tmp, 'root.tx'), classes=classes)
        except Exception as e:  # noqa
            return ['the grammar tree does not compile: %s: %s' % (type(e).__name__, str(e).replace(tmp, '')[:120])]
        # reachable files
        reach, todo = set(), ['root']
        while todo:
            n = todo.pop()
            if n in reach:
                continue
            reach.add(n)
            todo += [i for _, i in imports[n]]
        got_ns = set(mm.namespaces) - {'__base__'}
        if got_ns != reach:
            problems.append('namespaces %s, expected %s' % (sorted(got_ns), sorted(reach)))
            return problems
        text = []
        for ns in sorted(reach):
            target = resolve(ns, imports, defines)
            if not target:
                continue
            u = mm.namespaces[ns].get('U_%s' % tag(ns))
            if u is None:
                problems.append('rule U_%s missing in namespace %s' % (tag(ns), ns))
                continue
            if u._tx_fqn != '%s.U_%s' % (ns, tag(ns)):
                problems.append('%s reports the qualified name %s' % ('U_' + tag(ns), u._tx_fqn))
            cls = u._tx_attrs['x'].cls
            want = mm.namespaces[target].get('X')
            if cls is not want:
                problems.append('X in %s resolves to %s, expected %s.X' % (ns, getattr(cls, '_tx_fqn', cls), target))
            elif cls._tx_fqn != target + '.X':
                problems.append('%s.X reports the qualified name %s' % (target, cls._tx_fqn))
            ax = mm.namespaces[ns].get('AX_%s' % tag(ns))
            inh = [getattr(c_, '_tx_fqn', c_) for c_ in getattr(ax, '_tx_inh_by', [])]
            if inh != [target + '.X']:
                problems.append('the alias rule AX_%s: X; of %s is inherited by %s, expected [%s.X]' % (
                    tag(ns), ns, inh, target))
            if ns == 'root' or any(i == ns for _, i in imports['root']):
                text.append(('u_%s x_%s n' % (tag(ns), tag(target)), ns, target))
        # one namespace object per file, shared by all importers
        for ns in reach:
            for _, imp in imports[ns]:
                if not any(d is mm.namespaces[imp] for d in mm._imported_namespaces[ns]):
                    problems.append('%s does not import the namespace object of %s' % (ns, imp))
        # qualified access
        if 'base' in defines:
            try:
                if mm['base.X'] is not mm.namespaces['base']['X']:
                    problems.append("metamodel['base.X'] is not base.tx's rule")
            except Exception as e:  # noqa
                problems.append("metamodel['base.X'] raised %s" % type(e).__name__)
            r = mm.namespaces['root']['R']._tx_attrs['r'].cls
            if r is not mm.namespaces['base']['X']:
                problems.append('[base.X] refers to %s' % getattr(r, '_tx_fqn', r))
        # a model exercising every reference visible from the root grammar
        if text:
            src = ' '.join(t for t, _, _ in text)
            try:
                m = mm.model_from_str(src)
            except Exception as e:  # noqa
                problems.append('model %r does not load: %s: %s' % (src, type(e).__name__, str(e)[:80]))
            else:
                for it, (_, ns, target) in zip(m.items, text):
                    if type(it).__name__ != 'U_' + tag(ns) or type(it.x) is not mm.namespaces[target]['X']:
                        problems.append('model object for %s has x of class %s' % (ns, type(it.x)._tx_fqn))
        # the rule named Comment that the root grammar sees (same order as for any unqualified name) is
        # the one the model parser skips
        if cfg.get('comments'):
            ctarget = resolve('root', imports, set(cfg['comments']))
            for f in cfg['comments']:
                src = 'nothing n #%s# remark\nnothing m' % tag(f)
                try:
                    mm.model_from_str(src)
                    accepted = True
                except Exception:  # noqa
                    accepted = False
                if accepted != (f == ctarget):
                    problems.append("comments in the syntax of %s's Comment rule are %s, the root grammar's Comment is %s's"
                                    % (f, 'skipped' if accepted else 'not skipped', ctarget))
            if ctarget is not None:
                try:
                    if mm['Comment'] is not mm.namespaces[ctarget]['Comment']:
                        problems.append("metamodel['Comment'] is not %s's rule" % ctarget)
                except Exception as e:  # noqa
                    problems.append("metamodel['Comment'] raised %s" % type(e).__name__)
        return problems
    finally:
        import shutil
        shutil.rmtree(tmp, ignore_errors=True)


def is_known_cycle(cfg, probs):
    """known finding: in an import cycle the file that closes the cycle cannot
    use a rule of the file that (transitively) imported it — that file's rules
    do not exist yet when the inner file resolves its references"""
    imports = imports_of(cfg)
    return (cfg['cycle'] and len(probs) == 1 and 'does not compile' in probs[0] and 'Unexisting rule "X"' in probs[0]
            and resolve('pkg.sub.leaf', imports, set(cfg['defines'])) == 'pkg.sub.deep')


def explore(item):
    root_order, quick = item[:2]
    comment_family = len(item) > 2 and item[2]
    ctx = Ctx(10000, max_paths=20000, free_selectors=True)

    def path(c):
        if comment_family:
            # the special rule name Comment: definitions in every subset of the files the root grammar sees
            cfg = {'root_order': root_order, 'a_order': False, 'cycle': False,
                   'diamond': c.branch(z3.Bool('root_imports_pkg_leaf')), 'defines': ['base', 'pkg.sub.leaf']}
            cfg['comments'] = [f for f in COMMENT_FILES if c.branch(z3.Bool('defines_Comment_%s' % tag(f)))]
        else:
            cfg = {'root_order': root_order, 'a_order': c.branch(z3.Bool('a_imports_reversed')),
                   'cycle': c.branch(z3.Bool('leaf_imports_deep_back')), 'diamond': c.branch(z3.Bool('root_imports_pkg_leaf'))}
            cfg['defines'] = [f for f in MAY_DEFINE if c.branch(z3.Bool('defines_X_%s' % tag(f)))]
            cfg['user_classes'] = c.branch(z3.Bool('user_classes_for_the_U_rules'))
        try:
            probs = run(cfg)
        except Exception as e:  # noqa
            probs = ['harness: %s: %s' % (type(e).__name__, e)]
        return (cfg, probs)
    outs = ctx.explore(path)
    bad = [(c_, p) for c_, p in outs if p]
    # report at most a few per kind: known-cycle ones first one only
    kc = [b for b in bad if is_known_cycle(*b)][:1]
    other = [b for b in bad if not is_known_cycle(*b)][:5]
    return {'root_order': root_order, 'paths': ctx.paths, 'bad': kc + other,
            'nbad': sum(1 for c_, p in outs if p), 'ok': sum(1 for c_, p in outs if not p)}


def main():
    import textx.metamodel as MM
    import textx.lang as L
    chk = Check(PROP, 'exploration')
    quick = chk.tier == 'quick'
    results = pmap(explore, [(ro, quick) for ro in range(3)] + [(ro, quick, True) for ro in range(3)])
    chk.cov['functions_encoded'] = src_hash(MM.TextXMetaModel._new_import, MM.TextXMetaModel.__getitem__,
                                            MM.TextXMetaModel._enter_namespace, MM.TextXMetaModel._namespace_for_file_name,
                                            MM.metamodel_from_file, L.TextXVisitor.visit_import_stm)
    chk.cov['bounds'] = {'files': FILES, 'definitions_of_X': 'every subset of the 7 files', 'root_import_orders': 3,
                         'pkg_a_import_orders': 2, 'cycle': [False, True], 'diamond': [False, True],
                         'definitions_of_Comment': 'every subset of %s (own family of trees)' % COMMENT_FILES}
    chk.cov['outside_claim'] = ['other directory layouts / deeper nesting', 'more than one shared rule name',
                                'grammars given as strings (imports need files)']
    chk.assumptions = ['finite space enumerated exhaustively (selectors unconstrained: z3 decides nothing)',
                       'reference resolution rule written from docs/grammar.md (verifx/props/c25.py: resolve)']
    paths = ok = 0
    seen = set()
    for (st, r, secs) in results:
        if st != 'ok':
            chk.harness_error(r)
            continue
        paths += r['paths']
        ok += r['ok']
        for cfg, probs in r['bad']:
            if probs[0].startswith('harness'):
                chk.harness_error(probs[0])
                continue
            if is_known_cycle(cfg, probs) and chk.is_known(KNOWN_CYCLE):
                chk.known_hit(KNOWN_CYCLE, 'pkg/sub/deep.tx imports leaf, pkg/sub/leaf.tx imports deep and uses deep\'s X: %s'
                              % probs[0][:110])
                continue
            key = probs[0][:50]
            if key in seen or len(chk.violations) >= 6:
                continue
            seen.add(key)
            chk.cov['traces_validated_against_impl'] += 1
            chk.violation('grammar tree %s: %s' % (cfg, probs[:2]), {'cfg': cfg})
        chk.sample({'root_import_order': r['root_order'], 'trees': r['paths'], 'as_prescribed': r['ok']})
    if ok == 0:
        chk.harness_error('vacuous: no tree behaves as prescribed')
    chk.cov['paths_explored'] = paths
    chk.cov['evaluations'] = paths
    chk.cov['distinct_nontrivial'] = paths
    chk.cov['exhaustive'] = True
    return chk.finish('one generated grammar tree per path = one real metamodel_from_file + one model')


def replay(data):
    probs = run(data['cfg'])
    return bool(probs), probs[:3]
