"""
C19 — memoization never changes parse results.

Arpeggio's packrat cache (ParsingExpression._result_cache) is keyed by input
position only, per cache dict.  Sufficient condition decided by the solver, per
grammar and input length n <= N, over the live parser model:

    for every two evaluations (e1, i, state1), (e2, i, state2) that share a
    cache dict (same expression under two whitespace states, or two expression
    objects sharing one dict):
        reach(e1,i,state1) and reach(e2,i,state2) and outcome1 != outcome2   UNSAT

(outcome = end position, result kind and fingerprint; reach = the condition
under which the real parser evaluates that expression there, computed top-down
over the recorded call DAG).  Unsat for all pairs => the cache can never
return a result that differs from re-parsing => memoization is transparent for
every input of that length.  A satisfiable pair is only a *candidate*: it is
replayed with memoization on and off on the real textX, and only a real
difference (accept/reject, model, error position) is reported.
Supplement (witness replay): one witness per character class string, accepted
and rejected, is parsed with memoization on and off — on fresh metamodels, and
in a session in which one memoizing and one plain metamodel parse rejected and
accepted witnesses alternately (no state may survive a parse).
"""
import time

from ..alg import And, Or, Not, Xor, Eq
from ..common import Check, pmap, src_hash, tier, seed
from ..symtext import SymInput, Unsupported
from ..sympeg import SymPeg, FpIndex
from .. import corpus, pegcheck, modelcmp
from ..pegcheck import Z3, class_text, real_load
from ..gram import S, A, Sup, Str, Ref, Asg, Rule, Opt, Star

PROP = 'C19'
KNOWN_WS = 'C19-ws-state-not-in-cache-key'

EXTRA = [
    corpus.G('memo-suppressed-ref', [Rule('M', A(S(Sup(Ref('H')), Str('!')), S(Asg('h', '=', Ref('H')), Str('?')))),
                                     Rule('H', S(Str('h'), Asg('n', '=', Ref('INT'))))], tags=['memo']),
    corpus.G('memo-suppressed-match', [Rule('M', A(S(Sup(Ref('W')), Asg('a', '=', Ref('INT'))), S(Asg('w', '=', Ref('W')), Str('?')))),
                                       Rule('W', S(Str('w'), Opt(Str('x'))))], tags=['memo']),
    corpus.G('memo-backtrack', [Rule('M', A(S(Asg('a', '+=', Ref('P')), Str('!')), S(Asg('b', '+=', Ref('P')), Str('?')))),
                                Rule('P', S(Str('p'), Asg('n', '=', Ref('INT'))))], tags=['memo']),
    corpus.G('memo-pred', [Rule('M', S(Star(S(corpus.Not_(Ref('E')), Asg('xs', '+=', Ref('X')))), Asg('e', '=', Ref('E')))),
                           Rule('X', Asg('n', '=', Ref('ID'))), Rule('E', S(Str('end'), Asg('k', '?=', Str('!'))))], tags=['memo']),
    # the operand of a negative lookahead is tried again, at the same position, as a later alternative:
    # the furthest failure of a rejected input lies inside the rule whose failure the cache answers
    corpus.G('memo-pred-retry', [Rule('M', S(Opt(Str('u')), Asg('ss', '+=', Ref('T')))),
                                 Rule('T', A(Ref('As'), Ref('Ca'))),
                                 Rule('As', S(corpus.Not_(Ref('Ca')), Asg('t', '=', Ref('ID')), Str('='), Asg('v', '=', Ref('INT')))),
                                 Rule('Ca', S(Asg('n', '=', Ref('ID')), Str('('), Asg('a', '=', Ref('INT')), Str(')')))],
             tags=['memo']),
    corpus.G('memo-and-pred-retry', [Rule('M', S(Opt(Str('u')), Asg('ss', '+=', Ref('T')))),
                                     Rule('T', A(S(corpus.And_(Ref('Ca')), Asg('c', '=', Ref('Ca')), Str('!')), Ref('Ca'))),
                                     Rule('Ca', S(Asg('n', '=', Ref('ID')), Str('('), Asg('a', '=', Ref('INT')), Str(')')))],
             tags=['memo']),
]


def corpus_list():
    # 'number' / 'basetypes': NUMBER and BASETYPE are ordered choices shared by all metamodels
    gs = corpus.MODES + EXTRA + [g for g in corpus.BASIC if g['name'] in ('number', 'basetypes')]
    if tier() == 'thorough':
        gs = gs + [g for g in corpus.BASIC if g['name'] in (
            'noskipws-rule', 'noskipws-inherit', 'noskipws-reset', 'ws-rule', 'ws-rule-comment',
            'eolterm', 'abstract', 'recursive', 'suppress-match-rule', 'comment-line')] + corpus.KINDS[:4]
    return gs


def describe(mm, text, memo):
    kind, val = real_load(mm, text)
    if kind == 'ok':
        return ('ok', modelcmp.canon_real(val))
    if kind == 'syntax':
        return ('syntax', (val.line, val.col))
    return (kind, str(val)[:80])


def differs_real(g, text, mms=None):
    off, on = mms or (pegcheck.build_mm(g, memoization=False), pegcheck.build_mm(g, memoization=True))
    a = describe(off, text, False)
    b = describe(on, text, True)
    if a[0] != b[0]:
        return True, 'without memoization: %s, with memoization: %s' % (a[0], b[0])
    if a[0] == 'ok' and not modelcmp.same(a[1], b[1]):
        return True, 'models differ: %s' % modelcmp.first_diff(a[1], b[1])
    if a[0] == 'syntax' and a[1] != b[1]:
        return True, 'error position %s vs %s' % (a[1], b[1])
    return False, a[0]


def groups_of(sp):
    """trace entries grouped by (cache dict identity, position)"""
    groups = {}
    for e, pos, st, inc, r in sp.trace:
        ck = id(getattr(e, '_result_cache', e))
        groups.setdefault((ck, pos), []).append((e, pos, st, inc, r))
    return groups


def out_differ(r1, r2):
    keys = set(r1) | set(r2)
    alts = []
    for k in keys:
        c1 = r1[k].c if k in r1 else False
        c2 = r2[k].c if k in r2 else False
        alts.append(Xor(c1, c2))
        if k in r1 and k in r2:
            alts.append(And(c1, c2, Not(Eq(r1[k].fp, r2[k].fp))))
    return Or(*alts)


def conflict_pairs(sp):
    """[(kind, cond, description)] kind = 'state' (same expression, two
    whitespace states) | 'shared' (two expressions, one cache dict)"""
    out = []
    for (ck, pos), ents in groups_of(sp).items():
        for i in range(len(ents)):
            for j in range(i + 1, len(ents)):
                e1, _, st1, inc1, r1 = ents[i]
                e2, _, st2, inc2, r2 = ents[j]
                if e1 is e2 and st1 == st2 and inc1 == inc2:
                    continue
                d = out_differ(r1, r2)
                if d is False:
                    continue
                c = And(sp.reach((id(e1), pos, st1, inc1)), sp.reach((id(e2), pos, st2, inc2)), d)
                if c is False:
                    continue
                kind = 'state' if e1 is e2 else 'shared'
                out.append((kind, c, '%s at %d under %s / %s' % (
                    getattr(e1, 'rule_name', '') or type(e1).__name__, pos,
                    _st(st1), _st(st2)) + ('' if e1 is e2 else ' (two expressions share one cache)')))
    return out


def _st(st):
    return 'skipws=%s ws=%r eolterm=%s' % st


def build(g, inp):
    mm = pegcheck.build_mm(g, memoization=True)
    sp = SymPeg.for_metamodel(mm, inp, fpindex=FpIndex(inp.n + 2))
    sp.trace = []
    sp.edges = {}
    acc, _, _ = sp.accept_attrs(mm._parser_blueprint.parser_model)
    return mm, sp, acc


def concrete_conflicts(g, text):
    """on one concrete input: [(kind, description)] of cache conflicts that
    are reached; kind 'state' / 'shared' as in conflict_pairs, plus
    'state-same-outcome': the same expression is evaluated at one position
    under two whitespace states with equal outcome (the cached NoMatch /
    result still carries the other state's error position)"""
    inp = SymInput.concrete(text)
    mm, sp, acc = build(g, inp)
    out = [(k, d) for k, c, d in conflict_pairs(sp) if c is True]
    for (ck, pos), ents in groups_of(sp).items():
        for i in range(len(ents)):
            for j in range(i + 1, len(ents)):
                e1, _, st1, inc1, r1 = ents[i]
                e2, _, st2, inc2, r2 = ents[j]
                if e1 is e2 and st1 != st2 and inc1 == inc2 and \
                        sp.reach((id(e1), pos, st1, inc1)) is True and \
                        sp.reach((id(e2), pos, st2, inc2)) is True and out_differ(r1, r2) is False:
                    out.append(('state-same-outcome', '%s at %d' % (e1.rule_name or type(e1).__name__, pos)))
    return out


def multi_state_rules(g):
    """rules (and built-in rules) that, by the grammar text alone, can be evaluated under two different
    whitespace states: a rule without own modifiers reached from callers with different states"""
    from .. import gram
    rules = {r[0]: r for r in g['rules']}
    st0 = (bool(g['cfg'].get('skipws', True)), g['cfg'].get('ws'))
    states = {}
    todo = [(g['rules'][0][0], st0)]
    if 'Comment' in rules:
        todo.append(('Comment', st0))
    while todo:
        name, st = todo.pop()
        if name in rules:
            params = rules[name][1]
            st = (bool(params['skipws']) if 'skipws' in params else st[0], params['ws'] if 'ws' in params else st[1])
        if st in states.setdefault(name, set()):
            continue
        states[name].add(st)
        if name in rules:
            for x in gram.subexprs(rules[name][2]):
                if x[0] == 'ref':
                    todo.append((x[1], st))
                # eolterm is a per-repetition state: any rule below a repetition with eolterm has two states
    multi = {n for n, s_ in states.items() if len(s_) > 1}
    for name, params, body in g['rules']:
        for x in gram.subexprs(body):
            if x[0] in ('star', 'plus') and x[3] or (x[0] == 'asg' and x[5]):
                multi |= {y[1] for y in gram.subexprs(x) if y[0] == 'ref'} | {name}
    return multi, set(states)


def explained_by_ws_state(cc, g=None):
    """the recorded root cause: one expression evaluated at one position under two whitespace states —
    only where the grammar itself lets a rule be evaluated under two states"""
    if not (bool(cc) and all(k in ('state', 'state-same-outcome') for k, d in cc)):
        return False
    if g is None:
        return True
    multi, known = multi_state_rules(g)
    if not multi:
        return False
    for k, d in cc:
        nm = d.split(' at ')[0]
        if nm in known and nm not in multi:
            return False
    return True


def obligation(item):
    gi, n, timeout_ms, budget, wlimit, known_ids = item
    g = corpus_list()[gi]
    res = {'grammar': g['name'], 'n': n, 'queries': {}, 'solver_s': 0.0, 'violations': [], 'known': {},
           'pairs': 0, 'candidates': 0, 'validated': 0, 'verdict': None, 'twin': None, 'witnesses': 0,
           'nonmanifest': 0}
    try:
        inp = SymInput.symbolic(n)
        mm, sp, acc = build(g, inp)
        pairs = conflict_pairs(sp)
    except Unsupported as e:
        res['verdict'] = 'unsupported: %s' % e
        return res
    res['pairs'] = len(pairs)
    z = Z3(timeout_ms)
    z.add(*inp.domain())
    res['twin'] = z.check(acc)
    verdict = 'holds'
    for kind in ('shared', 'state'):
        cond = Or(*[c for k, c, d in pairs if k == kind])
        if cond is False:
            continue
        z.push()
        z.add(cond)
        tries = 0
        while True:
            r = z.check()
            if r != 'sat':
                if r == 'unknown':
                    verdict = 'unknown'
                break
            text = class_text(inp, z.model())
            tries += 1
            res['candidates'] += 1
            bad, detail = differs_real(g, text)
            res['validated'] += 2
            if bad:
                cc = concrete_conflicts(g, text)
                only_state = explained_by_ws_state(cc, g)
                if only_state and KNOWN_WS in known_ids:
                    res['known'].setdefault(KNOWN_WS, {'grammar': g['name'], 'text': text,
                                                       'detail': detail, 'pair': cc[0][1]})
                    break      # root cause confirmed for this grammar/length; remaining state pairs are the same finding
                res['violations'].append({'grammar': g['name'], 'text': text, 'detail': detail,
                                          'conflicts': [d for k, d in cc][:3]})
                verdict = 'violated'
                break
            res['nonmanifest'] += 1
            z.add(inp.block_class(text))
            if tries >= budget:
                verdict = 'undecided' if verdict == 'holds' else verdict
                break
        z.pop()
    res['verdict'] = verdict
    # supplement: memo on/off on one witness per class string (accepted and rejected)
    by_cond = []
    for cond in (acc, Not(acc)):
        texts, exhausted, z2 = pegcheck.enumerate_classes(inp, cond, wlimit, timeout_ms)
        by_cond.append(texts)
        for k in z.queries:
            z.queries[k] += z2.queries[k]
        z.secs += z2.secs
        for text in texts:
            res['witnesses'] += 1
            bad, detail = differs_real(g, text)
            res['validated'] += 2
            if bad:
                cc = concrete_conflicts(g, text)
                only_state = explained_by_ws_state(cc, g)
                if only_state and KNOWN_WS in known_ids:
                    res['known'].setdefault(KNOWN_WS, {'grammar': g['name'], 'text': text,
                                                       'detail': detail, 'pair': cc[0][1]})
                elif len(res['violations']) < 3:
                    res['violations'].append({'grammar': g['name'], 'text': text, 'detail': detail,
                                              'conflicts': [d for k, d in cc][:3]})
                    res['verdict'] = 'violated'
    # session: one memoizing and one plain metamodel parse the witnesses one
    # after the other, rejected and accepted inputs alternating — memoization
    # must stay transparent whatever the same metamodel parsed before
    session = [t for pair in zip(by_cond[1], by_cond[0]) for t in pair][:12]
    mms = (pegcheck.build_mm(g, memoization=False), pegcheck.build_mm(g, memoization=True))
    for i, text in enumerate(session):
        bad, detail = differs_real(g, text, mms)
        res['validated'] += 2
        if bad:
            if not differs_real(g, text)[0] and len(res['violations']) < 3:
                res['violations'].append({'grammar': g['name'], 'text': text, 'session': session[:i + 1],
                                          'detail': 'after the same metamodels parsed %r: %s' % (session[:i], detail),
                                          'conflicts': []})
                res['verdict'] = 'violated'
            break
    res['queries'] = z.queries
    res['solver_s'] = z.secs
    return res


RAW_SESSIONS = [
    # (grammar text, inputs): every ordered pair of inputs is loaded in a row with one meta-model
    ("Model: 'l'? items+=ID[',' ';'] '.'?;", ['a;b;c', 'a b', 'a;b', 'a,b.', 'l a,b,c.', 'l a;b.', 'a']),
    ("Model: rows+=Row['|' '/']; Row: 'r' cells*=INT[',' ':'];", ['r 1,2|r 3', 'r 1:2/r 3', 'r 1 2', 'r|r/r', 'r 1:2']),
]


def raw_sessions():
    """concrete supplement: grammars outside the generated fragment (several separators in one repeat
    modifier), sessions of two loads with one meta-model"""
    from textx import metamodel_from_str

    def outcome(mm, text):
        try:
            return ('ok', modelcmp.canon_real(mm.model_from_str(text)))
        except Exception as e:  # noqa
            return (type(e).__name__, (getattr(e, 'line', None), getattr(e, 'col', None)))
    n, bad = 0, []
    for gtext, texts in RAW_SESSIONS:
        for a in texts:
            for b in texts:
                n += 1
                on = metamodel_from_str(gtext, memoization=True)
                off = metamodel_from_str(gtext, memoization=False)
                ra = (outcome(off, a), outcome(off, b))
                rb = (outcome(on, a), outcome(on, b))
                if repr(ra) != repr(rb):
                    bad.append({'raw_session': [a, b], 'grammar_text': gtext,
                                'detail': 'without memoization %s, with memoization %s' % (ra, rb)})
    return n, bad[:3]


def main():
    import textx.lang as L
    import textx.model as M
    chk = Check(PROP, 'model_checking')
    quick = chk.tier == 'quick'
    N = 5 if quick else 8
    WL = 40 if quick else 300
    budget = 15 if quick else 60
    timeout_ms = 30000 if quick else 240000
    gs = corpus_list()
    items = [(gi, n, timeout_ms, budget, WL, sorted(chk.known_ids)) for gi in range(len(gs))
             for n in range(0, N + 1)]
    items.sort(key=lambda it: -it[1])
    results = pmap(obligation, items)
    chk.cov['functions_encoded'] = src_hash(L.TextXVisitor._resolve_rule_refs, L.TextXVisitor.visit_textx_rule,
                                            L.TextXVisitor.visit_rule_params, M.get_model_parser)
    chk.cov['bounds'] = {'input_chars': N, 'grammars': len(gs), 'candidate_budget': budget,
                         'witness_classes': WL, 'solver_timeout_ms': timeout_ms}
    chk.cov['outside_claim'] = ['longer inputs', 'grammars outside the corpus',
                                'the verdict "holds" is a sufficient condition (no reachable cache conflict); '
                                'candidates that do not manifest are blocked and counted',
                                'the comment-position cache of Arpeggio (present with and without memoization)']
    chk.assumptions = ['Arpeggio 2.0.3 packrat cache keyed by position per _result_cache dict', 'z3']
    nontrivial = holds = 0
    for it, (st, r, secs) in zip(items, results):
        if st != 'ok':
            chk.harness_error(r)
            continue
        chk.add_queries(r['queries'], r['solver_s'])
        chk.cov['traces_validated_against_impl'] += r['validated']
        chk.cov['witness_replays'] = chk.cov.get('witness_replays', 0) + r['witnesses']
        chk.cov['candidate_pairs'] = chk.cov.get('candidate_pairs', 0) + r['pairs']
        chk.cov['nonmanifesting_candidates'] = chk.cov.get('nonmanifesting_candidates', 0) + r['nonmanifest']
        v = str(r['verdict'])
        if r['pairs'] and r['twin'] == 'sat':
            nontrivial += 1
        if v.startswith('unsupported'):
            chk.cov['unsupported'] += 1
        elif v in ('unknown', 'undecided'):
            chk.cov['inconclusive'] += 1
        elif v == 'holds':
            holds += 1
        for fid, k in r['known'].items():
            chk.known_hit(fid, "Arpeggio's memoization cache ignores the whitespace state — e.g. grammar %s, "
                               "input %r: %s (%s)" % (k['grammar'], k['text'], k['detail'], k['pair']))
        for vv in r['violations']:
            chk.violation('%s on %r: %s %s' % (vv['grammar'], vv['text'], vv['detail'], vv['conflicts']), vv)
        chk.sample({'grammar': r['grammar'], 'n': r['n'], 'verdict': r['verdict'], 'cache_pairs': r['pairs'],
                    'candidates_replayed': r['candidates'], 'witnesses': r['witnesses']})
    nr, rbad = raw_sessions()
    chk.cov['traces_validated_against_impl'] += nr
    chk.cov['raw_sessions_concrete'] = nr
    for vv in rbad:
        chk.violation('%s: loads %r in a row: %s' % (vv['grammar_text'], vv['raw_session'], vv['detail']), vv)
    chk.cov['distinct_nontrivial'] = nontrivial
    chk.cov['obligations'] = len(items)
    chk.cov['discharged'] = holds
    return chk.finish('one obligation per (grammar, input length): z3 query "two reachable evaluations sharing a cache '
                      'slot have different outcomes"; non-trivial = the grammar has such candidate pairs and accepts '
                      'some input of that length')


def replay(data):
    if data.get('raw_session'):
        n, bad = raw_sessions()
        return bool(bad), bad
    g = next(x for x in corpus.ALL + EXTRA if x['name'] == data['grammar'])
    if data.get('session'):
        mms = (pegcheck.build_mm(g, memoization=False), pegcheck.build_mm(g, memoization=True))
        out = (False, 'session agrees')
        for text in data['session']:
            out = differs_real(g, text, mms)
            if out[0]:
                break
        return out
    return differs_real(g, data['text'])
