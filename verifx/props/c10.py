"""
C10 — the FQN scope provider resolves only genuine qualified names.

symx runs the real `textx.scoping.providers.FQN.__call__` on real loaded
models whose object names and the 1..3 parts of the reference name are opaque
symbolic names (equality decided by z3); the reference carries the target type
the live metamodel gives the attribute (once- and twice-assigned reference
attributes), the oracle the type written in the grammar.  Assumption (from the property):
sibling names are unique.  On every path the result is compared with the
reference semantics as a z3 validity query:

  strict  : a chain of *contained* named objects matching the parts, ending in
            an object of the target type, from the nearest of [referencing
            object, its ancestors outward] from which such a chain exists.

Known finding (root-cause model "lenient"): the provider walks every public
attribute in __dict__, so chains through `parent` and through resolved
non-containment references also resolve.  A path whose result differs from
strict but equals lenient is that finding; anything else is a violation.
"""
import itertools
import time

import z3

from ..alg import And, Or, Not, lift_bool
from ..common import Check, pmap, src_hash, tier
from .. import symx
from ..symx import Ctx, SymName, SymFQN, NameSort

PROP = 'C10'
KNOWN = 'C10-parent-and-reference-walk'

GRAMMAR = """
Model: packages+=Package;
Package: 'package' name=ID '{' (classes+=Class | packages+=Package)* '}';
Class: 'class' name=ID ('extends' base=[Class:FQN])? ('uses' uses=[Class:FQN])?
       ('implements' impls+=[Class:FQN] (',' impls+=[Class:FQN])*)? ';';
FQN: ID('.'ID)*;
"""
MODELS = [
    # nested packages, a resolved non-containment reference (extends) next to the probed one
    "package a { class b; package c { class d extends b; class e; } } package f { class g extends a.b; }",
    "package a { package b { class c; class d extends c; } class e extends b.c; }",
    "package a { class b; } package c { class d extends a.b; package e { class f; } }",
    # deeper / wider shapes (thorough)
    "package a { package b { package c { class d; } class e extends c.d; } class f; }",
    "package a { class b; class c extends b; class d extends c; }",
    "package a { package b { class c; } } package d { package e { class f extends a.b.c; } }",
    "package a { class b; package c { class d extends a.b; package e { class f extends d; } } }",
    "package a { class b; } package c { class d; } package e { class f extends a.b; class g extends c.d; }",
]


def load(text):
    from textx import metamodel_from_str
    import textx.scoping.providers as P
    mm = metamodel_from_str(GRAMMAR)
    mm.register_scope_providers({'*.*': P.FQN()})
    return mm, mm.model_from_str(text)


def named_objects(m):
    from textx import get_children
    return get_children(lambda x: hasattr(x, 'name'), m)


def contained_children(o):
    r = []
    for an, a in type(o)._tx_attrs.items():
        if a.cont and a.ref:
            v = getattr(o, an)
            r += (v if isinstance(v, list) else ([v] if v is not None else []))
    return r


def public_attr_values(o):
    """what the finding is about, stated independently of the implementation's
    bookkeeping: the attributes of the object's rule in grammar order, then the
    link to the parent (last, as on the pinned tree) — NOT the order of
    `__dict__`, which a change of textX could alter"""
    out = []
    attrs = [a for a in getattr(type(o), '_tx_attrs', {})] + (['parent'] if hasattr(o, 'parent') else [])
    for a in attrs:
        v = getattr(o, a, None)
        if isinstance(v, (list, tuple)):
            out += [x for x in v if hasattr(x, 'name')]
        elif hasattr(v, 'name'):
            out.append(v)
    return out


def eq(a, b):
    if isinstance(a, SymName):
        return True if a.t.eq(b.t) else (a.t == b.t)
    return a == b


def scopes_of(start):
    s, p = [start], start
    while hasattr(p, 'parent'):
        p = p.parent
        s.append(p)
    return s


def strict(start, parts, cls):
    """[(target, cond)] with exclusive conds: the reference result"""
    from textx import textx_isinstance
    res = []
    found_nearer = False
    for s in scopes_of(start):
        here = []

        def chains(o, i, c):
            if c is False:
                return
            if i == len(parts):
                if textx_isinstance(o, cls):
                    here.append((o, c))
                return
            for ch in contained_children(o):
                chains(ch, i + 1, And(c, eq(ch.name, parts[i])))
        chains(s, 0, True)
        for t, c in here:
            res.append((t, And(c, Not(found_nearer))))
        found_nearer = Or(found_nearer, *[c for t, c in here])
    return res


def lenient(start, parts, cls):
    """the observed algorithm: first name match over all public attributes"""
    from textx import textx_isinstance
    res = []
    found_nearer = False
    for s in scopes_of(start):
        here = []

        def walk(o, i, c):
            if c is False:
                return
            if i == len(parts):
                if textx_isinstance(o, cls):
                    here.append((o, c))
                return
            none_before = True
            for ch in public_attr_values(o):
                m = eq(ch.name, parts[i])
                walk(ch, i + 1, And(c, none_before, m))
                none_before = And(none_before, Not(m))
        walk(s, 0, True)
        for t, c in here:
            res.append((t, And(c, Not(found_nearer))))
        found_nearer = Or(found_nearer, *[c for t, c in here])
    return res


def agrees(got, sem):
    """z3 term: got equals the result prescribed by sem"""
    if got is None:
        return Not(Or(*[c for t, c in sem]))
    return Or(*[c for t, c in sem if t is got])


def obligation(item):
    mi, k, timeout_ms, known_ids = item[:4]
    attr_name = item[4] if len(item) > 4 else 'uses'
    from textx.model import ObjCrossRef
    import textx.scoping.providers as P
    mm, m = load(MODELS[mi])
    objs = named_objects(m)
    orig = [o.name for o in objs]
    prov = P.FQN()
    cls = mm['Class']                       # the target type written in the grammar: [Class:FQN]
    live_cls = mm['Class']._tx_attrs[attr_name].cls     # the type textX gives the reference (ObjCrossRef.cls)
    res = {'model': mi, 'parts': k, 'paths': 0, 'queries': {'sat': 0, 'unsat': 0, 'unknown': 0},
           'solver_s': 0.0, 'violations': [], 'known': {}, 'validated': 0, 'discharged': 0,
           'unknown': 0, 'unsupported': None}
    names = [SymName('n%d' % i) for i in range(len(objs))]
    assume = []
    # sibling names unique
    parents = [m] + objs
    for p in parents:
        ch = contained_children(p)
        for a, b in itertools.combinations(ch, 2):
            assume.append(names[objs.index(a)].t != names[objs.index(b)].t)
    starts = [o for o in objs if type(o).__name__ == 'Class']
    for start in starts:
        ctx = Ctx(timeout_ms)

        def path(c, start=start):
            for o, n in zip(objs, names):
                o.name = n
            parts = [SymName('p%d' % j) for j in range(k)]
            cref = ObjCrossRef(SymFQN(parts), live_cls, 0, None, 'FQN')
            got = prov(start, type(start)._tx_attrs[attr_name], cref)
            s_ok = agrees(got, strict(start, parts, cls))
            v, mdl = c.must(s_ok)
            if v == 'unsat':
                return ('ok',)
            if v == 'unknown':
                return ('unknown',)
            l_ok = agrees(got, lenient(start, parts, cls))
            # is there an assignment where got differs from strict AND from lenient?
            v2, mdl2 = c.must(Or(s_ok, l_ok))
            if v2 == 'sat':
                return ('violation', concretise(mdl2, names, parts))
            if v2 == 'unknown':
                return ('unknown',)
            return ('known', concretise(mdl, names, parts))
        try:
            outs = ctx.explore(path, assume)
        except symx.Unsupported as e:
            res['unsupported'] = str(e)
            outs = []
        finally:
            for o, n in zip(objs, orig):
                o.name = n
        res['paths'] += ctx.paths
        for q in ctx.queries:
            res['queries'][q] += ctx.queries[q]
        res['solver_s'] += ctx.secs
        si = objs.index(start)
        for out in outs:
            if out[0] == 'ok':
                res['discharged'] += 1
            elif out[0] == 'unknown':
                res['unknown'] += 1
            else:
                cn, cp = out[1]
                bad, detail = replay_concrete(mi, si, cn, cp, attr_name)
                res['validated'] += 1
                if not bad:
                    res.setdefault('mismatch', []).append({'names': cn, 'ref': cp, 'detail': detail})
                    continue
                if out[0] == 'known' and detail.get('explained_by_lenient') and KNOWN in known_ids:
                    res['known'].setdefault(KNOWN, {'model': MODELS[mi], 'names': cn, 'start': si,
                                                    'ref': '.'.join(cp), 'detail': detail})
                elif len(res['violations']) < 3:
                    res['violations'].append({'model': mi, 'start': si, 'names': cn, 'ref': cp,
                                              'attr': attr_name, 'detail': detail})
    return res


def concretise(mdl, names, parts):
    """concrete names from a model of the Name sort"""
    vals = {}

    def nm(t):
        v = mdl.eval(t, model_completion=True)
        key = str(v)
        if key not in vals:
            vals[key] = 'abcdefghijklmnopqrstuvwxyz'[len(vals)]
        return vals[key]
    return [nm(n.t) for n in names], [nm(p.t) for p in parts]


def replay_concrete(mi, si, cnames, cparts, attr_name='uses'):
    """on a fresh real model with concrete names: does FQN differ from strict?"""
    from textx.model import ObjCrossRef
    import textx.scoping.providers as P
    mm, m = load(MODELS[mi])
    objs = named_objects(m)
    for o, n in zip(objs, cnames):
        o.name = n
    start = objs[si]
    cls = mm['Class']
    cref = ObjCrossRef('.'.join(cparts), mm['Class']._tx_attrs[attr_name].cls, 0, None, 'FQN')
    got = P.FQN()(start, type(start)._tx_attrs[attr_name], cref)
    s = [t for t, c in strict(start, cparts, cls) if c is True]
    le = [t for t, c in lenient(start, cparts, cls) if c is True]
    exp = s[0] if s else None
    lexp = le[0] if le else None
    idx = lambda o: None if o is None else objs.index(o)   # noqa: E731
    detail = {'got': idx(got), 'strict': idx(exp), 'explained_by_lenient': got is lexp,
              'names': cnames, 'reference': '.'.join(cparts), 'attribute': attr_name,
              'live_target_type': mm['Class']._tx_attrs[attr_name].cls.__name__}
    return got is not exp, detail


def import_scenario():
    """concrete supplement, the import-aware wrappers (FQNImportURI, FQNGlobalRepo): a qualified name that
    has a chain from the referencing object's own scopes resolves there, even if an imported file has the
    same qualified name from its root; names only an imported file has resolve into that file"""
    import os
    import shutil
    import tempfile
    from textx import metamodel_from_str
    import textx.scoping.providers as P
    g = GRAMMAR.replace("Model: packages+=Package;", "Model: imports*=Import packages+=Package;\n"
                        "Import: 'import' importURI=STRING;")
    files = {'main.m': 'import "lib.m" package a { package b { class X; } class y uses b.X; } '
                       'package p { class Q; } package r { class z uses p.Q; class w uses only.L; class v uses a.b.X; '
                       'class s uses a . b\n.X; }',
             'lib.m': 'package b { class X; } package p { class Q; } package only { class L; } package a { package b { class X; } }'}
    want = {'y': ('main.m', 'a.b.X'), 'z': ('main.m', 'p.Q'), 'w': ('lib.m', 'only.L'), 'v': ('main.m', 'a.b.X'),
            's': ('main.m', 'a.b.X')}       # s: the qualified name written with whitespace around its dots
    problems = []
    tmp = tempfile.mkdtemp(prefix='c10i_')
    try:
        for fn, t in files.items():
            with open(os.path.join(tmp, fn), 'w') as f:
                f.write(t)
        for prov in ('FQNImportURI', 'FQNGlobalRepo'):
            mm = metamodel_from_str(g)
            mm.register_scope_providers({'*.*': P.FQNImportURI() if prov == 'FQNImportURI'
                                         else P.FQNGlobalRepo(os.path.join(tmp, 'lib.m'))})
            try:
                m = mm.model_from_file(os.path.join(tmp, 'main.m'))
            except Exception as e:  # noqa
                problems.append('%s: load fails: %s: %s' % (prov, type(e).__name__, str(e).replace(tmp, '')[:80]))
                continue
            from textx import get_children_of_type, get_model
            for c in get_children_of_type('Class', m):
                if c.name in want:
                    t = c.uses
                    q, o = [], t
                    while hasattr(o, 'name'):
                        q.insert(0, o.name)
                        o = getattr(o, 'parent', None)
                    got = (os.path.basename(get_model(t)._tx_filename), '.'.join(q))
                    if got != want[c.name]:
                        problems.append('%s: class %s uses %s resolves to %s of %s, expected %s of %s' % (
                            prov, c.name, want[c.name][1], got[1], got[0], want[c.name][1], want[c.name][0]))
        return problems
    finally:
        shutil.rmtree(tmp, ignore_errors=True)


def user_class_scenario():
    """concrete supplement: the references written in the listed models resolve alike when the container and
    the element rules are user classes (their attributes live outside the objects while the model loads)"""
    from textx import metamodel_from_str
    import textx.scoping.providers as P

    def path(o):
        out = []
        while hasattr(o, 'name'):
            out.insert(0, o.name)
            o = getattr(o, 'parent', None)
        return '.'.join(out)

    def bases(m):
        return [(path(o), path(o.base)) for o in named_objects(m) if getattr(o, 'base', None) is not None]
    problems = []
    for text in MODELS:
        ref = bases(load(text)[1])

        class Package:
            def __init__(self, **kw):
                for k, v in kw.items():
                    setattr(self, k, v)

        class Class(Package):
            pass
        for classes in ([Package], [Class], [Package, Class]):
            mm = metamodel_from_str(GRAMMAR, classes=classes)
            mm.register_scope_providers({'*.*': P.FQN()})
            try:
                got = bases(mm.model_from_str(text))
            except Exception as e:  # noqa
                got = '%s: %s' % (type(e).__name__, e)
            if got != ref:
                problems.append('user classes %s, model %r: extends-references %s, with generic classes %s'
                                % ([c.__name__ for c in classes], text, got, ref))

        # ... and user classes with __slots__ (documented as supported): the same references, and look-ups in
        # the finished model (objects without __dict__) through the provider
        class SlotPackage:
            __slots__ = ('parent', 'name', 'classes', 'packages')

            def __init__(self, parent=None, name=None, classes=None, packages=None):
                self.parent, self.name, self.classes, self.packages = parent, name, classes, packages
        SlotPackage.__name__ = 'Package'
        mm = metamodel_from_str(GRAMMAR, classes=[SlotPackage])
        mm.register_scope_providers({'*.*': P.FQN()})
        try:
            m = mm.model_from_str(text)
            got = bases(m)
            from textx.model import ObjCrossRef
            for o in named_objects(m):
                if type(o).__name__ != 'Class' or getattr(o, 'base', None) is None:
                    continue
                cref = ObjCrossRef(path(o.base), mm['Class']._tx_attrs['base'].cls, 0, None, 'FQN')
                again = P.FQN()(o, type(o)._tx_attrs['base'], cref)
                if again is not o.base:
                    got = 'look-up of %r from %s in the finished model gives %r' % (path(o.base), path(o), again)
        except Exception as e:  # noqa
            got = '%s: %s' % (type(e).__name__, e)
        if got != ref:
            problems.append('__slots__ user class for Package, model %r: extends-references %s, with generic classes %s'
                            % (text, got, ref))
    return problems


def main():
    import textx.scoping.providers as P
    import textx.model as M
    chk = Check(PROP, 'model_checking')
    quick = chk.tier == 'quick'
    nm = 3 if quick else len(MODELS)
    timeout_ms = 20000 if quick else 120000
    # 'uses' is assigned once, 'impls' several times in one rule (same target type both times)
    items = [(mi, k, timeout_ms, sorted(chk.known_ids), an) for mi in range(nm) for k in (1, 2, 3)
             for an in ('uses', 'impls')]
    results = pmap(obligation, items)
    chk.cov['functions_encoded'] = src_hash(P.FQN.__call__, M.textx_isinstance)
    chk.cov['bounds'] = {'models': nm, 'name_parts': [1, 2, 3], 'named_objects_max': 8,
                         'solver_timeout_ms': timeout_ms}
    chk.cov['stubs'] = ['object names and reference parts are opaque symbolic names (equality only); '
                        'ObjCrossRef is constructed directly (position 0, no scope provider)']
    chk.cov['outside_claim'] = ['tree shapes other than the listed models', 'scope_redirection_logic',
                                'models where sibling names are not unique']
    chk.assumptions = ['sibling names are unique (property precondition)', 'z3 (uninterpreted sort for names)']
    paths = dis = 0
    for it, (st, r, secs) in zip(items, results):
        if st != 'ok':
            chk.harness_error(r)
            continue
        chk.add_queries(r['queries'], r['solver_s'])
        chk.cov['traces_validated_against_impl'] += r['validated']
        paths += r['paths']
        dis += r['discharged']
        chk.cov['inconclusive'] += r['unknown']
        if r['unsupported']:
            chk.cov['unsupported'] += 1
            chk.sample({'unsupported': r['unsupported']})
        for mm_ in r.get('mismatch', []):
            chk.cov['model_mismatches'] += 1
            chk.sample({'model_mismatch': mm_}, limit=20)
        for fid, k in r['known'].items():
            chk.known_hit(fid, 'FQN resolves through parent links / resolved references — e.g. model %r with '
                               'names %s: reference %r from object #%d resolves to #%s (strict: %s)' % (
                                   k['model'], k['names'], k['ref'], k['start'], k['detail']['got'],
                                   k['detail']['strict']))
        for v in r['violations']:
            chk.violation('FQN result differs from the qualified-name semantics: %s' % v['detail'], v)
        chk.sample({'model': MODELS[it[0]], 'parts': it[1], 'paths': r['paths'], 'discharged': r['discharged']})
    for pr in import_scenario()[:3]:
        chk.violation(pr, {'import_scenario': True})
    for pr in user_class_scenario()[:3]:
        chk.violation(pr, {'user_class_scenario': True})
    chk.cov['bounds']['user_class_scenario'] = 'the listed models loaded with user classes for Package / Class (concrete)'
    chk.cov['bounds']['import_scenario'] = 'FQNImportURI / FQNGlobalRepo over two files with clashing qualified names (concrete)'
    chk.cov['paths_explored'] = paths
    chk.cov['distinct_nontrivial'] = paths
    chk.cov['obligations'] = paths
    chk.cov['discharged'] = dis
    if chk.cov['model_mismatches']:
        chk.harness_error('a solver counterexample did not reproduce on the real provider')
    return chk.finish('one exploration per (model, referencing object, number of name parts); every feasible path '
                      'of the real FQN code over symbolic names ends in a z3 validity query; each path is a distinct '
                      'name-equality pattern')


def replay(data):
    if data.get('user_class_scenario'):
        pr = user_class_scenario()
        return bool(pr), pr[:3]
    if data.get('import_scenario'):
        pr = import_scenario()
        return bool(pr), pr[:3]
    return replay_concrete(data['model'], data['start'], data['names'], data['ref'], data.get('attr', 'uses'))
