"""
C15 — a failed load leaves nothing behind.

Fault enumeration (level P) over whole real loads (see lifecycle.py): every
scope-provider / object-processor / model-processor call raises once
(RuntimeError-like, TextXSemanticError and KeyboardInterrupt-like flavours), plus loads failing by
themselves (syntax error, unknown reference; main or imported file), with user
classes on, single- and multi-file models, main model from a file or from a
string with the other files reached through a global-repository provider, with
and without a global repository.  After every failing path:
  * weak references to every model object seen by a callback or created as a
    user object are dead after gc.collect() once the exception is dropped
    (a concrete observation per path; the symbolic dimension is the fault point);
  * the user classes are uninstrumented and hold no per-object storage;
  * a following load with the same metamodel gives the same model as a load
    with a fresh metamodel.
"""
from ..common import Check, pmap, src_hash
from . import lifecycle as LC
from . import c14

PROP = 'C15'


def judge(obs):
    out = []
    if obs['outcome'] == 'ok':
        return out
    if obs['outcome'] == 'exception':
        out.append(('crash', obs.get('error')))
    if obs.get('alive'):
        out.append(('alive', '%d objects of the failed load are still reachable after gc' % obs['alive']))
    for d in obs['class_diffs']:
        out.append(('class', d))
    if obs.get('reload') is not True:
        out.append(('reload', 'a following load differs from a fresh metamodel: %s' % (obs.get('reload'),)))
    return out


def explore(item):
    r = LC.explore(item)
    bad = []
    outcomes = {}
    for obs in r['obs']:
        outcomes[obs['outcome']] = outcomes.get(obs['outcome'], 0) + 1
        probs = judge(obs)
        if probs:
            bad.append({'case': obs['case'], 'variant': obs['variant'], 'global_repo': obs['global_repo'],
                        'fired': obs['fired'], 'outcome': obs['outcome'], 'problems': probs[:4]})
    return {'item': r['item'], 'paths': r['paths'], 'bad': bad, 'outcomes': outcomes}


def main():
    import textx.model as M
    import textx.scoping as S
    chk = Check(PROP, 'fault_enumeration')
    quick = chk.tier == 'quick'
    items = []
    for case in ('single', 'two-files', 'cycle', 'string-global'):
        for grepo in (False, True):
            for kind in (('runtime',) if quick else ('runtime', 'textx')):
                items.append((case, 'plain', grepo, True, False, kind))
            if case in ('single', 'two-files') and (grepo or not quick):
                items.append((case, 'plain', grepo, True, False, 'interrupt'))
    for case in c14.FAIL_CASES:
        for grepo in (False, True):
            items.append((case, 'plain', grepo, False, False, 'runtime'))
    if not quick:
        for variant in ('slots', 'guarded'):
            items.append(('two-files', variant, True, True, False, 'runtime'))
    results = pmap(explore, items)
    chk.cov['functions_encoded'] = src_hash(M.parse_tree_to_objgraph, M._remove_all_affected_models_in_construction,
                                            S.remove_models_from_repositories, M.get_model_parser)
    chk.cov['bounds'] = {'cases': sorted(set(i[0] for i in items)), 'global_repository': [False, True],
                         'fault_points': 'every scope-provider / object-processor / match-rule-processor (during construction) / model-processor call and every user-class constructor call'}
    chk.cov['outside_claim'] = ['other grammars', 'GC reachability is observed, not encoded']
    chk.assumptions = ['finite fault space enumerated exhaustively (selectors unconstrained: z3 decides nothing)']
    paths = failing = 0
    seen = set()
    for (st, r, secs) in results:
        if st != 'ok':
            chk.harness_error(r)
            continue
        paths += r['paths']
        failing += sum(v for k, v in r['outcomes'].items() if k != 'ok')
        for b in r['bad']:
            key = (b['case'], b['global_repo'], tuple(sorted({k for k, t in b['problems']})))
            if key in seen or len(chk.violations) >= 8:
                continue
            seen.add(key)
            chk.cov['traces_validated_against_impl'] += 1
            chk.violation('%s (global_repository=%s), fault %s, load %s: %s' % (
                b['case'], b['global_repo'], b['fired'], b['outcome'], b['problems']),
                {'item': r['item'], 'fired': b['fired']})
        chk.sample({'case': r['item'][0], 'global_repo': r['item'][2], 'paths': r['paths'], 'outcomes': r['outcomes'],
                    'paths_with_problems': len(r['bad'])})
    if failing == 0:
        chk.harness_error('vacuous: no failing load explored')
    chk.cov['paths_explored'] = paths
    chk.cov['evaluations'] = paths
    chk.cov['distinct_nontrivial'] = failing
    chk.cov['exhaustive'] = True
    from . import extras7
    for fn_ in ('nested_failing_load',):
        for pr in getattr(extras7, fn_)()[:2]:
            chk.violation(pr, {'extras7': fn_})
        chk.cov['traces_validated_against_impl'] += 1
    chk.cov.setdefault('bounds', {})['concrete_supplements_round7'] = ['nested_failing_load']
    return chk.finish('one path per fault point per case and repository mode, plus self-failing loads; distinct = '
                      'failing loads')


def replay(data):
    if isinstance(data, dict) and data.get('extras7'):
        from . import extras7
        pr = getattr(extras7, data['extras7'])()
        return bool(pr), pr[:2]
    item = data['item']
    if data.get('fired'):
        obs = LC.replay_fault(item[0], item[1], item[2], data['fired'][0], item[5])
    else:
        class C:
            def branch(self, b):
                return False
        obs = LC.run_path(C(), item[0], item[1], item[2], False, False, item[5])
    probs = judge(obs)
    return bool(probs), probs[:3]
