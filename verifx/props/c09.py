"""
C09 — postponed resolution reaches the right fixpoint and terminates.

Path-exhaustive (level P) over a symbolic dependency matrix: whole real loads
(one model file, and a two-file variant loaded through ImportURI) in which the
scope provider of reference i returns `Postponed` iff some reference j with
dep[i][j] (symbolic boolean) is still unresolved.  dep[i][i] is allowed
(= never resolves).  On every feasible path:
  * the load terminates (step budget on provider calls);
  * it succeeds iff the least fixpoint over `dep` resolves every reference —
    the fixpoint is a z3 formula over the dep variables, checked for validity
    under the path condition;
  * on failure the error is 'Unresolvable cross references' and names exactly
    the references the fixpoint leaves unresolved.
A second family gates only the references textX's own postponing provider
(ExtRelativeName) waits for — Call.cls and the Class.base chain — and lets the
real ExtRelativeName resolve the method references: success iff the fixpoint
resolves the gated references, the methods found are those of the first class
on the chain defining exactly that name.
"""
import os
import re
import tempfile

import z3

from ..alg import And, Or, Not, Implies, Iff
from ..common import Check, pmap, src_hash, tier
from .. import symx
from ..symx import Ctx

PROP = 'C09'

GRAMMAR = """
Model: imports*=Import objs+=Obj users*=User;
Import: 'import' importURI=STRING;
Obj: 'obj' name=ID;
User: 'user' name=ID ('ref' r=[Obj] | 'many' rs+=[Obj]) ';';
"""
CASES = [
    ('single', {'main': "obj a obj b obj c user u ref a ; user v ref b ; user w ref c ;"}),
    ('two-files', {'main': 'import "lib.m" obj a user u ref b ; user v ref a ;',
                   'lib.m': "obj b user w ref b ;"}),
    ('list-middle', {'main': "obj a obj b obj c user u ref a ; user v many b c ; user w ref c ;"}),
    ('single-4', {'main': "obj a obj b user u ref a ; user v ref b ; user w ref a ; user x ref b ;"}),
    ('lists-two-files', {'main': 'import "lib.m" obj a user u many b a ; user v ref a ;',
                         'lib.m': "obj b user w many b b ;"}),
]


def references(files):
    """[(user, target)] for every reference in the case, textual order"""
    out = []
    for m in re.finditer(r'user (\w+) (?:ref|many) ([\w ]+?) ;', ' '.join(files.values())):
        for t in m.group(2).split():
            out.append((m.group(1), t))
    return out


def fixpoint(dep, k):
    """R[i]: reference i resolves in the least fixpoint"""
    R = [False] * k
    for _ in range(k + 1):
        R = [And(*[Implies(dep[i][j], R[j]) for j in range(k)]) for i in range(k)]
    return R


def pending_by_api(obj, uname):
    from textx import get_model
    from textx.scoping import get_included_models
    from textx.scoping.tools import needs_to_be_resolved
    for m in get_included_models(get_model(obj)):
        for u in getattr(m, 'users', []):
            if u.name == uname:
                return needs_to_be_resolved(u, 'r') or needs_to_be_resolved(u, 'rs')
    return False


def run_case(ci, timeout_ms, via_api=False):
    from textx import metamodel_from_str
    from textx.scoping import Postponed
    import textx.scoping.providers as P
    from textx.exceptions import TextXError, TextXSemanticError
    name, files = CASES[ci]
    tmp = tempfile.mkdtemp(prefix='c09_')
    for fn, content in files.items():
        with open(os.path.join(tmp, fn), 'w') as f:
            f.write(content)
    main = os.path.join(tmp, 'main')
    # users in the order the resolver will see them are identified by user name
    unames = re.findall(r'user (\w+)', ' '.join(files.values()))
    k = len(unames)
    dep = [[z3.Bool('dep_%s_%s' % (unames[i], unames[j])) for j in range(k)] for i in range(k)]
    R = fixpoint(dep, k)
    ctx = Ctx(timeout_ms, max_paths=300000)

    def path(c):
        mm = metamodel_from_str(GRAMMAR)
        resolved = set()
        calls = [0]
        inner = P.PlainNameImportURI()

        class Prov(P.ImportURI):
            def __init__(self):
                P.ImportURI.__init__(self, inner)

            def __call__(self, obj, attr, obj_ref):
                calls[0] += 1
                if calls[0] > 200:
                    raise RuntimeError('step budget exceeded (non-termination?)')
                i = unames.index(obj.name)
                for j in range(k):
                    if via_api:
                        # "is reference j still unresolved?" asked through textX's own API
                        # (textx.scoping.tools.needs_to_be_resolved), as scope providers do
                        pending = pending_by_api(obj, unames[j])
                    else:
                        pending = unames[j] not in resolved
                    if pending and c.branch(dep[i][j]):
                        return Postponed()
                res = inner(obj, attr, obj_ref)
                if res is not None:
                    resolved.add(obj.name)
                return res
        mm.register_scope_providers({'*.*': Prov()})
        try:
            mm.model_from_file(main)
            outcome = ('ok', None)
        except TextXSemanticError as e:
            outcome = ('semantic', str(e))
        except RuntimeError as e:
            return ('nonterminating', str(e), None)
        except Exception as e:  # noqa
            mdl = c.model()
            return ('bad', 'load raised %s: %s' % (type(e).__name__, e), decode(mdl, dep, unames))
        all_res = And(*R)
        if outcome[0] == 'ok':
            v, mdl = c.must(all_res)
            if v != 'unsat':
                return ('bad' if v == 'sat' else 'unknown', 'load succeeded although the dependencies '
                        'admit no order', decode(mdl, dep, unames))
            return ('ok', None, None)
        msg = outcome[1]
        if 'Unresolvable cross references' not in msg:
            return ('bad', 'unexpected error: %s' % msg[:80], None)
        v, mdl = c.must(Not(all_res))
        if v != 'unsat':
            return ('bad' if v == 'sat' else 'unknown', 'load failed although an order exists',
                    decode(mdl, dep, unames))
        # the message names exactly the unresolved references
        refs = references(files)
        named = re.findall(r'"(\w+)" of class "Obj" at \((\d+), (\d+)\)', msg)
        named_count = {}
        for t, l, cl in named:
            named_count[t] = named_count.get(t, 0) + 1
        # per target name: exactly that many references to it are unresolved
        for t in {t for u, t in refs}:
            terms = [Not(R[unames.index(u)]) for u, tt in refs if tt == t]
            cnt = named_count.get(t, 0)
            exact = exactly(cnt, terms)
            v, mdl = c.must(exact)
            if v != 'unsat':
                return ('bad' if v == 'sat' else 'unknown',
                        'error names %d unresolved reference(s) to %r: %s' % (cnt, t, msg[:120]),
                        decode(mdl, dep, unames))
        return ('ok-fail', None, None)
    try:
        outs = ctx.explore(path)
        if not any(o[0] == 'ok' for o in outs):
            raise RuntimeError('vacuous case (no dependency matrix loads): %s %r' % (name, outs[:1]))
    finally:
        for fn in files:
            try:
                os.remove(os.path.join(tmp, fn))
            except OSError:
                pass
        try:
            os.rmdir(tmp)
        except OSError:
            pass
    return ctx, outs


# ---------------------------------------------------------------- textX's own postponing provider
# ExtRelativeName answers Postponed itself while the reference it starts from (Call.cls) or an extension
# reference on the definition chain (Class.base) is unresolved.  Those references are gated by the symbolic
# dependency matrix; the method references are resolved by the real ExtRelativeName.
B_GRAMMAR = """
Model: classes+=Class calls+=Call;
Class: 'class' name=ID ('extends' bases+=[Class][','])? '{' methods*=Method '}';
Method: 'def' name=ID;
Call: 'call' cls=[Class] '.' method=[Method];
"""
B_CASES = [
    ('ext-relative-name', "class A { def run def stop } class B extends A { def run_fast def go } "
                          "call B.run call B.go"),
    ('ext-relative-name-3', "class A { def run def stop } class B extends A { def run_fast } "
                            "class C extends B { def stop_now def go } call C.run call B.stop call C.run_fast"),
    # a list of bases: the extension chain is complete only when every entry of the list is resolved
    ('ext-relative-name-two-bases', "class A { def m } class B { def m def n } class C extends B, A { def x } "
                                    "call C.m call C.n"),
]


def b_keys(text):
    keys = ['base_%s_%s' % (c, b.strip()) for c, bs in re.findall(r'class (\w+) extends ([\w, ]+?) \{', text)
            for b in bs.split(',')]
    keys += ['cls_%d' % i for i in range(len(re.findall(r'call ', text)))]
    return keys


def b_expected(text):
    """[(owner class, method)] per call: first class on the extension chain that defines exactly that name"""
    classes = {m.group(1): ([b.strip() for b in (m.group(2) or '').split(',') if b.strip()],
                            re.findall(r'def (\w+)', m.group(3)))
               for m in re.finditer(r'class (\w+)(?: extends ([\w, ]+?))? \{([^}]*)\}', text)}

    def chain(c):
        # the class, then the chains of its bases in the order written (depth first)
        return [c] + [x for b in classes[c][0] for x in chain(b)]
    out = []
    for c, meth in re.findall(r'call (\w+)\.(\w+)', text):
        out.append((next((x for x in chain(c) if meth in classes[x][1]), None), meth))
    return out


def b_load(bi, decide):
    """one real load; decide(i, j) -> does wrapped reference i wait for wrapped reference j?"""
    from textx import metamodel_from_str, get_model
    from textx.scoping import Postponed
    import textx.scoping.providers as P
    from textx.exceptions import TextXSemanticError
    text = B_CASES[bi][1]
    keys = b_keys(text)
    mm = metamodel_from_str(B_GRAMMAR)
    resolved = set()
    calls = [0]
    inner = P.PlainName()

    def gated(obj, attr, obj_ref):
        calls[0] += 1
        if calls[0] > 300:
            raise RuntimeError('step budget exceeded (non-termination?)')
        key = ('base_%s_%s' % (obj.name, obj_ref.obj_name) if attr.name == 'bases'
               else 'cls_%d' % [id(x) for x in get_model(obj).calls].index(id(obj)))
        i = keys.index(key)
        for j, kj in enumerate(keys):
            if kj not in resolved and decide(i, j):
                return Postponed()
        res = inner(obj, attr, obj_ref)
        if res is not None:
            resolved.add(key)
        return res
    mm.register_scope_providers({'Class.bases': gated, 'Call.cls': gated,
                                 'Call.method': P.ExtRelativeName('cls', 'methods', 'bases')})
    try:
        m = mm.model_from_str(text)
    except TextXSemanticError as e:
        return ('semantic', str(e))
    got = [(c.method.parent.name, c.method.name) for c in m.calls]
    if got != b_expected(text):
        return ('wrong', 'methods resolved to %s, expected %s' % (got, b_expected(text)))
    return ('ok', None)


def run_builtin(bi, timeout_ms):
    keys = b_keys(B_CASES[bi][1])
    k = len(keys)
    dep = [[z3.Bool('dep_%s_%s' % (keys[i], keys[j])) for j in range(k)] for i in range(k)]
    R = fixpoint(dep, k)
    ctx = Ctx(timeout_ms, max_paths=300000)

    def path(c):
        try:
            out = b_load(bi, lambda i, j: c.branch(dep[i][j]))
        except RuntimeError as e:
            return ('nonterminating', str(e), None)
        except symx.Unsupported:
            raise
        except Exception as e:  # noqa
            return ('bad', 'load raised %s: %s' % (type(e).__name__, e), decode(c.model(), dep, keys))
        all_res = And(*R)
        if out[0] == 'wrong':
            return ('bad', out[1], decode(c.model(), dep, keys))
        if out[0] == 'ok':
            v, mdl = c.must(all_res)
            if v != 'unsat':
                return ('bad' if v == 'sat' else 'unknown', 'load succeeded although the dependencies admit no order',
                        decode(mdl, dep, keys))
            return ('ok', None, None)
        if 'Unresolvable cross references' not in out[1]:
            return ('bad', 'unexpected error: %s' % out[1][:80], decode(c.model(), dep, keys))
        v, mdl = c.must(Not(all_res))
        if v != 'unsat':
            return ('bad' if v == 'sat' else 'unknown', 'load failed although an order exists', decode(mdl, dep, keys))
        return ('ok-fail', None, None)
    outs = ctx.explore(path)
    if not any(o[0] == 'ok' for o in outs):
        raise RuntimeError('vacuous case (no dependency matrix loads): %s %r' % (B_CASES[bi][0], outs[:1]))
    return ctx, outs


def replay_builtin(bi, depmap):
    keys = b_keys(B_CASES[bi][1])
    k = len(keys)
    dep = [[keys[j] in (depmap or {}).get(keys[i], []) for j in range(k)] for i in range(k)]
    R = fixpoint(dep, k)
    try:
        out = b_load(bi, lambda i, j: dep[i][j])
    except Exception as e:  # noqa
        return True, 'load raised %s: %s' % (type(e).__name__, e)
    if out[0] == 'wrong':
        return True, out[1]
    if (out[0] == 'ok') != all(R):
        return True, 'load %s, fixpoint says %s' % ('succeeded' if out[0] == 'ok' else 'failed: ' + out[1][:80],
                                                    'resolvable' if all(R) else 'unresolvable')
    if out[0] == 'semantic' and 'Unresolvable cross references' not in out[1]:
        return True, 'unexpected error: %s' % out[1][:80]
    return False, 'ok'


# ---------------------------------------------------------------- waiting for a reference of another file
# grammar RREL '+m:~active.types': the lookup follows a root-level reference of the own model and of every
# directly imported model; while one of those is unresolved the answer is Postponed, and since every file's
# `active` reference resolves locally an order exists: the load succeeds and each use denotes the type of
# that name in the active collection of the first model among [own model, imports in import order] that has one
X_GRAMMAR = """
Model: imports*=Import colls*=Coll ('active' '=' active=[Coll])? uses*=Use;
Import: 'import' importURI=STRING;
Use: 'use' name=ID '=' type=[Type:ID|+m:~active.types];
Coll: 'coll' name=ID '{' types*=Type '}';
Type: 'type' name=ID;
"""
X_CASES = [
    {'main.m': 'import "lib.m" use a = Int use b = Dbl',
     'lib.m': 'coll L { type Int type Dbl } coll O { type Foo } active = L use c = Int'},
    {'main.m': 'import "l1.m" import "l2.m" coll M { type Own type Int } use a = Int use b = Str',
     'l1.m': 'coll A { type Int type Str } active = A',
     'l2.m': 'import "l1.m" coll B { type Str type Flt } active = B use e = Flt use f = Str'},
]


def cross_file_scenario(xi):
    import shutil
    from textx import metamodel_from_str
    files = X_CASES[xi]
    tmp = tempfile.mkdtemp(prefix='c09x_')
    problems = []
    try:
        for fn, text in files.items():
            with open(os.path.join(tmp, fn), 'w') as f:
                f.write(text)
        mm = metamodel_from_str(X_GRAMMAR)
        try:
            main = mm.model_from_file(os.path.join(tmp, 'main.m'))
        except Exception as e:  # noqa
            return ['files %s: the load fails although every `active` reference resolves locally: %s: %s' % (
                sorted(files), type(e).__name__, str(e).replace(tmp, '')[:100])]
        models = {os.path.basename(m._tx_filename): m for m in main._tx_model_repository.all_models}
        models['main.m'] = main
        for fn, m in models.items():
            scope = [m] + [models[i] for i in re.findall(r'import "([^"]+)"', files[fn])]
            for u in m.uses:
                want = None
                for sm in scope:
                    if sm.active is not None:
                        want = next((t for t in sm.active.types if t.name == re.search(
                            r'use %s = (\w+)' % u.name, files[fn]).group(1)), None)
                        break
                if u.type is not want:
                    problems.append('%s: use %s resolves to %r of %r, expected the one of %r' % (
                        fn, u.name, getattr(u.type, 'name', None), getattr(getattr(u.type, 'parent', None), 'name', None),
                        getattr(getattr(want, 'parent', None), 'name', None)))
        return problems
    finally:
        shutil.rmtree(tmp, ignore_errors=True)


def exactly(n, terms):
    import itertools
    if n > len(terms):
        return False
    alts = []
    for comb in itertools.combinations(range(len(terms)), n):
        alts.append(And(*[terms[i] if i in comb else Not(terms[i]) for i in range(len(terms))]))
    return Or(*alts)


def decode(mdl, dep, unames):
    if mdl is None:
        return None
    out = {}
    for i, u in enumerate(unames):
        out[u] = [unames[j] for j in range(len(unames))
                  if z3.is_true(mdl.eval(dep[i][j], model_completion=True))]
    return out


def obligation(item):
    ci, timeout_ms = item[:2]
    via_api = len(item) > 2 and item[2]
    if isinstance(ci, str):
        ctx, outs = run_builtin(int(ci[1:]), timeout_ms)
    else:
        ctx, outs = run_case(ci, timeout_ms, via_api)
    res = {'case': (B_CASES[int(ci[1:])][0] if isinstance(ci, str) else CASES[ci][0]) + (' (pending asked via needs_to_be_resolved)' if via_api else ''), 'paths': ctx.paths, 'queries': ctx.queries, 'solver_s': ctx.secs,
           'ok': 0, 'okfail': 0, 'bad': [], 'unknown': 0, 'truncated': ctx.truncated}
    for o in outs:
        if o[0] == 'ok':
            res['ok'] += 1
        elif o[0] == 'ok-fail':
            res['okfail'] += 1
        elif o[0] == 'unknown':
            res['unknown'] += 1
        else:
            if len(res['bad']) < 3:
                res['bad'].append({'case': ci, 'kind': o[0], 'detail': o[1], 'dep': o[2], 'via_api': via_api})
    return res


def replay_dep(ci, depmap, via_api=False):
    """concrete replay of one dependency matrix: (violates, detail)"""
    from textx import metamodel_from_str
    from textx.scoping import Postponed
    import textx.scoping.providers as P
    from textx.exceptions import TextXSemanticError
    name, files = CASES[ci]
    tmp = tempfile.mkdtemp(prefix='c09r_')
    try:
        for fn, content in files.items():
            with open(os.path.join(tmp, fn), 'w') as f:
                f.write(content)
        unames = re.findall(r'user (\w+)', ' '.join(files.values()))
        k = len(unames)
        dep = [[unames[j] in (depmap or {}).get(unames[i], []) for j in range(k)] for i in range(k)]
        R = fixpoint(dep, k)
        mm = metamodel_from_str(GRAMMAR)
        resolved = set()
        calls = [0]
        inner = P.PlainNameImportURI()

        class Prov(P.ImportURI):
            def __init__(self):
                P.ImportURI.__init__(self, inner)

            def __call__(self, obj, attr, obj_ref):
                calls[0] += 1
                if calls[0] > 200:
                    raise RuntimeError('step budget exceeded')
                i = unames.index(obj.name)
                for j in range(k):
                    pending = pending_by_api(obj, unames[j]) if via_api else unames[j] not in resolved
                    if pending and dep[i][j]:
                        return Postponed()
                res = inner(obj, attr, obj_ref)
                if res is not None:
                    resolved.add(obj.name)
                return res
        mm.register_scope_providers({'*.*': Prov()})
        try:
            mm.model_from_file(os.path.join(tmp, 'main'))
            ok = True
            msg = ''
        except TextXSemanticError as e:
            ok = False
            msg = str(e)
        except RuntimeError as e:
            return True, str(e)
        except Exception as e:  # noqa
            return True, 'load raised %s: %s' % (type(e).__name__, e)
        exp = all(R)
        if ok != exp:
            return True, 'load %s, fixpoint says %s' % ('succeeded' if ok else 'failed: ' + msg[:80],
                                                        'resolvable' if exp else 'unresolvable')
        if not ok:
            named = sorted(re.findall(r'"(\w+)" of class', msg))
            want = sorted(t for u, t in references(files) if not R[unames.index(u)])
            if named != want:
                return True, 'error names %s, unresolved are %s' % (named, want)
        return False, 'ok'
    finally:
        for fn in files:
            try:
                os.remove(os.path.join(tmp, fn))
            except OSError:
                pass
        try:
            os.rmdir(tmp)
        except OSError:
            pass


def main():
    import textx.model as M
    chk = Check(PROP, 'exploration')
    quick = chk.tier == 'quick'
    cases = [0, 1, 2] if quick else list(range(len(CASES)))
    items = [(ci, 20000, api) for ci in cases for api in (False, True)]
    items += [('b%d' % bi, 20000, False) for bi in ((0, 2) if quick else range(len(B_CASES)))]
    results = pmap(obligation, items)
    chk.cov['functions_encoded'] = src_hash(M.ReferenceResolver.resolve_one_step, M.parse_tree_to_objgraph)
    chk.cov['bounds'] = {'cases': [CASES[c][0] for c in cases], 'references': '3 (quick) / up to 4 (thorough)',
                         'provider_call_budget': 200}
    chk.cov['stubs'] = ['scope provider = ImportURI(PlainNameImportURI) gated by the symbolic dependency matrix',
                        'ExtRelativeName family: PlainName gated by the matrix for Class.base / Call.cls, real ExtRelativeName for Call.method']
    chk.cov['outside_claim'] = ['more references', 'providers whose Postponed decision depends on anything but '
                                'which references are resolved']
    chk.assumptions = ['finite dependency space explored lazily (solver-steered path enumeration); the fixpoint '
                       'oracle is a z3 formula checked for validity under each path condition']
    paths = 0
    for it, (st, r, secs) in zip(items, results):
        if st != 'ok':
            chk.harness_error(r)
            continue
        chk.add_queries(r['queries'], r['solver_s'])
        paths += r['paths']
        chk.cov['inconclusive'] += r['unknown'] + (1 if r['truncated'] else 0)
        for b in r['bad']:
            if isinstance(b['case'], str):
                bad, detail = replay_builtin(int(b['case'][1:]), b['dep']) if b['dep'] is not None else (True, b['detail'])
                cname = B_CASES[int(b['case'][1:])][0]
            else:
                bad, detail = replay_dep(b['case'], b['dep'], b.get('via_api', False)) if b['dep'] is not None else (True, b['detail'])
                cname = CASES[b['case']][0]
            chk.cov['traces_validated_against_impl'] += 1
            if bad:
                chk.violation('%s: %s (dependencies %s): %s' % (cname, b['detail'], b['dep'],
                                                               detail), b)
            else:
                chk.cov['model_mismatches'] += 1
        chk.sample({'case': r['case'], 'paths': r['paths'], 'loads_ok': r['ok'], 'loads_failed_as_expected': r['okfail']})
    # an alternative that has to wait for a reference is not overtaken by a later alternative: the result
    # does not depend on the round in which the reference is tried (scenario shared with C11)
    from . import c11
    for uses_first in (False, True):
        for registered in (False, True):
            pr = c11.unresolved_navigation('', uses_first, registered)
            paths += 1
            if pr:
                chk.violation('RREL with two alternatives, the first one waiting for a reference: %s' % pr,
                              {'waiting_alternative': [uses_first, registered]})
    for xi in range(len(X_CASES)):
        for pr in cross_file_scenario(xi)[:2]:
            chk.violation(pr, {'cross_file': xi})
        paths += 1
    chk.cov['bounds']['cross_file'] = "grammar RREL '+m:~active.types' over 2 and 3 files (concrete loads)"
    chk.cov['paths_explored'] = paths
    chk.cov['evaluations'] = max(chk.cov['evaluations'], paths)
    chk.cov['distinct_nontrivial'] = paths
    chk.cov['exhaustive'] = True
    if chk.cov['model_mismatches']:
        chk.harness_error('a counterexample did not reproduce')
    from . import extras7
    for fn_ in ('proxy_postponement',):
        for pr in getattr(extras7, fn_)()[:2]:
            chk.violation(pr, {'extras7': fn_})
        chk.cov['traces_validated_against_impl'] += 1
    chk.cov.setdefault('bounds', {})['concrete_supplements_round7'] = ['proxy_postponement']
    return chk.finish('every feasible valuation pattern of the dependency matrix that the resolver can observe is '
                      'one path = one real load; success / failure and the named unresolved references are '
                      'checked against the least fixpoint by z3')


def replay(data):
    if isinstance(data, dict) and data.get('extras7'):
        from . import extras7
        pr = getattr(extras7, data['extras7'])()
        return bool(pr), pr[:2]
    if 'waiting_alternative' in data:
        from . import c11
        pr = c11.unresolved_navigation('', *data['waiting_alternative'])
        return bool(pr), pr
    if 'cross_file' in data:
        pr = cross_file_scenario(data['cross_file'])
        return bool(pr), pr[:2]
    if isinstance(data['case'], str):
        return replay_builtin(int(data['case'][1:]), data['dep'])
    return replay_dep(data['case'], data['dep'], data.get('via_api', False))
