"""
C05 — containment links and the model navigation API are consistent.

symx runs the real `get_children` / `get_children_of_type` /
`get_parent_of_type` / `get_model` on real models with the `selector` and
`should_follow` predicates *uninterpreted*: one symbolic boolean per object,
consulted lazily, so every valuation the traversal can observe is one
z3-feasible path; `children_first` is a symbolic selector too.  On every path
the returned list must equal the reference traversal (containment attributes
taken from the grammar AST, never from the live metaclass): every contained
object satisfying the selector exactly once, parents before children (or
after), pruned below `not should_follow`, references adding no children.
Models: solver-enumerated witnesses (one per accepted character-class string)
of the recursive / abstract-containment / back-reference grammars of the
corpus, plus user-class scenarios: the same (falsy) user classes serving two
metamodels whose grammars differ, and user classes on which some collected
attributes cannot be set directly (read-only property, restrictive __slots__)
and whose __init__ does not store `parent`.  parent / get_model / nearest-ancestor facts
are checked on the same models.
"""
import z3

from ..common import Check, pmap, src_hash, tier
from ..symtext import SymInput, Unsupported
from ..symx import Ctx
from .. import corpus, pegcheck, gram
from ..pegcheck import Formulas, real_load
from ..gram import S, A, Str, Ref, Asg, Rule, Star, Opt, ObjRef

PROP = 'C05'

V1 = [Rule('M', Asg('es', '+=', Ref('E'))), Rule('E', A(Ref('C'), Ref('P'))),
      Rule('P', S(Str('p'), Asg('name', '=', Ref('ID')), Asg('ps', '*=', Ref('Q')), Str(';'))),
      Rule('C', S(Str('c'), Asg('name', '=', Ref('ID')), Asg('ps', '*=', Ref('Q')), Str(';'))),
      Rule('Q', S(Str('q'), Asg('v', '=', Ref('INT'))))]
V2 = [Rule('M', Asg('es', '+=', Ref('E'))), Rule('E', A(Ref('C'), Ref('P'))),
      Rule('P', S(Str('p'), Asg('name', '=', Ref('ID')), Asg('ps', '*=', Ref('Q')), Str(';'))),
      Rule('C', S(Str('c'), Asg('name', '=', Ref('ID')), Asg('ps', '*=', Ref('Q')),
                  Star(S(Str('n'), Asg('nested', '+=', Ref('E')))), Str(';'))),
      Rule('Q', S(Str('q'), Asg('v', '=', Ref('INT'))))]
SCENARIOS = [
    corpus.G('shared-user-classes', V2, tags=['user']),
    corpus.G('restricted-user-classes', V2, tags=['user']),
    corpus.G('class-default-user-classes', V2, tags=['user']),
]


def grammars():
    names = ('recursive', 'nested-obj', 'abstract', 'objref', 'plus-sep-obj', 'kinds-objref-abstract',
             'kinds-abstract-attr-type', 'mixed-list')
    return [g for g in corpus.ALL if g['name'] in names] + SCENARIOS


def build(g):
    if g['name'] == 'restricted-user-classes':
        from textx import metamodel_from_str

        # user classes on which some of the collected attributes cannot be set directly (a read-only
        # property, __slots__ without the position attributes) and whose __init__ does not store
        # `parent` itself: textX applies every attribute it can, `parent` included (docs: metamodel.md)
        class C:
            def __init__(self, parent=None, name=None, ps=None, nested=None):
                self._name = name
                self.ps = ps
                self.nested = nested

            @property
            def name(self):
                return self._name

        class Q:
            __slots__ = ('v', 'parent')

            def __init__(self, parent=None, v=None):
                self.v = v
        return metamodel_from_str(gram.render_grammar(V2), classes=[C, Q])
    if g['name'] == 'class-default-user-classes':
        from textx import metamodel_from_str

        # user classes that document their attributes with class-level defaults (a mutable one among them):
        # every object still gets its own values and lists; an earlier model of the same classes exists
        class C:
            name = None
            ps = []
            nested = []
            parent = None

            def __init__(self, **kw):
                for k, v in kw.items():
                    setattr(self, k, v)

        class Q:
            v = 0

            def __init__(self, parent=None, v=None):
                self.parent = parent
                self.v = v
        mm = metamodel_from_str(gram.render_grammar(V2), classes=[C, Q])
        mm.model_from_str('c b q 2 n c d q 3;;')
        return mm
    if 'user' in g['tags']:
        from textx import metamodel_from_str

        # both user classes are falsy (an empty-container-like __len__ / an
        # explicit __bool__): textX must never use the truth value of a model
        # object to decide about containment links
        class C:
            def __init__(self, **kw):
                for k, v in kw.items():
                    setattr(self, k, v)

            def __bool__(self):
                return False

        class P(C):
            # the class of rule P is a Python subclass of the class of rule C: the types of the model
            # API are the rules, an object of rule P is not "of type C"
            def __len__(self):
                return 0
        mm1 = metamodel_from_str(gram.render_grammar(V1), classes=[C, P])
        mm1.model_from_str('p a q 1; c b q 2;')          # the application used version 1 before
        return metamodel_from_str(gram.render_grammar(V2), classes=[C, P])
    return pegcheck.build_mm(g)


def containment(g):
    """rule -> [containment attribute names] in definition order, from the AST"""
    kinds = gram.rule_kinds(g['rules'])
    out = {}
    for name, params, body in g['rules']:
        attrs = []
        for x in gram.subexprs(body):
            if x[0] == 'asg' and x[1] not in attrs:
                rhs = x[3]
                cont = rhs[0] == 'ref' and kinds.get(rhs[1], 'match') != 'match'
                attrs.append(x[1])
                out.setdefault(name, [])
                if cont and x[1] not in out[name]:
                    out[name].append(x[1])
        out.setdefault(name, [])
    return out


def children_of(o, cont):
    res = []
    for an in cont.get(type(o).__name__, []):
        v = getattr(o, an, None)
        # an abstract rule with match alternatives also yields primitive values: those are not model objects
        if isinstance(v, list):
            res += [x for x in v if hasattr(type(x), '_tx_attrs')]
        elif hasattr(type(v), '_tx_attrs'):
            res.append(v)
    return res


def all_objects(root, cont):
    out, seen = [], set()

    def walk(o):
        if id(o) in seen:
            return
        seen.add(id(o))
        out.append(o)
        for ch in children_of(o, cont):
            walk(ch)
    walk(root)
    return out


def explore_model(g, mm, model, cont, max_paths):
    from textx import get_children, get_children_of_type, get_parent_of_type, get_model
    objs = all_objects(model, cont)
    index = {id(o): i for i, o in enumerate(objs)}
    problems = []
    # concrete facts
    for o in objs:
        if get_model(o) is not model:
            problems.append('get_model(#%d) is not the root' % index[id(o)])
        for ch in children_of(o, cont):
            if getattr(ch, 'parent', None) is not o:
                problems.append('child #%d of #%d has a different parent' % (index[id(ch)], index[id(o)]))
    if hasattr(model, 'parent'):
        problems.append('the root has a parent')
    for o in objs:
        anc = []
        p = o
        while hasattr(p, 'parent'):
            p = p.parent
            anc.append(p)
        for tname in {type(a).__name__ for a in anc} | {'Nope'}:
            want = next((a for a in anc if type(a).__name__ == tname), None)
            if get_parent_of_type(tname, o) is not want:
                problems.append('get_parent_of_type(%s, #%d)' % (tname, index[id(o)]))
            # the type may also be given as the class itself
            tcls = next((type(a) for a in anc if type(a).__name__ == tname), None)
            if tcls is not None and get_parent_of_type(tcls, o) is not want:
                problems.append('get_parent_of_type(<class %s>, #%d)' % (tname, index[id(o)]))
    for tname in {type(o).__name__ for o in objs}:
        want = [o for o in objs if type(o).__name__ == tname]
        got = get_children_of_type(tname, model)
        got_by_class = get_children_of_type(type(want[0]), model)
        if [id(x) for x in got_by_class] != [id(x) for x in want]:
            problems.append('get_children_of_type(<class %s>): %s, expected %s' % (
                tname, [index.get(id(x)) for x in got_by_class], [index[id(x)] for x in want]))
        if [id(x) for x in got] != [id(x) for x in want]:
            problems.append('get_children_of_type(%s): %s, expected %s' % (
                tname, [index.get(id(x)) for x in got], [index[id(x)] for x in want]))
    if len(objs) > 7:
        objs_for_sym = None      # too many predicates for an exhaustive exploration: concrete facts only
        return {'paths': 0, 'problems': problems, 'objects': len(objs), 'queries': {}, 'secs': 0.0}
    ctx = Ctx(10000, max_paths=max_paths, free_selectors=True)

    def path(c):
        # the traversal also offers primitive attribute values to should_follow:
        # only model objects carry a symbolic predicate
        sel = lambda o: id(o) in index and c.branch(z3.Bool('sel_%d' % index[id(o)]))       # noqa: E731
        fol = lambda o: id(o) not in index or c.branch(z3.Bool('fol_%d' % index[id(o)]))    # noqa: E731
        cf = c.branch(z3.Bool('children_first'))
        got = get_children(sel, model, children_first=cf, should_follow=fol)
        exp, seen = [], set()

        def follow(o):
            if id(o) in seen:
                return
            if not cf and sel(o):
                exp.append(o)
                seen.add(id(o))
            for ch in children_of(o, cont):
                if fol(ch):
                    follow(ch)
            if cf and sel(o):
                exp.append(o)
                seen.add(id(o))
        follow(model)
        if [id(x) for x in got] != [id(x) for x in exp]:
            return ('bad', [index.get(id(x), '?') for x in got], [index[id(x)] for x in exp], cf)
        return ('ok',)
    outs = ctx.explore(path)
    for o in outs:
        if o[0] == 'bad':
            problems.append('get_children returned %s, expected %s (children_first=%s)' % (o[1], o[2], o[3]))
            break
    return {'paths': ctx.paths, 'problems': problems, 'objects': len(objs), 'queries': ctx.queries,
            'secs': ctx.secs}


def obligation(item):
    gi, n, wlimit, max_paths = item
    g = grammars()[gi]
    res = {'grammar': g['name'], 'n': n, 'models': 0, 'paths': 0, 'bad': [], 'queries': {'sat': 0, 'unsat': 0, 'unknown': 0},
           'solver_s': 0.0}
    try:
        mm = build(g)
        inp = SymInput.symbolic(n)
        f = Formulas(g, mm, inp, want_patched=False, want_ref=False)
        cond = f.acc_i
        if 'user' in g['tags']:
            # models of the scenario must use the containment attribute that is
            # new in the second grammar: fingerprint digit of (C, nested) >= 1
            from ..alg import And, lift_int
            w = f.fpindex.w(('asg', 'C', 'nested'))
            cond = And(f.acc_i, (lift_int(f.fp_i) / w) % f.fpindex.base >= 1)
        texts, exhausted, z = pegcheck.enumerate_classes(inp, cond, wlimit, 30000)
    except Unsupported as e:
        res['unsupported'] = str(e)
        return res
    for k in z.queries:
        res['queries'][k] += z.queries[k]
    res['solver_s'] += z.secs
    cont = containment(g)
    for text in texts:
        kind, model = real_load(mm, text)
        if kind != 'ok' or not hasattr(type(model), '_tx_attrs'):
            continue
        res['models'] += 1
        r = explore_model(g, mm, model, cont, max_paths)
        res['paths'] += r['paths']
        if r['problems'] and len(res['bad']) < 3:
            res['bad'].append({'grammar': g['name'], 'text': text, 'problems': r['problems'][:3]})
    return res


def main():
    import textx.model as M
    chk = Check(PROP, 'model_checking')
    quick = chk.tier == 'quick'
    N = 7 if quick else 10
    WL = 6 if quick else 30
    MP = 3000 if quick else 20000
    gs = grammars()
    items = [(gi, n, WL, MP) for gi in range(len(gs)) for n in range(3, N + 1) if 'user' not in gs[gi]['tags']]
    items += [(gi, n, WL, MP) for gi in range(len(gs)) for n in range(11, 13 if quick else 15)
              if 'user' in gs[gi]['tags']]
    items.sort(key=lambda it: -it[1])
    results = pmap(obligation, items)
    chk.cov['functions_encoded'] = src_hash(M.get_children, M.get_children_of_type, M.get_parent_of_type, M.get_model)
    chk.cov['bounds'] = {'input_chars': N, 'models_per_(grammar,length)': WL, 'objects_per_model_for_symbolic_predicates': 7,
                         'paths_per_model': MP}
    chk.cov['stubs'] = ['selector / should_follow = one symbolic boolean per object, consulted lazily']
    chk.cov['outside_claim'] = ['larger models (only the concrete facts are checked there)', 'grammars outside the list']
    chk.assumptions = ['the predicates are uninterpreted: every valuation is feasible, so z3 only steers the enumeration '
                       'of the valuations the traversal can observe', 'containment attributes of the reference come '
                       'from the grammar AST']
    paths = models = 0
    for it, (st, r, secs) in zip(items, results):
        if st != 'ok':
            chk.harness_error(r)
            continue
        if 'unsupported' in r:
            chk.cov['unsupported'] += 1
            continue
        chk.add_queries(r['queries'], r['solver_s'])
        paths += r['paths']
        models += r['models']
        for b in r['bad'][:1]:
            chk.cov['traces_validated_against_impl'] += 1
            chk.violation('grammar %s, model %r: %s' % (b['grammar'], b['text'], b['problems']), b)
        chk.sample({'grammar': r['grammar'], 'n': r['n'], 'models': r['models'], 'paths': r['paths']})
    if models == 0:
        chk.harness_error('vacuous: no model explored')
    chk.cov['paths_explored'] = paths
    chk.cov['evaluations'] = max(chk.cov['evaluations'], paths)
    chk.cov['distinct_nontrivial'] = paths
    chk.cov['models'] = models
    from . import extras7
    for fn_ in ('same_named_classes_of_imported_grammar',):
        for pr in getattr(extras7, fn_)()[:2]:
            chk.violation(pr, {'extras7': fn_})
        chk.cov['traces_validated_against_impl'] += 1
    chk.cov.setdefault('bounds', {})['concrete_supplements_round7'] = ['same_named_classes_of_imported_grammar']
    return chk.finish('per model (solver-enumerated witness): one path per observable valuation of the selector / '
                      'should_follow predicates and children_first')


def replay(data):
    if isinstance(data, dict) and data.get('extras7'):
        from . import extras7
        pr = getattr(extras7, data['extras7'])()
        return bool(pr), pr[:2]
    g = next(x for x in grammars() if x['name'] == data['grammar'])
    mm = build(g)
    kind, model = real_load(mm, data['text'])
    if kind != 'ok':
        return True, 'load failed: %s' % kind
    r = explore_model(g, mm, model, containment(g), 20000)
    return bool(r['problems']), r['problems'][:3]
