"""
C07 — default reference resolution finds the unique matching object.

symx runs whole real loads; right before reference resolution
(`pre_ref_resolution_callback`, an API hook) the names of all named objects,
the reference texts and the keys of the metamodel's `builtins` mapping are
replaced by opaque symbolic names (equality decided by z3).  The real
`ReferenceResolver.resolve_one_step`, `PlainName.__call__`, `get_children`,
`textx_isinstance` and the builtins fallback then run on symbolic names.  On
every feasible path, with M = {o | name(o) = ref and o conforms to the target
rule} as z3 terms, validity under the path condition of:
    |M| = 1            =>  the reference is that object
    |M| = 0, builtin   =>  the conforming builtin of that name
    |M| = 0 otherwise  =>  'Unknown object' TextXSemanticError for that reference
    |M| > 1            =>  'not unique' error
"""
import itertools
import re

import z3

from ..alg import And, Or, Not
from ..common import Check, pmap, src_hash, tier
from .. import symx
from ..symx import Ctx, SymName

PROP = 'C07'

GRAMMAR = """
Model: things+=Thing users+=User;
Thing: Sig | Port;
Sig: 'sig' name=ID;
Port: 'port' name=ID;
User: Probe | Wire;
Probe: 'probe' name=ID 'target' target=[Sig] ';';
Wire: 'wire' name=ID 'target' target=[Port] ('more' more+=[Thing])? ';';
"""
MODELS = [
    "sig s1 port p1 probe q target s1 ; wire w target p1 ;",
    "sig s1 sig s2 port p1 wire w target p1 more s1 ;",
    "sig s1 port p1 port p2 probe q target s1 ; probe r target s1 ;",
    "sig s1 port p1 wire w target p1 more p1 s1 ;",
    "sig s1 sig s2 port p1 port p2 probe q target s2 ; wire w target p2 more s1 ;",
]


class SymBuiltins:
    """bounded symbolic mapping name -> builtin object"""

    def __init__(self, slots):
        self.slots = slots        # [(SymName, obj)]

    def __bool__(self):
        return bool(self.slots)

    def __len__(self):
        return len(self.slots)

    def __contains__(self, key):
        for k, v in self.slots:
            if k == key:
                return True
        return False

    def __getitem__(self, key):
        for k, v in self.slots:
            if k == key:
                return v
        raise KeyError(key)

    def get(self, key, default=None):
        for k, v in self.slots:
            if k == key:
                return v
        return default

    def keys(self):
        return [k for k, v in self.slots]

    def values(self):
        return [v for k, v in self.slots]

    def items(self):
        return list(self.slots)

    def __iter__(self):
        return iter(self.keys())


def eqt(a, b):
    if a.t.eq(b.t):
        return True
    return a.t == b.t


def explore(item):
    mi, with_builtins, timeout_ms = item
    from textx import metamodel_from_str, get_children, textx_isinstance
    from textx.exceptions import TextXSemanticError
    text = MODELS[mi]
    ctx = Ctx(timeout_ms, max_paths=60000)

    def path(c):
        # with_builtins == 2: the (still empty) mapping is handed to the meta-model at creation and filled
        # afterwards through the caller's reference; == True: assigned to metamodel.builtins
        given = SymBuiltins([]) if with_builtins == 2 else None
        mm = metamodel_from_str(GRAMMAR, builtins=given) if given is not None else metamodel_from_str(GRAMMAR)
        st = {}

        def substitute(model):
            named = get_children(lambda x: hasattr(x, 'name'), model)
            st['named'] = named
            st['names'] = []
            for i, o in enumerate(named):
                n = SymName('n%d' % i)
                o.name = n
                st['names'].append(n)
            parser = model._tx_parser if hasattr(model, '_tx_parser') else None
            refs = []
            import gc
            # the parser holding the cross references is the clone used for this load
            for obj in gc.get_referrers(model):
                pass
            st['refs'] = refs
        holder = {}
        orig_clone = mm._parser_blueprint.clone

        def clone():
            p = orig_clone()
            holder['parser'] = p
            return p
        mm._parser_blueprint.clone = clone

        def cb(model):
            substitute(model)
            p = holder['parser']
            refs = []
            for j, (obj, attr, cref) in enumerate(p._crossrefs):
                r = SymName('r%d' % j)
                cref.obj_name = r
                refs.append((obj, attr, cref, r))
            st['refs'] = refs
            if with_builtins:
                b1 = mm['Sig']()
                b2 = mm['Port']()
                k1, k2 = SymName('b0'), SymName('b1')
                b1.name, b2.name = k1, k2
                st['builtins'] = [(k1, b1), (k2, b2)]
                c.assume(k1.t != k2.t)      # a real dict has distinct keys
                if given is not None:
                    given.slots = st['builtins']
                else:
                    mm.builtins = SymBuiltins(st['builtins'])
            else:
                st['builtins'] = []
        try:
            m = mm.model_from_str(text, pre_ref_resolution_callback=cb)
            outcome = ('ok', None)
        except TextXSemanticError as e:
            outcome = ('error', e)
        except symx.Unsupported:
            raise
        except Exception as e:  # noqa
            return ('bad', 'load raised %s: %s' % (type(e).__name__, e), None)
        refs = st['refs']
        named, names = st['named'], st['names']
        # which reference failed?
        failed = None
        if outcome[0] == 'error':
            msg = str(outcome[1])
            mo = re.search(r'<r(\d+)>', msg)
            if not mo:
                return ('bad', 'error does not name the reference: %s' % msg[:80], None)
            failed = int(mo.group(1))
        problems = []
        for j, (obj, attr, cref, r) in enumerate(refs):
            if failed is not None and j > failed:
                break
            conf = [(o, eqt(names[i], r)) for i, o in enumerate(named) if textx_isinstance(o, cref.cls)]
            count_ge2 = Or(*[And(a[1], b[1]) for a, b in itertools.combinations(conf, 2)])
            none = Not(Or(*[c_ for o, c_ in conf]))
            bconf = [(v, eqt(k, r)) for k, v in st['builtins'] if textx_isinstance(v, cref.cls)]
            bany = Or(*[And(eqt(k, r), True) for k, v in st['builtins']])
            if failed == j:
                msg = str(outcome[1])
                if 'not unique' in msg:
                    prop = count_ge2
                elif 'Unknown object' in msg:
                    # nothing matches and no conforming builtin of that name
                    prop = And(none, Not(Or(*[c_ for v, c_ in bconf])))
                else:
                    problems.append('reference %d: unexpected error %s' % (j, msg[:60]))
                    continue
            else:
                got = getattr(obj, attr.name)
                if isinstance(got, list):
                    idx = [x for x in refs if x[0] is obj and x[1] is attr].index((obj, attr, cref, r))
                    got = got[idx] if idx < len(got) else None
                alts = []
                for o, c_ in conf:
                    if o is got:
                        alts.append(And(c_, Not(count_ge2)))
                for v, c_ in bconf:
                    if v is got:
                        alts.append(And(none, c_))
                prop = Or(*alts)
            v, mdl = c.must(prop)
            if v == 'sat':
                problems.append({'reference': j, 'outcome': outcome[0] if failed == j else 'resolved',
                                 'names': concretise(mdl, names, [x[3] for x in refs], st['builtins'])})
            elif v == 'unknown':
                return ('unknown', None, None)
        if problems:
            return ('bad', problems, None)
        return ('ok', None, None)
    try:
        outs = ctx.explore(path)
    except symx.Unsupported as e:
        return {'model': mi, 'builtins': with_builtins, 'unsupported': str(e), 'paths': ctx.paths,
                'queries': ctx.queries, 'solver_s': ctx.secs, 'bad': [], 'ok': 0, 'unknown': 0,
                'truncated': False}
    return {'model': mi, 'builtins': with_builtins, 'paths': ctx.paths, 'queries': ctx.queries,
            'solver_s': ctx.secs, 'bad': [o[1] for o in outs if o[0] == 'bad'][:4],
            'ok': sum(1 for o in outs if o[0] == 'ok'), 'unknown': sum(1 for o in outs if o[0] == 'unknown'),
            'truncated': ctx.truncated}


def concretise(mdl, names, refs, builtins):
    vals = {}

    def nm(t):
        key = str(mdl.eval(t, model_completion=True))
        if key not in vals:
            vals[key] = 'abcdefghijklmnopqrstuvwxyz'[len(vals)]
        return vals[key]
    return {'objects': [nm(n.t) for n in names], 'references': [nm(r.t) for r in refs],
            'builtins': [nm(k.t) for k, v in builtins]}


def replay_concrete(mi, with_builtins, assignment):
    """fresh real load with concrete names; returns (violates, detail)"""
    from textx import metamodel_from_str, get_children, textx_isinstance
    from textx.exceptions import TextXSemanticError
    given = {} if with_builtins == 2 else None
    mm = metamodel_from_str(GRAMMAR, builtins=given) if given is not None else metamodel_from_str(GRAMMAR)
    holder = {}
    orig_clone = mm._parser_blueprint.clone

    def clone():
        p = orig_clone()
        holder['parser'] = p
        return p
    mm._parser_blueprint.clone = clone
    st = {}

    def cb(model):
        named = get_children(lambda x: hasattr(x, 'name'), model)
        for o, n in zip(named, assignment['objects']):
            o.name = n
        st['named'] = named
        refs = []
        for (obj, attr, cref), r in zip(holder['parser']._crossrefs, assignment['references']):
            cref.obj_name = r
            refs.append((obj, attr, cref))
        st['refs'] = refs
        if with_builtins:
            b1, b2 = mm['Sig'](), mm['Port']()
            b1.name, b2.name = assignment['builtins']
            st['b'] = [(b1.name, b1), (b2.name, b2)]
            if given is not None:
                given.update(dict(st['b']))
            else:
                mm.builtins = dict(st['b'])
        else:
            st['b'] = []
    try:
        mm.model_from_str(MODELS[mi], pre_ref_resolution_callback=cb)
        err = None
    except TextXSemanticError as e:
        err = str(e)
    # reference semantics, concretely: the first reference (textual order)
    # that cannot be resolved decides the error
    for j, (obj, attr, cref) in enumerate(st['refs']):
        M = [o for o in st['named'] if o.name == cref.obj_name and textx_isinstance(o, cref.cls)]
        B = [v for k, v in st['b'] if k == cref.obj_name and textx_isinstance(v, cref.cls)]
        if len(M) > 1:
            return (err is None or 'not unique' not in err), {'reference': j, 'expected': 'not unique', 'got': err}
        if len(M) == 0 and not B:
            return (err is None or 'Unknown object' not in err), {'reference': j, 'expected': 'Unknown object',
                                                                  'got': err}
    if err is not None:
        return True, {'expected': 'all references resolve', 'got': err}
    for j, (obj, attr, cref) in enumerate(st['refs']):
        M = [o for o in st['named'] if o.name == cref.obj_name and textx_isinstance(o, cref.cls)]
        B = [v for k, v in st['b'] if k == cref.obj_name and textx_isinstance(v, cref.cls)]
        want = M[0] if M else B[0]
        got = getattr(obj, attr.name)
        if isinstance(got, list):
            idx = [x for x in st['refs'] if x[0] is obj and x[1] is attr].index((obj, attr, cref))
            got = got[idx]
        if got is not want:
            return True, {'reference': j, 'expected': getattr(want, 'name', None), 'got': getattr(got, 'name', None)}
    return False, 'ok'


def typed_names_scenario():
    """concrete supplement: names and reference texts matched by converting rules (INT, FLOAT, STRING,
    NUMBER) — a reference resolves to the unique object whose name equals the converted reference value;
    unknown / ambiguous names are reported as such; the builtins fall-back is keyed by the same values"""
    from textx import metamodel_from_str
    from textx.exceptions import TextXSemanticError
    problems = []
    for rule, names, absent in (('INT', ['1', '22', '-3'], '7'), ('FLOAT', ['1.5', '2', '3e2'], '9.5'),
                                ('STRING', ['"a b"', "'c'", '"d\\"e"'], '"zz"'), ('NUMBER', ['1', '2.5', '30'], '4'),
                                ('ID', ['a', 'b1', '_c'], 'zz'),
                                # falsy names (round 8, C07k): an object named 0 / 0.0 is a named object
                                ('INT', ['0', '22', '-3'], '7'), ('INT', ['1', '22', '-3'], '0'),
                                ('FLOAT', ['1.5', '0', '3e2'], '9.5'), ('FLOAT', ['1.5', '2', '3e2'], '0.0'),
                                ('NUMBER', ['1', '2.5', '0'], '4'), ('NUMBER', ['1', '2.5', '30'], '0')):
        g = ("Model: rooms+=Room doors*=Door;\nRoom: 'room' name=%(r)s;\n"
             "Door: 'door' a=[Room:%(r)s] ('to' bs+=[Room:%(r)s][','])?;" % {'r': rule})
        mm = metamodel_from_str(g)
        rooms = ' '.join('room %s' % n for n in names)
        try:
            m = mm.model_from_str('%s door %s to %s, %s door %s' % (rooms, names[1], names[2], names[0], names[2]))
            got = [m.doors[0].a, m.doors[0].bs[0], m.doors[0].bs[1], m.doors[1].a]
            want = [m.rooms[1], m.rooms[2], m.rooms[0], m.rooms[2]]
            if any(g_ is not w for g_, w in zip(got, want)):
                problems.append('names by %s: references resolve to rooms %s, expected %s' % (
                    rule, [getattr(x, 'name', x) for x in got], [w.name for w in want]))
        except Exception as e:  # noqa
            problems.append('names by %s: valid model fails: %s: %s' % (rule, type(e).__name__, str(e)[:80]))
        for text, want in (('%s door %s' % (rooms, absent), 'Unknown object'),
                           ('%s room %s door %s' % (rooms, names[0], names[0]), 'not unique')):
            try:
                mm.model_from_str(text)
                problems.append('names by %s: %r loads, expected %s' % (rule, text, want))
            except TextXSemanticError as e:
                if want not in str(e):
                    problems.append('names by %s: %r fails with %s, expected %s' % (rule, text, str(e)[:60], want))
            except Exception as e:  # noqa
                problems.append('names by %s: %r raises %s' % (rule, text, type(e).__name__))
        # builtins keyed by the converted value
        mm2 = metamodel_from_str(g)
        b = mm2['Room']()
        probe = mm2.model_from_str('room %s' % absent)
        b.name = probe.rooms[0].name
        mm2.builtins = {b.name: b}
        try:
            m = mm2.model_from_str('%s door %s' % (rooms, absent))
            if m.doors[0].a is not b:
                problems.append('names by %s: builtin fall-back resolves to %r' % (rule, m.doors[0].a))
        except Exception as e:  # noqa
            problems.append('names by %s: builtin named %r not found: %s' % (rule, b.name, str(e)[:60]))
    # named objects inside a containment list that also holds primitive values (abstract rule with match
    # alternatives), the list starting with a primitive
    mm = metamodel_from_str("Model: vals+=Value refs*=Ref;\nValue: INT | STRING | Item;\nItem: 'item' name=ID;\n"
                            "Ref: 'ref' r=[Item] ('also' rs+=[Item])*;")
    try:
        m = mm.model_from_str('5 "s" item a 7 item b ref b also a b')
        items = [v for v in m.vals if hasattr(v, 'name')]
        if m.refs[0].r is not items[1] or m.refs[0].rs != [items[0], items[1]]:
            problems.append('mixed list: references resolve to %s' % ([m.refs[0].r] + m.refs[0].rs,))
    except Exception as e:  # noqa
        problems.append('mixed list (primitive values first): valid model fails: %s: %s' % (type(e).__name__, str(e)[:80]))
    for text, want in (('5 item a ref zz', 'Unknown object'), ('5 item a 6 item a ref a', 'not unique')):
        try:
            mm.model_from_str(text)
            problems.append('mixed list: %r loads, expected %s' % (text, want))
        except TextXSemanticError as e:
            if want not in str(e):
                problems.append('mixed list: %r fails with %s, expected %s' % (text, str(e)[:60], want))
    return problems


def main():
    import textx.model as M
    import textx.scoping.providers as P
    chk = Check(PROP, 'model_checking')
    quick = chk.tier == 'quick'
    models = [0, 1, 2] if quick else list(range(len(MODELS)))
    timeout_ms = 20000 if quick else 120000
    items = [(mi, b, timeout_ms) for mi in models for b in (False, True, 2)]
    results = pmap(explore, items)
    chk.cov['functions_encoded'] = src_hash(M.ReferenceResolver.resolve_one_step, P.PlainName.__call__,
                                            M.get_children, M.textx_isinstance)
    chk.cov['bounds'] = {'models': [MODELS[i] for i in models], 'named_objects_max': 7, 'references_max': 3,
                         'builtins_slots': 2}
    chk.cov['stubs'] = ['names substituted in pre_ref_resolution_callback (API hook); metamodel.builtins replaced by a '
                        'bounded symbolic mapping; the parser clone is captured to reach its cross-reference list']
    chk.cov['outside_claim'] = ['other model shapes', 'PlainName(multi_metamodel_support=False)', 'multi-file models']
    chk.assumptions = ['names are opaque (only equality is observable by the code under test)', 'z3']
    paths = dis = 0
    for it, (st, r, secs) in zip(items, results):
        if st != 'ok':
            chk.harness_error(r)
            continue
        chk.add_queries(r['queries'], r['solver_s'])
        paths += r['paths']
        dis += r['ok']
        chk.cov['inconclusive'] += r['unknown'] + (1 if r['truncated'] else 0)
        if r.get('unsupported'):
            chk.cov['unsupported'] += 1
            chk.sample({'unsupported': r['unsupported'], 'model': MODELS[r['model']]})
        if r['paths'] and r['ok'] == 0 and not r['bad']:
            chk.harness_error('vacuous: model %d' % r['model'])
        for b in r['bad']:
            if isinstance(b, str):
                chk.violation('model %r: %s' % (MODELS[r['model']], b), {'model': r['model'], 'builtins': r['builtins'],
                                                                         'detail': b})
                continue
            for pr in b:
                if isinstance(pr, str):
                    chk.violation('model %r: %s' % (MODELS[r['model']], pr),
                                  {'model': r['model'], 'builtins': r['builtins'], 'detail': pr})
                    continue
                bad, detail = replay_concrete(r['model'], r['builtins'], pr['names'])
                chk.cov['traces_validated_against_impl'] += 1
                if bad:
                    chk.violation('model %r with names %s: %s' % (MODELS[r['model']], pr['names'], detail),
                                  {'model': r['model'], 'builtins': r['builtins'], 'names': pr['names']})
                else:
                    chk.cov['model_mismatches'] += 1
                    chk.sample({'model_mismatch': pr, 'detail': detail})
                break
            break
        chk.sample({'model': MODELS[r['model']], 'builtins': r['builtins'], 'paths': r['paths'], 'discharged': r['ok']})
    for pr in typed_names_scenario()[:3]:
        chk.violation(pr, {'typed_names': True})
    chk.cov['bounds']['typed_names'] = 'names / references matched by INT, FLOAT, STRING, NUMBER, ID: 4 loads each (concrete)'
    chk.cov['paths_explored'] = paths
    chk.cov['distinct_nontrivial'] = paths
    chk.cov['obligations'] = paths
    chk.cov['discharged'] = dis
    if chk.cov['model_mismatches']:
        chk.harness_error('a solver counterexample did not reproduce with concrete names')
    from . import extras7
    for fn_ in ('references_per_assignment',):
        for pr in getattr(extras7, fn_)()[:2]:
            chk.violation(pr, {'extras7': fn_})
        chk.cov['traces_validated_against_impl'] += 1
    chk.cov.setdefault('bounds', {})['concrete_supplements_round7'] = ['references_per_assignment']
    return chk.finish('one exploration per (model, builtins off / assigned / given at creation and filled later); every feasible path of the real resolution code '
                      'over symbolic names ends in z3 validity queries, one per reference')


def replay(data):
    if isinstance(data, dict) and data.get('extras7'):
        from . import extras7
        pr = getattr(extras7, data['extras7'])()
        return bool(pr), pr[:2]
    if data.get('typed_names'):
        pr = typed_names_scenario()
        return bool(pr), pr[:3]
    if 'names' not in data:
        return True, data.get('detail')
    return replay_concrete(data['model'], data['builtins'], data['names'])
