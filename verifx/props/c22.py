"""
C22 — whitespace and comments between tokens do not change the model.

Base inputs are solver-enumerated: per corpus grammar and length n <= N, one
witness per accepted character-class string of the live parser model (sympeg +
z3 AllSAT with class blocking), i.e. every parse structure of that length.  For
each witness the reference semantics (refpeg, concrete mode) yields the token
boundaries of the accepting derivation together with the whitespace state that
is active there.  Relational replay on the real textX:
  * at every boundary where skipping is active, every character of the active
    whitespace set and a match of the grammar's Comment rule is inserted: the
    real model of the mutated input must equal the real model of the witness
    (positions aside);
  * at every boundary, whitespace characters that are NOT in the active set
    (noskipws, ws='...' or eolterm in force) are inserted as well: the real
    outcome (acceptance and model) must equal the reference semantics' outcome
    on the mutated input — only the characters of the active set are skipped.
The verdict of this property is by replay on solver-enumerated structures; it is
labelled exploration, not a solver verdict.
"""
from ..common import Check, pmap, src_hash, tier
from ..symtext import SymInput, Unsupported
from ..refpeg import RefPeg
from .. import corpus, pegcheck, modelcmp
from ..pegcheck import Formulas, real_load
from . import c01
from ..gram import S, Asg, Rule, Ref, Str, Sup, Opt

PROP = 'C22'
WS_ALL = [' ', '\t', '\n', '\r']

EXTRA = [
    corpus.G('skipws-rule-under-global-noskipws',
             [Rule('M', S(Str('m'), Asg('p', '=', Ref('P')))),
              Rule('P', S(Str('<'), Asg('n', '=', Ref('INT')), Str('>')), skipws=True), corpus.COMMENT],
             tags=['ws'], skipws=False),
    # modified rules whose body is a single match
    corpus.G('single-match-rule-noskipws',
             [Rule('M', S(Asg('a', '=', Ref('ID')), Ref('Sep'), Asg('b', '=', Ref('ID')))),
              Rule('Sep', Str(':'), skipws=False)], tags=['ws']),
    corpus.G('single-match-rule-skipws-under-noskipws',
             [Rule('M', S(Asg('a', '=', Ref('INT')), Ref('Sep'), Asg('b', '=', Ref('ID')))),
              Rule('Sep', Str(':'), skipws=True)], tags=['ws'], skipws=False),
    corpus.G('single-match-rule-ws',
             [Rule('M', S(Asg('a', '=', Ref('ID')), Ref('Sep'), Asg('b', '=', Ref('ID')))),
              Rule('Sep', Str(':'), ws='\n')], tags=['ws']),
    # a *suppressed* reference to a sequence rule that carries whitespace modifiers
    corpus.G('suppressed-ref-to-noskipws-rule',
             [Rule('M', S(Asg('a', '=', Ref('ID')), Sup(Ref('Arrow')), Asg('b', '=', Ref('ID')))),
              Rule('Arrow', S(Str('-'), Str('>')), skipws=False)], tags=['ws']),
    corpus.G('suppressed-ref-to-ws-rule',
             [Rule('M', S(Asg('a', '=', Ref('ID')), Sup(Ref('Arrow')), Asg('b', '=', Ref('ID')))),
              Rule('Arrow', S(Str('-'), Str('>')), ws='\t')], tags=['ws']),
    # escape sequences in the ws modifier: \r and \t together with a blank
    corpus.G('ws-escapes-cr-tab',
             [Rule('M', S(Asg('ps', '+=', Ref('P')), Str('e'))),
              Rule('P', S(Str('p'), Asg('n', '=', Ref('INT')), Str(';')), ws='\r\t ')], tags=['ws']),
    corpus.G('global-ws-comment', [Rule('M', S(Str('a'), Asg('xs', '+=', Ref('INT')))), corpus.COMMENT_BLOCK],
             tags=['ws'], ws=' \n'),
    # an escape next to other characters in the ws modifier: all of them are whitespace in the rule
    corpus.G('ws-escape-and-others',
             [Rule('M', S(Asg('ps', '+=', Ref('P')), Str('e'))),
              Rule('P', S(Str('p'), Asg('n', '=', Ref('INT')), Str(';')), ws='\t ,')], tags=['ws']),
    # the empty set given for the whole grammar: nothing is skipped (one rule has its own set)
    corpus.G('global-ws-empty', [Rule('M', S(Str('a'), Asg('xs', '+=', Ref('INT'), sep=Str(',')), Opt(Asg('p', '=', Ref('P'))))),
                                 Rule('P', S(Str('p'), Asg('n', '=', Ref('INT'))), ws=' ')],
             tags=['ws'], ws=''),
]


def corpus_list():
    names = ('seq-choice', 'star-sep', 'plus-sep-obj', 'eolterm', 'eolterm-sep-asg', 'ung-sep', 'pred-not-kw',
             'suppress-match-rule', 'abstract', 'nested-obj', 'recursive', 'comment-line', 'comment-block',
             'comment-line-ignore-case', 'comment-rule-ref',
             'noskipws-rule', 'noskipws-inherit', 'noskipws-reset', 'ws-rule', 'ws-rule-comment',
             'global-noskipws', 'global-ws', 'optional-attrs', 'kw-ident')
    return [g for g in corpus.BASIC if g['name'] in names] + EXTRA


def comment_instances(g):
    for name, params, body in g['rules']:
        if name == 'Comment' and body[0] == 're':
            if body[1].startswith('//'):
                return ['//c\n']
            return ['/*c*/']
    return []


def active_chars(st):
    skipws, ws, eol = st
    if not skipws:
        return ''
    if eol:
        ws = ws.replace('\n', '').replace('\r', '')
    return ws


def obligation(item):
    gi, n, wlimit, timeout_ms, known_ids = item
    g = corpus_list()[gi]
    res = {'known': {}, 'grammar': g['name'], 'n': n, 'queries': {}, 'solver_s': 0.0, 'violations': [], 'witnesses': 0,
           'mutants': 0, 'validated': 0, 'boundaries': 0, 'ref_disagree': 0}
    try:
        mm = pegcheck.build_mm(g)
        inp = SymInput.symbolic(n)
        f = Formulas(g, mm, inp, want_patched=False, want_ref=False)
        texts, exhausted, z = pegcheck.enumerate_classes(inp, f.acc_i, wlimit, timeout_ms)
    except Unsupported as e:
        res['unsupported'] = str(e)
        return res
    res['queries'] = z.queries
    res['solver_s'] = z.secs
    res['exhaustive'] = exhausted
    rcfg = pegcheck.ref_cfg(g)
    comments = comment_instances(g)
    rules = {r[0]: r for r in g['rules']}
    import os
    import tempfile
    tmpd = tempfile.mkdtemp(prefix='c22_')
    tmpf = os.path.join(tmpd, 'm.txt')
    file_checks = [0]

    def file_disagrees(mut):
        """a model file holding exactly this text (no carriage returns: text mode translates those) is
        accepted / rejected like the string, with the same model"""
        if chr(13) in mut or file_checks[0] >= 60:
            return None
        file_checks[0] += 1
        ks, ms = real_load(mm, mut)
        kf, mf = pegcheck.real_load_file(mm, mut, tmpf)
        if ks != kf:
            return 'as a string: %s, as the content of a model file: %s' % (ks, kf)
        if ks == 'ok' and not modelcmp.same(modelcmp.canon_real(ms), modelcmp.canon_real(mf)):
            return 'string and file models differ: %s' % modelcmp.first_diff(modelcmp.canon_real(ms), modelcmp.canon_real(mf))
        return None
    for text in texts:
        res['witnesses'] += 1
        toks = RefPeg(g['rules'], SymInput.concrete(text), **rcfg).tokens()
        k0, m0 = real_load(mm, text)
        res['validated'] += 1
        if toks is None or k0 != 'ok':
            continue           # reference and real disagree on the base input: C01's business
        base = modelcmp.canon_real(m0)
        seen = set()
        for (p0, start, end, st) in toks:
            act = active_chars(st)
            for q in sorted({p0, start}):
                res['boundaries'] += 1
                cands = [(w, True) for w in act]     # every character of the active set, not only blanks
                if act:
                    cands += [(cm, True) for cm in comments
                              if not cm.endswith('\n') or '\n' in act]
                cands += [(w, False) for w in WS_ALL if w not in act]
                for w, active in cands:
                    mut = text[:q] + w + text[q:]
                    if (mut, active) in seen:
                        continue
                    seen.add((mut, active))
                    res['mutants'] += 1
                    if mut[-1:] in WS_ALL or mut[:1] in WS_ALL:
                        fd = file_disagrees(mut)
                        if fd and len(res['violations']) < 3:
                            res['violations'].append({'grammar': g['name'], 'text': text, 'mutant': mut, 'inserted': w,
                                                      'at': q, 'active': active, 'from_file': True, 'detail': fd})
                    kind, detail, ce = c01.compare_one(g, mm, {}, mut)
                    res['validated'] += 1
                    if kind in ('accept', 'model'):
                        fid = c01.classify_known(g, mm, {}, mut, ce, known_ids, prop='C22')
                        if fid is not None:
                            res['known'].setdefault(fid, {'text': text, 'mutant': mut, 'detail': detail})
                            continue
                        if len(res['violations']) < 3:
                            res['violations'].append({'grammar': g['name'], 'text': text, 'mutant': mut,
                                                      'inserted': w, 'at': q, 'active': active,
                                                      'detail': 'real differs from the reference on the mutated '
                                                                'input: %s' % detail})
                        continue
                    if active:
                        k1, m1 = real_load(mm, mut)
                        if k1 != 'ok':
                            # the reference also rejects (checked above): the reference semantics says this
                            # insertion is not neutral here (e.g. token glued by a regex) -> not our claim
                            res['ref_disagree'] += 1
                            continue
                        m1c = modelcmp.canon_real(m1)
                        if not modelcmp.same(base, m1c):
                            exp = modelcmp.expected(ce['refmodel'], rules, True) if ce['ref'][0] else None
                            if exp is not None and modelcmp.same(exp, m1c):
                                res['ref_disagree'] += 1      # reference agrees with real: not neutral here
                                continue
                            if len(res['violations']) < 3:
                                res['violations'].append({'grammar': g['name'], 'text': text, 'mutant': mut,
                                                          'inserted': w, 'at': q, 'active': True,
                                                          'detail': 'model changed: %s' % modelcmp.first_diff(base, m1c)})
    import shutil
    shutil.rmtree(tmpd, ignore_errors=True)
    return res


def main():
    import textx.lang as L
    import textx.model as M
    chk = Check(PROP, 'exploration')
    quick = chk.tier == 'quick'
    N = 5 if quick else 7
    WL = 40 if quick else 300
    gs = corpus_list()
    items = [(gi, n, WL, 30000, sorted(chk.known_ids | {c01.NODELESS})) for gi in range(len(gs))
             for n in range(1, N + 1)]
    items.sort(key=lambda it: -it[1])
    results = pmap(obligation, items)
    chk.cov['functions_encoded'] = src_hash(L.TextXVisitor.visit_textx_model, L.TextXVisitor.visit_rule_params,
                                            L.TextXVisitor.visit_textx_rule, M.get_model_parser)
    chk.cov['bounds'] = {'input_chars': N, 'witness_classes_per_obligation': WL, 'grammars': len(gs),
                         'inserted': 'one whitespace character or one comment per boundary'}
    chk.cov['outside_claim'] = ['longer inputs', 'several insertions at once', 'grammars whose regexes can match '
                                'whitespace or comment openers']
    chk.assumptions = ['token boundaries and active whitespace sets are taken from the reference semantics (refpeg)',
                       'base inputs: one representative per accepted character-class string (z3 AllSAT)']
    wit = mut = 0
    for it, (st, r, secs) in zip(items, results):
        if st != 'ok':
            chk.harness_error(r)
            continue
        if 'unsupported' in r:
            chk.cov['unsupported'] += 1
            continue
        chk.add_queries(r['queries'], r['solver_s'])
        chk.cov['traces_validated_against_impl'] += r['validated']
        wit += r['witnesses']
        mut += r['mutants']
        for fid, k in r['known'].items():
            if fid == c01.NODELESS:
                continue       # reported by C01
            chk.known_hit(fid, "Arpeggio caches the position after skipped comments per input position, ignoring "
                               "the whitespace state — e.g. grammar %s: %r: %s" % (r['grammar'], k['mutant'], k['detail']))
        for v in r['violations'][:1]:
            chk.violation('grammar %s: inserting %r at %d of %r (active=%s): %s' % (
                v['grammar'], v['inserted'], v['at'], v['text'], v['active'], v['detail']), v)
        chk.sample({'grammar': r['grammar'], 'n': r['n'], 'witnesses': r['witnesses'], 'mutants': r['mutants'],
                    'boundaries': r['boundaries']})
    chk.cov['witness_replays'] = wit
    chk.cov['evaluations'] = max(chk.cov['evaluations'], mut)
    chk.cov['distinct_nontrivial'] = mut
    return chk.finish('base inputs: one witness per accepted character-class string per (grammar, length) from z3; '
                      'each (witness, boundary, inserted text) is one distinct mutated input replayed on the real textX')


def replay(data):
    g = next(x for x in corpus.ALL + EXTRA if x['name'] == data['grammar'])
    mm = pegcheck.build_mm(g)
    if data.get('from_file'):
        import os
        import shutil
        import tempfile
        d = tempfile.mkdtemp(prefix='c22r_')
        try:
            ks, ms = real_load(mm, data['mutant'])
            kf, mf = pegcheck.real_load_file(mm, data['mutant'], os.path.join(d, 'm.txt'))
            if ks != kf:
                return True, 'string: %s, file: %s' % (ks, kf)
            if ks == 'ok':
                a, b = modelcmp.canon_real(ms), modelcmp.canon_real(mf)
                return (not modelcmp.same(a, b)), modelcmp.first_diff(a, b)
            return False, 'ok'
        finally:
            shutil.rmtree(d, ignore_errors=True)
    kind, detail, ce = c01.compare_one(g, mm, {}, data['mutant'])
    if kind in ('accept', 'model'):
        return True, detail
    if data.get('active'):
        k0, m0 = real_load(mm, data['text'])
        k1, m1 = real_load(mm, data['mutant'])
        if k0 == 'ok' and k1 == 'ok':
            a, b = modelcmp.canon_real(m0), modelcmp.canon_real(m1)
            return (not modelcmp.same(a, b)), modelcmp.first_diff(a, b)
    return False, 'ok'
