"""
C29 — graph exports are well-formed for any model and metamodel.

Path-exhaustive (level P) enumeration with symx selectors: every string of up
to K characters over the characters that matter to DOT (double quote,
backslash, pipe, braces, angle brackets, newline, question mark, a letter) is
placed in each position of a model where a string can appear (object name,
string attribute, element of a primitive list, element of a mixed list, file
name); the real `model_export_to_file` / `metamodel_export_tofile` (DOT and
PlantUML renderers) write into a buffer and the output is checked by an
independent DOT reader (Graphviz lexical rules for quoted strings and HTML
labels, statement grammar, record-label grammar): it must parse, declare a node
for every model object / every common and abstract class, and PlantUML output
must have balanced braces and declare every common and abstract class.
"""
import io
import re

import z3

from ..common import Check, pmap, src_hash, tier
from ..symx import Ctx

PROP = 'C29'
ALPHA = ['"', '\\', '|', '{', '}', '<', '>', '\n', '?', 'a']

GRAMMAR = """
Model: 'model' name=ID things+=Thing;
Thing: Named | Bag;
Named: 'named' name=STRING ('label' label=STRING)? ('tags' tags+=STRING[','])? ('to' to=[Named:STRING])?;
Bag: 'bag' name=ID ('owner' owner=[Named:STRING])? items+=Item[','];
Item: Named | STRING | INT;
"""
MM_GRAMMARS = [
    r'''Model: xs+=X; X: A | B; A: 'a' n=ID v=Lit?; B: 'b' refs+=[A] opt=INT? any=Any; Any: A | INT;
        Lit: '"' | '{|}' | /[<>]+\\/ | "it's" '?';''',
    r'''Model: ('{' things*=Thing['|'] '}')#; Thing: name=ID ':' val=Val; Val: STRING | /\d+"\|/ | '>';''',
]
# long match rules full of characters that need escaping in the HTML-like table of the match rules: the first
# alternative is 0..7 letters long, which moves every later character over any fixed column
_OPS = ['<<=', '>>=', '&&', '->', '<=', '>=', '<>', '&', '<', '>', '"', "'x'", '=>', '<-', '&=', '>>', '<<', '|', '{', '}']
MM_GRAMMARS += ["Model: ops+=Op; Op: %s%s;" % ("'%s' | " % ('a' * k) if k else '',
                                               ' | '.join('"%s"' % o.replace('"', '\\"') if "'" in o else "'%s'" % o for o in _OPS))
                for k in range(8)]


# ---------------------------------------------------------------- DOT reader
class DotError(Exception):
    pass


def dot_tokens(text):
    i, n = 0, len(text)
    out = []
    while i < n:
        c = text[i]
        if c.isspace():
            i += 1
        elif text.startswith('//', i):
            j = text.find('\n', i)
            i = n if j < 0 else j
        elif text.startswith('/*', i):
            j = text.find('*/', i)
            if j < 0:
                raise DotError('unterminated comment')
            i = j + 2
        elif c == '"':
            j = i + 1
            buf = []
            while True:
                if j >= n:
                    raise DotError('unterminated quoted string starting at %d: %r' % (i, text[i:i + 30]))
                if text[j] == '\\' and j + 1 < n and text[j + 1] in '"\\':
                    buf.append(text[j:j + 2])
                    j += 2
                elif text[j] == '"':
                    break
                else:
                    buf.append(text[j])
                    j += 1
            out.append(('str', ''.join(buf)))
            i = j + 1
        elif c == '<' and not text.startswith('<-', i):
            depth, j = 0, i
            while j < n:
                if text[j] == '<':
                    depth += 1
                elif text[j] == '>':
                    depth -= 1
                    if depth == 0:
                        break
                j += 1
            if j >= n:
                raise DotError('unterminated HTML label')
            out.append(('html', text[i + 1:j]))
            i = j + 1
        elif text.startswith('->', i) or text.startswith('--', i):
            out.append(('op', text[i:i + 2]))
            i += 2
        elif c in '{}[]=;,:':
            out.append(('p', c))
            i += 1
        else:
            m = re.match(r'[A-Za-z_\u0080-￿][\w\u0080-￿]*|-?(\.\d+|\d+(\.\d*)?)', text[i:])
            if not m:
                raise DotError('unexpected character %r at %d: %r' % (c, i, text[max(0, i - 20):i + 20]))
            out.append(('id', m.group(0)))
            i += len(m.group(0))
    return out


def parse_dot(text):
    """returns (node ids with attribute dicts, edges) or raises DotError"""
    toks = dot_tokens(text)
    pos = [0]
    nodes, edges = {}, []

    def peek():
        return toks[pos[0]] if pos[0] < len(toks) else ('eof', None)

    def take(kind=None, val=None):
        t = peek()
        if (kind and t[0] != kind) or (val is not None and t[1] != val):
            raise DotError('expected %s %r, got %r (token %d)' % (kind, val, t, pos[0]))
        pos[0] += 1
        return t

    def is_id(t):
        return t[0] in ('id', 'str', 'html')

    def attr_list():
        d = {}
        while peek() == ('p', '['):
            take()
            while peek() != ('p', ']'):
                k = take()
                if not is_id(k):
                    raise DotError('attribute name expected, got %r' % (k,))
                take('p', '=')
                v = take()
                if not is_id(v):
                    raise DotError('attribute value expected, got %r' % (v,))
                d[k[1]] = v
                if peek() in (('p', ','), ('p', ';')):
                    take()
            take('p', ']')
        return d

    def stmts():
        while peek() != ('p', '}'):
            t = peek()
            if t == ('eof', None):
                raise DotError('unexpected end of file')
            if t == ('p', ';'):
                take()
                continue
            if t == ('id', 'subgraph'):
                take()
                if is_id(peek()):
                    take()
                take('p', '{')
                stmts()
                take('p', '}')
                continue
            if t[0] == 'id' and t[1] in ('node', 'edge', 'graph') and toks[pos[0] + 1] == ('p', '['):
                take()
                attr_list()
                continue
            if not is_id(t):
                raise DotError('statement expected, got %r (token %d)' % (t, pos[0]))
            a = take()
            if peek() == ('p', '='):
                take()
                v = take()
                if not is_id(v):
                    raise DotError('value expected')
                continue
            if peek()[0] == 'op':
                take()
                b = take()
                if not is_id(b):
                    raise DotError('edge target expected, got %r' % (b,))
                edges.append((a[1], b[1], attr_list()))
                nodes.setdefault(a[1], {})
                nodes.setdefault(b[1], {})
                continue
            nodes.setdefault(a[1], {}).update(attr_list())
    t = take('id')
    if t[1] not in ('digraph', 'graph', 'strict'):
        raise DotError('digraph expected')
    if is_id(peek()):
        take()
    take('p', '{')
    stmts()
    take('p', '}')
    if peek() != ('eof', None):
        raise DotError('text after the closing brace: %r' % (peek(),))
    return nodes, edges


def check_record_label(label):
    """record label grammar: fields separated by |, nesting by {}; the
    characters { } | < > must be escaped to appear literally"""
    depth = 0
    i = 0
    port = False
    while i < len(label):
        c = label[i]
        if c == '\\' and i + 1 < len(label):
            i += 2
            continue
        if c == '{':
            depth += 1
        elif c == '}':
            depth -= 1
            if depth < 0:
                raise DotError('unbalanced } in record label %r' % label)
        elif c == '<':
            if port:
                raise DotError('nested < in record label %r' % label)
            port = True
        elif c == '>':
            if not port:
                raise DotError('unmatched > in record label %r' % label)
            port = False
        i += 1
    if depth != 0 or port:
        raise DotError('unbalanced record label %r' % label)


def validate_dot(text, expect_nodes):
    nodes, edges = parse_dot(text)
    for nid, attrs in nodes.items():
        lab = attrs.get('label')
        if lab is not None and lab[0] == 'str' and attrs.get('shape', ('id', 'record'))[1] == 'record':
            check_record_label(lab[1])
    missing = [n for n in expect_nodes if str(n) not in nodes or 'label' not in nodes[str(n)]]
    if missing:
        raise DotError('%d object(s) without a node statement' % len(missing))


# ---------------------------------------------------------------- harness
def q(s):
    return '"' + s.replace('\\', '\\\\').replace('"', '\\"') + '"' if False else '"' + s.replace('"', '\\"') + '"'


def build_model(slot, value):
    """model text with `value` in one string slot; returns (mm, model)"""
    from textx import metamodel_from_str
    classes = []
    if slot.startswith('equal-'):
        # user classes whose instances compare by value: two distinct, equal objects are two model objects
        class Named:
            def __init__(self, parent=None, name=None, label=None, tags=None, to=None):
                self.parent, self.name, self.label, self.tags, self.to = parent, name, label, tags, to

            def __eq__(self, other):
                return type(other) is type(self) and (self.name, self.label) == (other.name, other.label)
            if slot == 'equal-objects':
                def __hash__(self):
                    return hash((self.name, self.label))
        classes = [Named]
    mm = metamodel_from_str(GRAMMAR, classes=classes)
    v = value
    if v.endswith('\\') or '\n' in v and False:
        pass
    lit = q(v)
    texts = {
        'name': 'model m named %s label "l" named "z" to %s' % (lit, lit),
        'attr': 'model m named "n" label %s' % lit,
        'list': 'model m named "n" tags "t", %s' % lit,
        'mixed-first': 'model m bag b %s, named "n", 3' % lit,
        'mixed-later': 'model m bag b named "n", %s, 4' % lit,
        'equal-objects': 'model m named %s label "l" tags "first" named %s label "l" tags "second"' % (lit, lit),
        'equal-unhashable-objects': 'model m named %s label "l" bag b named %s label "l", 3' % (lit, lit),
    }
    m = mm.model_from_str(texts[slot])
    return mm, m


def export_model(m, repo_filename=None):
    from textx.export import model_export_to_file
    buf = io.StringIO()
    if repo_filename is not None:
        m._tx_filename = repo_filename

        class Repo(list):
            pass
        model_export_to_file(buf, repo=[m])
    else:
        model_export_to_file(buf, m)
    return buf.getvalue()


def judge_model(slot, value):
    from textx import get_children
    try:
        if slot == 'filename':
            mm, m = build_model('attr', 'x')
            out = export_model(m, repo_filename='dir/' + value + '.m')
        else:
            mm, m = build_model(slot, value)
            out = export_model(m)
    except Exception as e:  # noqa
        from textx.exceptions import TextXError
        if isinstance(e, TextXError):
            return None       # the value cannot be written in this slot (not a string literal of the model language)
        return 'export raised %s: %s' % (type(e).__name__, e)
    objs = [id(o) for o in get_children(lambda x: True, m)]
    try:
        validate_dot(out, objs)
    except DotError as e:
        return 'invalid DOT: %s' % e
    return False


def explore(item):
    slot, K = item
    ctx = Ctx(10000, max_paths=200000, free_selectors=True)
    # 'long:<n>': the enumerated characters follow a prefix of n letters, so that the
    # 20-character truncation of long values (dot_repr) cuts inside / right after them
    prefix = ''
    if slot.startswith('long:'):
        prefix = 'a' * int(slot.split(':')[1])
        slot = 'attr' if slot.count(':') == 1 else slot.split(':')[2]

    def path(c):
        chars = []
        for i in range(K):
            if i > 0 and c.branch(z3.Bool('end_%d' % i)):
                break
            ch = ALPHA[-1]
            for j in range(len(ALPHA) - 1):
                if c.branch(z3.Bool('ch_%d_%d' % (i, j))):
                    ch = ALPHA[j]
                    break
            chars.append(ch)
        value = prefix + ''.join(chars)
        if value.endswith('\\') and slot != 'filename':
            return (None, value)         # not expressible as a STRING of the model language
        return (judge_model(slot, value), value)
    outs = ctx.explore(path)
    bad = [(r, v) for r, v in outs if r]
    return {'slot': (item[0] if prefix else slot), 'paths': ctx.paths, 'checked': sum(1 for r, v in outs if r is not None),
            'bad': [{'slot': slot, 'value': v, 'detail': r} for r, v in bad[:4]], 'nbad': len(bad)}


MM_FILES = {     # a grammar with an import: both files define a common rule Item and an abstract rule Thing
    'main.tx': "import base\nModel: items+=Item things+=Thing others+=Other;\nItem: 'i' name=ID;\nThing: Item | Note;\nNote: 'n' t=STRING;",
    'base.tx': "Other: 'o' items+=Item things+=Thing;\nItem: 'bi' name=ID;\nThing: Item | Blob;\nBlob: 'b' v=INT;",
}


def _file_metamodel():
    import os
    import shutil
    import tempfile
    from textx import metamodel_from_file
    d = tempfile.mkdtemp(prefix='c29g_')
    try:
        for fn, text in MM_FILES.items():
            with open(os.path.join(d, fn), 'w') as f:
                f.write(text)
        return metamodel_from_file(os.path.join(d, 'main.tx'))
    finally:
        shutil.rmtree(d, ignore_errors=True)


KNOWN_TRANSITIVE = 'C29-classes-of-transitively-imported-grammars-missing'


def transitive_import_export():
    """a.tx imports b.tx imports c.tx: the meta-model export declares the classes of all three files.
    Returns (missing per renderer, expected classes); the classifier of the known finding: the missing classes
    are exactly those of grammar files the main file does not import directly"""
    import os
    import shutil
    import tempfile
    from textx import metamodel_from_file
    from textx.export import metamodel_export_tofile, PlantUmlRenderer
    files = {'a.tx': "import b\nA: 'a' bs+=B;", 'b.tx': "import c\nB: 'b' cs+=C;", 'c.tx': "C: 'c' name=ID d=D?;\nD: 'd' v=INT;"}
    d = tempfile.mkdtemp(prefix='c29t_')
    try:
        for fn, text in files.items():
            with open(os.path.join(d, fn), 'w') as f:
                f.write(text)
        mm = metamodel_from_file(os.path.join(d, 'a.tx'))
    finally:
        shutil.rmtree(d, ignore_errors=True)
    expected = {'A': 'direct', 'B': 'direct', 'C': 'transitive', 'D': 'transitive'}
    missing = {}
    buf = io.StringIO()
    metamodel_export_tofile(mm, buf)
    nodes, edges = parse_dot(buf.getvalue())
    labels = [a['label'][1] for a in nodes.values() if 'label' in a]
    missing['dot'] = sorted(nm for nm in expected if not any(re.search(r'(^|[{*])%s\|' % nm, lab) for lab in labels))
    buf = io.StringIO()
    metamodel_export_tofile(mm, buf, renderer=PlantUmlRenderer())
    missing['plantuml'] = sorted(nm for nm in expected if not re.search(r'class\s+(\w+\.)*%s(?![\w.])' % nm, buf.getvalue()))
    return missing, expected


def metamodel_checks():
    from textx import metamodel_from_str
    from textx.export import metamodel_export_tofile, PlantUmlRenderer
    out = []
    n = 0
    for g in MM_GRAMMARS + ['<files: main.tx imports base.tx>']:
        mm = _file_metamodel() if g.startswith('<files') else metamodel_from_str(g)
        classes = [c for c in mm if getattr(c, '_tx_type', None) in ('common', 'abstract')
                   and c.__name__ not in ('OBJECT',)]
        buf = io.StringIO()
        n += 1
        try:
            metamodel_export_tofile(mm, buf)
            nodes, edges = parse_dot(buf.getvalue())
            labels = [a['label'][1] for a in nodes.values() if 'label' in a]
            for nm in {c.__name__ for c in classes}:
                # classes of different grammar files may share a short name: one node each
                want = sum(1 for c in classes if c.__name__ == nm)
                have = sum(1 for lab in labels if re.search(r'(^|[{*])%s\|' % re.escape(nm), lab))
                if have < want:
                    out.append({'kind': 'metamodel-dot', 'grammar': g,
                                'detail': '%d node(s) for the %d class(es) named %s' % (have, want, nm)})
            for nid, attrs in nodes.items():
                lab = attrs.get('label')
                if lab is not None and lab[0] == 'str':
                    check_record_label(lab[1])
                elif lab is not None and lab[0] == 'html':
                    # an HTML-like label is XML: tags balanced, every & starts a complete entity
                    import xml.etree.ElementTree as ET
                    try:
                        ET.fromstring('<r>%s</r>' % lab[1])
                    except ET.ParseError as e:
                        raise DotError('HTML-like label of node %s is not well-formed: %s' % (nid, e))
        except DotError as e:
            out.append({'kind': 'metamodel-dot', 'grammar': g, 'detail': 'invalid DOT: %s' % e})
        except Exception as e:  # noqa
            out.append({'kind': 'metamodel-dot', 'grammar': g, 'detail': '%s: %s' % (type(e).__name__, e)})
        buf = io.StringIO()
        n += 1
        try:
            metamodel_export_tofile(mm, buf, renderer=PlantUmlRenderer())
            text = buf.getvalue()
            body = re.sub(r'legend.*?end legend', '', text, flags=re.S)
            if body.count('{') != body.count('}'):
                out.append({'kind': 'plantuml', 'grammar': g, 'detail': 'unbalanced braces'})
            if not text.strip().startswith('@startuml') or not text.strip().endswith('@enduml'):
                out.append({'kind': 'plantuml', 'grammar': g, 'detail': 'missing @startuml/@enduml'})
            for c in classes:
                # file-based grammars declare classes by their qualified name
                if not re.search(r'class\s+%s(?![\w.])' % re.escape(c._tx_fqn), text):
                    out.append({'kind': 'plantuml', 'grammar': g, 'detail': 'class %s not declared' % c._tx_fqn})
        except Exception as e:  # noqa
            out.append({'kind': 'plantuml', 'grammar': g, 'detail': '%s: %s' % (type(e).__name__, e)})
    return n, out


SLOTS = ['name', 'attr', 'list', 'mixed-first', 'mixed-later', 'filename', 'equal-objects', 'equal-unhashable-objects']
KNOWN = {
    'name': 'C29-name-unescaped',
    'mixed-first': 'C29-primitive-list-element-node-id-unescaped',
    'mixed-later': 'C29-primitive-list-element-node-id-unescaped',
    'filename': 'C29-filename-unescaped',
}


def main():
    import textx.export as E
    chk = Check(PROP, 'exploration')
    quick = chk.tier == 'quick'
    K = 2 if quick else 3
    # long values: prefixes of 17..20 letters put the enumerated characters on the truncation boundary
    long_slots = ['long:%d' % n for n in (17, 18, 19, 20)] + ['long:19:list', 'long:18:mixed-first']
    results = pmap(explore, [(s, K) for s in SLOTS] + [(s, 2 if quick else 3) for s in long_slots])
    chk.cov['functions_encoded'] = src_hash(E.dot_escape, E.dot_repr, E.model_export_to_file, E.metamodel_export_tofile,
                                            E.DotRenderer.render_class, E.PlantUmlRenderer.render_class)
    chk.cov['bounds'] = {'string_chars': K, 'alphabet': ALPHA, 'slots': SLOTS, 'metamodels': len(MM_GRAMMARS),
                         'long_values': 'prefix of 17-20 letters + the enumerated characters (truncation boundary of dot_repr)'}
    chk.cov['outside_claim'] = ['longer strings', 'characters outside the listed alphabet',
                                'rendering by Graphviz itself (an independent reader of the DOT syntax is used)']
    chk.assumptions = ['finite string space enumerated exhaustively (selectors unconstrained: z3 decides nothing)',
                       'DOT lexical rules: in quoted strings \\" and \\\\ are pairs; record labels need { } | < > escaped']
    paths = checked = 0
    for (st, r, secs) in results:
        if st != 'ok':
            chk.harness_error(r)
            continue
        paths += r['paths']
        checked += r['checked']
        for b in r['bad'][:1]:
            fid = KNOWN.get(b['slot'])
            chk.cov['traces_validated_against_impl'] += 1
            if fid and chk.is_known(fid):
                chk.known_hit(fid, 'value %r in slot %s: %s' % (b['value'], b['slot'], b['detail']))
            else:
                chk.violation('string %r as %s: %s' % (b['value'], b['slot'], b['detail']), b)
        chk.sample({'slot': r['slot'], 'strings': r['paths'], 'exported': r['checked'], 'invalid': r['nbad']})
    n, bad = metamodel_checks()
    checked += n
    for b in bad[:4]:
        chk.violation('%s export of %r: %s' % (b['kind'], b['grammar'][:50], b['detail']), b)
    try:
        missing, expected = transitive_import_export()
    except DotError as e:
        missing, expected = {}, {}
        chk.violation('dot export of a grammar in three files (a.tx imports b.tx imports c.tx): invalid DOT: %s' % e,
                      {'transitive_import_export': True})
    checked += 2
    for kind, names in missing.items():
        if not names:
            continue
        what = ('%s export of a grammar in three files (a.tx imports b.tx imports c.tx): no declaration of the '
                'class(es) %s' % (kind, names))
        if chk.is_known(KNOWN_TRANSITIVE) and all(expected[nm] == 'transitive' for nm in names):
            chk.known_hit(KNOWN_TRANSITIVE, what)
        else:
            chk.violation(what, {'transitive_import_export': True})
    for pr in repository_models_scenario()[:2]:
        chk.violation(pr, {'repository_models': True})
    for pr in file_overwrite_scenario()[:2]:
        chk.violation(pr, {'file_overwrite': True})
    checked += 3
    checked += 4
    chk.cov['bounds']['repository_models'] = 'file model with an import / string model loaded afterwards, global repository on/off (concrete)'
    if checked == 0:
        chk.harness_error('vacuous: nothing exported')
    chk.cov['paths_explored'] = paths
    chk.cov['evaluations'] = paths
    chk.cov['distinct_nontrivial'] = checked
    chk.cov['exhaustive'] = True
    from . import extras7
    for fn_ in ('export_falsy_model',):
        for pr in getattr(extras7, fn_)()[:2]:
            chk.violation(pr, {'extras7': fn_})
        chk.cov['traces_validated_against_impl'] += 1
    chk.cov.setdefault('bounds', {})['concrete_supplements_round7'] = ['export_falsy_model']
    return chk.finish('one path per (slot, string over the alphabet); each is one real model load + export; distinct = '
                      'exports actually validated')


def repository_models_scenario():
    """model_export_to_file(f, model) for a model that carries a model repository: the model itself and the
    models of the repository all get their nodes — also when the model is not registered in its repository
    (a string model loaded through a metamodel with a global repository after other files)"""
    import os
    import shutil
    import tempfile
    from textx import metamodel_from_str, get_children
    from textx.export import model_export_to_file
    import textx.scoping.providers as P
    g = "Model: imports*=Import things+=Thing;\nImport: 'import' importURI=STRING;\nThing: 'thing' name=ID ('->' ref=[Thing])?;"
    problems = []
    tmp = tempfile.mkdtemp(prefix='c29r_')
    try:
        with open(os.path.join(tmp, 'a.m'), 'w') as f:
            f.write('thing A1')
        with open(os.path.join(tmp, 'b.m'), 'w') as f:
            f.write('import "a.m"\nthing B1 -> A1')
        for global_repo in (False, True):
            mm = metamodel_from_str(g, global_repository=global_repo)
            mm.register_scope_providers({'*.*': P.PlainNameImportURI()})
            b = mm.model_from_file(os.path.join(tmp, 'b.m'))
            lonely = mm.model_from_str('thing Lonely thing Two -> Lonely')
            for what, model, others in (('file model with an import', b, list(b._tx_model_repository.all_models)),
                                        ('string model loaded after the files', lonely, [])):
                buf = io.StringIO()
                model_export_to_file(buf, model)
                objs = []
                for m in [model] + others:
                    objs += [m] + list(get_children(lambda x: True, m))
                ids = list(dict.fromkeys(id(o) for o in objs))
                try:
                    validate_dot(buf.getvalue(), ids)
                except DotError as e:
                    problems.append('export of a %s (global repository %s): %s' % (what, global_repo, e))
        return problems
    finally:
        shutil.rmtree(tmp, ignore_errors=True)


def file_overwrite_scenario():
    """the path-based exports (model_export, metamodel_export with both renderers): a second, smaller export
    to the same path leaves exactly the new graph in the file"""
    import os
    import shutil
    import tempfile
    from textx import metamodel_from_str, get_children
    from textx.export import model_export, metamodel_export, PlantUmlRenderer
    tmp = tempfile.mkdtemp(prefix='c29f_')
    problems = []
    try:
        mm_big = metamodel_from_str(GRAMMAR)
        mm_small = metamodel_from_str("Tiny: 't' name=ID;")
        big = mm_big.model_from_str('model m named "aaaaaaaaaaaaaaaa" label "llllllllllll" tags "t1", "t2", "t3" named "z" bag b named "n", 3')
        small = mm_small.model_from_str('t x')
        p1 = os.path.join(tmp, 'model.dot')
        model_export(big, p1)
        model_export(small, p1)
        try:
            validate_dot(open(p1).read(), [id(o) for o in [small] + list(get_children(lambda x: True, small))])
        except DotError as e:
            problems.append('model_export to a path that held a bigger export: %s' % e)
        p2 = os.path.join(tmp, 'mm.dot')
        metamodel_export(mm_big, p2)
        metamodel_export(mm_small, p2)
        text = open(p2).read()
        try:
            parse_dot(text)
        except DotError as e:
            problems.append('metamodel_export to a path that held a bigger export: %s' % e)
        if 'Named' in text:
            problems.append('metamodel_export to a path that held a bigger export: classes of the old metamodel remain')
        p3 = os.path.join(tmp, 'mm.pu')
        metamodel_export(mm_big, p3, renderer=PlantUmlRenderer())
        metamodel_export(mm_small, p3, renderer=PlantUmlRenderer())
        text = open(p3).read()
        if text.count('@enduml') != 1 or text.count('{') != text.count('}') or 'Named' in text:
            problems.append('PlantUML metamodel_export to a path that held a bigger export leaves old content')
        return problems
    finally:
        shutil.rmtree(tmp, ignore_errors=True)


def replay(data):
    if isinstance(data, dict) and data.get('extras7'):
        from . import extras7
        pr = getattr(extras7, data['extras7'])()
        return bool(pr), pr[:2]
    if data.get('file_overwrite'):
        pr = file_overwrite_scenario()
        return bool(pr), pr[:2]
    if data.get('repository_models'):
        pr = repository_models_scenario()
        return bool(pr), pr[:2]
    if 'slot' in data:
        r = judge_model(data['slot'], data['value'])
        return bool(r), r
    if data.get('transitive_import_export'):
        try:
            missing, expected = transitive_import_export()
        except DotError as e:
            return True, 'invalid DOT: %s' % e
        return any(missing.values()), missing
    n, bad = metamodel_checks()
    return bool(bad), bad[:2]
