"""
C18 — a failing multi-file load leaves the model repositories clean.

Fault enumeration (level P), steered by symx selectors: a successful load of
`good` (imports lib.m) comes first; then `main` (imports lib.m, mid.m; mid.m
imports deep.m) is loaded while one file of its closure fails in one phase:
  failing file   main | mid.m | deep.m
  failure        syntax error | unknown reference | missing import target |
                 object processor raising on an element of that file |
                 model processor raising for that file
  repository     metamodel-wide global repository on / off
  provider       PlainNameImportURI | FQNImportURI(search_path)
After the failing load:
  * the global repository holds exactly the models cached by the earlier
    successful load, the very same objects; none of the attempt's models is in
    it or in the repository of any surviving model;
  * loading the failing file again gives the same error (nothing half-built is
    served from a cache);
  * after the file is corrected the load succeeds, every file of the closure
    is represented by one model, files cached before are the cached objects
    (global repository), and every cross-file reference points into the
    registered model of its file.
Every combination is one real run; finite space, enumerated exhaustively.
"""
import os
import tempfile

import z3

from ..common import Check, pmap, src_hash
from ..symx import Ctx

PROP = 'C18'

GRAMMAR = """
Model: imports*=Import items*=Item;
Import: 'import' importURI=STRING;
Item: 'item' name=ID ('->' ref=[Item])? ('!' boom?='boom')?;
"""
GOOD = {
    'good': 'import "lib.m"\nitem g1 -> l1',
    'lib.m': 'item l1\nitem l2 -> l1',
    'main': 'import "lib.m"\nimport "mid.m"\nitem m1 -> l2\nitem m2 -> d1x',
    'mid.m': 'import "deep.m"\nitem d1x -> e1',
    'deep.m': 'item e1',
}
# note: main's second reference goes to an element of mid.m; mid.m's goes to deep.m
FILES = ['main', 'mid.m', 'deep.m']
KINDS = ['syntax', 'unknown-reference', 'missing-import', 'object-processor', 'model-processor']
PROVIDERS = ['PlainNameImportURI', 'FQNImportURI-search-path']


def broken(fn, kind):
    text = GOOD[fn]
    if kind == 'syntax':
        return text + '\nitem %'
    if kind == 'unknown-reference':
        return text + '\nitem zz -> nowhere'
    if kind == 'missing-import':
        return 'import "absent.m"\n' + text
    if kind == 'object-processor':
        return text + '\nitem pp ! boom'
    return text          # model-processor: the text is fine, the processor rejects the file


class Boom(ValueError):
    """what a processor may raise instead of a TextXError: an ordinary exception"""


class BoomInterrupt(KeyboardInterrupt):
    """... or something that is not even an Exception (interrupt / cancellation)"""


EXCS = ['textx', 'exception', 'interrupt']


def raise_as(exc, msg):
    from textx.exceptions import TextXSemanticError
    if exc == 'exception':
        raise Boom(msg)
    if exc == 'interrupt':
        raise BoomInterrupt(msg)
    raise TextXSemanticError(msg)


def build_mm(pi, global_repo, reject):
    """reject: {'file': name or None} — the model processor fails for that file"""
    from textx import metamodel_from_str
    from textx.exceptions import TextXSemanticError
    import textx.scoping.providers as P
    classes = []
    if reject.get('eq_root'):
        # a user class for the root rule whose instances compare equal when they hold the same number of
        # items: repositories must tell models apart by identity
        class Model:
            def __init__(self, imports=None, items=None):
                self.imports, self.items = imports, items

            def __eq__(self, other):
                return type(other) is type(self) and len(self.items or []) == len(other.items or [])

            def __hash__(self):
                return 7
        classes = [Model]
    mm = metamodel_from_str(GRAMMAR, global_repository=global_repo, classes=classes)
    if PROVIDERS[pi] == 'PlainNameImportURI':
        prov = P.PlainNameImportURI()
    else:
        prov = P.FQNImportURI(search_path=[])
    mm.register_scope_providers({'*.*': prov})

    def item_proc(it):
        if it.boom:
            raise_as(reject.get('exc', 'textx'), 'object processor rejects %s' % it.name)
    mm.register_obj_processors({'Item': item_proc})

    def model_proc(model, metamodel):
        if reject.get('file') and os.path.basename(model._tx_filename or '') == reject['file']:
            raise_as(reject.get('exc', 'textx'), 'model processor rejects %s' % reject['file'])
    mm.register_model_processor(model_proc)
    return mm


def closure(model):
    seen, todo = [], [model]
    while todo:
        m = todo.pop()
        if any(m is s for s in seen):
            continue
        seen.append(m)
        repo = getattr(m, '_tx_model_repository', None)
        if repo is not None:
            todo += list(repo.all_models) + list(repo.local_models)
    return seen


def outcome_of(mm, path):
    from textx.exceptions import TextXError
    try:
        return ('ok', mm.model_from_file(path))
    except TextXError as e:
        return ('textx-error', str(e).replace(os.path.dirname(path), '')[:120])
    except FileNotFoundError as e:
        return ('file-not-found', os.path.basename(str(e.filename)))
    except OSError as e:
        return ('os-error', type(e).__name__)
    except (Boom, BoomInterrupt) as e:
        return ('processor-exception', '%s: %s' % (type(e).__name__, str(e)[:100]))
    except Exception as e:  # noqa
        return ('exception', '%s: %s' % (type(e).__name__, str(e)[:100]))


def scenario(fi, ki, pi, global_repo, prior, exc='textx', eq_root=False):
    """one run -> list of problems"""
    tmp = tempfile.mkdtemp(prefix='c18_')
    problems = []
    fn_bad, kind = FILES[fi], KINDS[ki]
    reject = {'file': None, 'exc': exc, 'eq_root': eq_root}
    try:
        for fn, text in GOOD.items():
            with open(os.path.join(tmp, fn), 'w') as f:
                f.write(text)
        mm = build_mm(pi, global_repo, reject)
        cached = {}
        if prior:
            st, good = outcome_of(mm, os.path.join(tmp, 'good'))
            if st != 'ok':
                return ['harness: the prior load fails: %s %s' % (st, good)]
            cached = {os.path.basename(m._tx_filename): m for m in closure(good)}
            if sorted(cached) != ['good', 'lib.m']:
                return ['harness: prior closure is %s' % sorted(cached)]
        # break one file and load main
        with open(os.path.join(tmp, fn_bad), 'w') as f:
            f.write(broken(fn_bad, kind))
        if kind == 'model-processor':
            reject['file'] = fn_bad
        first = outcome_of(mm, os.path.join(tmp, 'main'))
        if first[0] == 'ok':
            return ['harness: the broken closure loads (%s in %s)' % (kind, fn_bad)]
        if first[0] == 'exception':
            problems.append('the failing load raised %s' % first[1])

        def repo_state():
            if not global_repo:
                return None
            return {os.path.basename(k): v for k, v in mm._tx_model_repository.all_models.filename_to_model.items()}
        state = repo_state()
        if global_repo:
            if sorted(state) != sorted(cached):
                problems.append('global repository after the failing load holds %s, expected %s' % (
                    sorted(state), sorted(cached)))
            for k, m in cached.items():
                if state.get(k) is not m:
                    problems.append('cached model of %s was replaced or dropped' % k)
        for k, m in cached.items():
            held = sorted(os.path.basename(x._tx_filename) for x in closure(m))
            if held != sorted(cached):
                problems.append('repository of the surviving model %s holds %s' % (k, held))
        # the same failing load again: same outcome
        second = outcome_of(mm, os.path.join(tmp, 'main'))
        if second[0] == 'ok':
            problems.append('the second load of the still broken closure succeeds (a half-built model is served)')
        elif second != first:
            problems.append('the second load of the still broken closure fails differently: %s, first time %s' % (
                second, first))
        if global_repo and sorted(repo_state()) != sorted(cached):
            problems.append('global repository after the second failing load holds %s' % sorted(repo_state()))
        # repair and reload
        with open(os.path.join(tmp, fn_bad), 'w') as f:
            f.write(GOOD[fn_bad])
        reject['file'] = None
        st, model = outcome_of(mm, os.path.join(tmp, 'main'))
        if st != 'ok':
            problems.append('after the repair the load still fails: %s %s' % (st, model))
            return problems
        cl = {}
        for m in closure(model):
            cl.setdefault(os.path.basename(m._tx_filename), []).append(m)
        want = ['deep.m', 'lib.m', 'main', 'mid.m'] + (['good'] if (prior and global_repo) else [])
        if sorted(cl) != sorted(want):
            problems.append('closure after the repair: %s, expected %s' % (sorted(cl), sorted(want)))
        for k, ms in cl.items():
            if len(ms) != 1:
                problems.append('%d model objects for %s after the repair' % (len(ms), k))
        if global_repo and prior:
            for k, m in cached.items():
                if cl.get(k, [None])[0] is not m:
                    problems.append('after the repair %s is not the model cached by the earlier load' % k)
        elements = {id(it) for ms in cl.values() for it in ms[0].items}
        for ms in cl.values():
            for it in ms[0].items:
                if it.ref is not None and id(it.ref) not in elements:
                    problems.append('after the repair %s.ref points outside the registered models' % it.name)
        names = {it.name: it for ms in cl.values() for it in ms[0].items}
        for src, tgt in (('m1', 'l2'), ('m2', 'd1x'), ('d1x', 'e1'), ('l2', 'l1')):
            if src in names and names[src].ref is not names.get(tgt):
                problems.append('after the repair %s does not point to %s' % (src, tgt))
        return problems
    finally:
        import shutil
        shutil.rmtree(tmp, ignore_errors=True)


def string_main_scenario(ki):
    """the main model comes from a string (no file name: registered as anonymous<N>), the files of
    its closure are found by a GlobalRepo provider pattern; one of them fails.  The global
    repository must hold after the failure exactly what it held before (one earlier successful
    string load has cached lib/a.m), and after the repair the load succeeds"""
    from textx import metamodel_from_str
    from textx.exceptions import TextXSemanticError
    import textx.scoping.providers as P
    import shutil
    kind = KINDS[ki]
    if kind in ('missing-import', 'model-processor'):
        return []
    tmp = tempfile.mkdtemp(prefix='c18s_')
    problems = []
    try:
        os.mkdir(os.path.join(tmp, 'lib'))
        with open(os.path.join(tmp, 'lib', 'a.m'), 'w') as f:
            f.write('item a1')
        mm = metamodel_from_str(GRAMMAR, global_repository=True)
        mm.register_scope_providers({'*.*': P.PlainNameGlobalRepo(os.path.join(tmp, 'lib', '*.m'))})

        def item_proc(it):
            if it.boom:
                raise TextXSemanticError('object processor rejects %s' % it.name)
        mm.register_obj_processors({'Item': item_proc})

        def repo():
            return {os.path.basename(k): v for k, v in mm._tx_model_repository.all_models.filename_to_model.items()}
        try:
            mm.model_from_str('item m0 -> a1')
        except Exception as e:  # noqa
            return ['harness: the prior string load fails: %s' % e]
        before = repo()
        bad = {'syntax': 'item b1 item %', 'unknown-reference': 'item b1 -> nowhere',
               'object-processor': 'item b1 ! boom'}[kind]
        with open(os.path.join(tmp, 'lib', 'b.m'), 'w') as f:
            f.write(bad)
        for attempt in (1, 2):
            try:
                mm.model_from_str('item m1 -> a1 item m2 -> b1')
                return ['harness: the broken closure loads']
            except Exception as e:  # noqa
                pass
            after = repo()
            # file-backed entries must be untouched; string models are registered under invented names
            # (every one as anonymous0, replacing the previous): none of them may be the failed attempt's
            files_before = {k: v for k, v in before.items() if not k.startswith('anonymous')}
            files_after = {k: v for k, v in after.items() if not k.startswith('anonymous')}
            leftover = [k for k, v in after.items() if k.startswith('anonymous')
                        and any(it.name == 'm1' for it in (getattr(v, 'items', None) or []))]
            if set(files_after) != set(files_before) or any(files_after[k] is not files_before[k] for k in files_before):
                problems.append('failing attempt %d with a string main model: global repository holds the files %s, '
                                'before the attempt %s' % (attempt, sorted(files_after), sorted(files_before)))
                break
            if leftover:
                problems.append('failing attempt %d: the half-built string main model stays in the global repository '
                                'as %s' % (attempt, leftover))
                break
        with open(os.path.join(tmp, 'lib', 'b.m'), 'w') as f:
            f.write('item b1')
        try:
            m = mm.model_from_str('item m1 -> a1 item m2 -> b1')
        except Exception as e:  # noqa
            problems.append('after the repair the string load fails: %s: %s' % (type(e).__name__, str(e)[:80]))
            return problems
        if m.items[0].ref is not before['a.m'].items[0]:
            problems.append('after the repair the reference to a1 does not point into the model cached before')
        return problems
    finally:
        shutil.rmtree(tmp, ignore_errors=True)


def caller_repository_scenario(ki, global_repo):
    """the repository that receives the models belongs to the caller (GlobalRepo.load_models_in_model_repo(
    global_model_repo=repo), languages found through the registry): after a failing load it holds nothing of
    that load, and after the repair the same repository is filled correctly"""
    from textx import metamodel_from_str
    import textx.registration as REG
    from textx.scoping import GlobalModelRepository
    import textx.scoping.providers as P
    import shutil
    kind = KINDS[ki]
    if kind in ('missing-import', 'model-processor'):
        return []
    tmp = tempfile.mkdtemp(prefix='c18c_')
    problems = []
    try:
        good = {'a.c18': 'item a1 -> z1', 'z.c18': 'item z1 item z2 -> z1'}
        bad = {'syntax': 'item z1 item %', 'unknown-reference': 'item z1 item z2 -> nowhere',
               'object-processor': 'item z1 item z2 ! boom'}[kind]
        for fn, t in good.items():
            with open(os.path.join(tmp, fn), 'w') as f:
                f.write(t)
        with open(os.path.join(tmp, 'z.c18'), 'w') as f:
            f.write(bad)
        mm = metamodel_from_str(GRAMMAR, global_repository=global_repo)
        prov = P.PlainNameGlobalRepo(os.path.join(tmp, '*.c18'))
        mm.register_scope_providers({'*.*': prov})

        def item_proc(it):
            if it.boom:
                raise ValueError('object processor rejects %s' % it.name)
        mm.register_obj_processors({'Item': item_proc})
        REG.clear_language_registrations()
        REG.register_language(REG.LanguageDesc('c18lang', pattern='*.c18', description='', metamodel=mm))
        repo = GlobalModelRepository()

        def names(r):
            return sorted(os.path.basename(k) for k in r.filename_to_model)
        try:
            prov.load_models_in_model_repo(global_model_repo=repo)
            return ['harness: the broken closure loads']
        except Exception:  # noqa
            pass
        if names(repo.all_models) or names(repo.local_models):
            problems.append("the caller's repository after the failing load holds all_models=%s local_models=%s" % (
                names(repo.all_models), names(repo.local_models)))
        if global_repo and names(mm._tx_model_repository.all_models):
            problems.append("the metamodel's repository after the failing load holds %s" % names(mm._tx_model_repository.all_models))
        with open(os.path.join(tmp, 'z.c18'), 'w') as f:
            f.write(good['z.c18'])
        try:
            prov.load_models_in_model_repo(global_model_repo=repo)
        except BaseException as e:  # noqa
            problems.append('after the repair the load into the same repository fails: %s: %s' % (type(e).__name__, str(e)[:80]))
            return problems
        if names(repo.all_models) != ['a.c18', 'z.c18'] or names(repo.local_models) != ['a.c18', 'z.c18']:
            problems.append('after the repair: all_models=%s local_models=%s' % (names(repo.all_models), names(repo.local_models)))
        else:
            a = repo.all_models[os.path.join(tmp, 'a.c18')]
            z = repo.all_models[os.path.join(tmp, 'z.c18')]
            if a.items[0].ref is not z.items[0] or repo.local_models[os.path.join(tmp, 'z.c18')] is not z:
                problems.append('after the repair the reference of a.c18 does not point into the model of z.c18 the repository holds')
        return problems
    finally:
        shutil.rmtree(tmp, ignore_errors=True)
        import textx.registration as REG2
        REG2.clear_language_registrations()


def explore(item):
    pi, = item
    ctx = Ctx(10000, max_paths=5000, free_selectors=True)

    def pick(c, name, n):
        for i in range(n - 1):
            if c.branch(z3.Bool('%s_%d' % (name, i))):
                return i
        return n - 1

    def path(c):
        fi = pick(c, 'file', len(FILES))
        ki = pick(c, 'kind', len(KINDS))
        gr = c.branch(z3.Bool('global_repository'))
        prior = c.branch(z3.Bool('prior_successful_load'))
        # what the rejecting processor raises: a TextXError, another exception, or an interrupt
        exc = EXCS[pick(c, 'exception_class', len(EXCS))] if KINDS[ki].endswith('-processor') else 'textx'
        eq_root = c.branch(z3.Bool('root_user_class_with_eq'))
        if eq_root:
            exc = exc + '+eq-root'
        try:
            probs = scenario(fi, ki, pi, gr, prior, exc.split('+')[0], eq_root)
        except Exception as e:  # noqa
            probs = ['harness: %s: %s' % (type(e).__name__, e)]
        return (fi, ki, gr, prior, probs, exc)
    outs = ctx.explore(path)
    return {'provider': PROVIDERS[pi], 'paths': ctx.paths,
            'bad': [list(o) for o in outs if o[4]], 'ok': sum(1 for o in outs if not o[4])}


def main():
    import textx.model as M
    import textx.scoping as S
    import textx.metamodel as MM
    chk = Check(PROP, 'fault_enumeration')
    results = pmap(explore, [(pi,) for pi in range(len(PROVIDERS))])
    chk.cov['functions_encoded'] = src_hash(M._remove_all_affected_models_in_construction, S.remove_models_from_repositories,
                                            S.GlobalModelRepository.load_model, MM.TextXMetaModel.internal_model_from_file,
                                            M._abort_model_construction)
    chk.cov['bounds'] = {'failing_file': FILES, 'failure': KINDS, 'providers': PROVIDERS,
                         'global_repository': [False, True], 'prior_successful_load': [False, True],
                         'processor_exception_class': EXCS,
                         'import_graph': 'good -> lib.m; main -> lib.m, mid.m; mid.m -> deep.m'}
    chk.cov['outside_claim'] = ['other import graphs (cycles: see C15)', 'faults injected into scope providers (C15)',
                                'several failing files at once', 'GlobalRepo providers']
    chk.assumptions = ['finite fault space enumerated exhaustively (selectors unconstrained: z3 decides nothing)']
    paths = ok = 0
    seen = set()
    for (st, r, secs) in results:
        if st != 'ok':
            chk.harness_error(r)
            continue
        paths += r['paths']
        ok += r['ok']
        pi = PROVIDERS.index(r['provider'])
        for fi, ki, gr, prior, probs, exc in r['bad']:
            harness = [p for p in probs if p.startswith('harness')]
            if harness:
                chk.harness_error('%s/%s/%s: %s' % (FILES[fi], KINDS[ki], r['provider'], harness[0]))
                continue
            key = (ki, gr, prior, probs[0][:40])
            if key in seen or len(chk.violations) >= 8:
                continue
            seen.add(key)
            chk.cov['traces_validated_against_impl'] += 1
            chk.violation('%s%s in %s (%s, global repository %s, prior load %s): %s' % (
                KINDS[ki], ('' if exc.startswith('textx') else ' raising %s' % ('an ordinary exception' if exc.startswith('exception') else 'an interrupt')) + (' (root user class with __eq__)' if exc.endswith('+eq-root') else ''),
                FILES[fi], r['provider'], gr, prior, probs[:2]),
                {'file': fi, 'kind': ki, 'provider': pi, 'global_repo': gr, 'prior': prior, 'exc': exc})
        chk.sample({'provider': r['provider'], 'runs': r['paths'], 'clean': r['ok']})
    for ki in range(len(KINDS)):
        for pr in string_main_scenario(ki)[:1]:
            if pr.startswith('harness'):
                chk.harness_error(pr)
            else:
                chk.violation('%s in lib/b.m (string main model, GlobalRepo provider): %s' % (KINDS[ki], pr),
                              {'string_main': ki})
        paths += 1
    for ki in range(len(KINDS)):
        for gr in (False, True):
            for pr in caller_repository_scenario(ki, gr)[:1]:
                if pr.startswith('harness'):
                    chk.harness_error(pr)
                else:
                    chk.violation("%s in z.c18 (caller-owned repository, global repository %s): %s" % (KINDS[ki], gr, pr),
                                  {'caller_repository': [ki, gr]})
            paths += 1
    chk.cov['bounds']['caller_repository'] = 'GlobalRepo.load_models_in_model_repo(global_model_repo=repo), 3 failure kinds, global repository on/off'
    chk.cov['bounds']['string_main'] = 'main model from a string, PlainNameGlobalRepo pattern, global repository (3 failure kinds)'
    if ok == 0:
        chk.harness_error('vacuous: no scenario passed')
    chk.cov['paths_explored'] = paths
    chk.cov['evaluations'] = paths
    chk.cov['distinct_nontrivial'] = paths
    chk.cov['exhaustive'] = True
    from . import extras7
    for fn_ in ('model_processor_failure_with_user_repository',):
        for pr in getattr(extras7, fn_)()[:2]:
            chk.violation(pr, {'extras7': fn_})
        chk.cov['traces_validated_against_impl'] += 1
    chk.cov.setdefault('bounds', {})['concrete_supplements_round7'] = ['model_processor_failure_with_user_repository']
    return chk.finish('one run per (failing file, failure kind, provider, global repository, prior load)')


def replay(data):
    if isinstance(data, dict) and data.get('extras7'):
        from . import extras7
        pr = getattr(extras7, data['extras7'])()
        return bool(pr), pr[:2]
    if 'caller_repository' in data:
        pr = caller_repository_scenario(*data['caller_repository'])
        return bool(pr), pr
    if 'string_main' in data:
        pr = string_main_scenario(data['string_main'])
        return bool(pr), pr
    ex = data.get('exc', 'textx')
    probs = scenario(data['file'], data['kind'], data['provider'], data['global_repo'], data['prior'],
                     ex.split('+')[0], ex.endswith('+eq-root'))
    return bool(probs), probs[:3]
