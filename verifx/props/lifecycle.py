"""
Shared harness of C13 / C14 / C15: whole real loads (one or two model files,
user classes, recording processors on every rule, scope provider, model
processor) in which the k-th callback fails (k = symbolic selector, also "no
fault") and object processors may return a replacement (symbolic selector per
call).  Every path records an event log and post-mortem facts; the three
checks assert different parts of it.
"""
import gc
import os
import tempfile
import weakref

import z3

from ..symx import Ctx

GRAMMAR = """
Model: imports*=Import items+=Item;
Import: 'import' importURI=STRING;
Item: Box | Leaf;
Box: 'box' name=ID '{' items*=Item '}';
Leaf: 'leaf' name=ID ('->' to=[Leaf])? ('also' more+=[Leaf])? ';';
"""
CASES = {
    'single': {'main': "box a { leaf x; leaf y -> x; box b { leaf z -> y also x y; } } leaf w -> z;"},
    'two-files': {'main': 'import "lib.m" box a { leaf x -> p; } leaf w -> x also q p;',
                  'lib.m': "leaf p; box l { leaf q -> p; }"},
    'cycle': {'main': 'import "lib.m" leaf m1 -> l1; box mb { leaf m2; }',
              'lib.m': 'import "main" leaf l1 -> m2; leaf l2 -> l1;'},
    # cases named string-*: the main model is loaded from a string (no file name) and the other files are
    # reached through a global-repository provider (PlainNameGlobalRepo over <dir>/*.m)
    'string-global': {'main': "box a { leaf x -> p; } leaf w -> x also q p;", 'lib.m': "leaf p; box l { leaf q -> p; }"},
}
VARIANTS = ['plain', 'slots', 'guarded']


def make_classes(variant, log, refs, hooks=()):
    """fresh user classes per path; hooks: callables invoked at the start of every __init__
    (a fault point inside the user's constructor)"""
    from textx.model import ObjCrossRef

    def note_init(self, kw):
        for h in hooks:
            h('init')
        unresolved = [k for k, v in kw.items() if isinstance(v, ObjCrossRef) or
                      (isinstance(v, list) and any(isinstance(x, ObjCrossRef) for x in v))]
        log.append(('init', type(self).__name__, kw.get('name'), tuple(sorted(kw)), tuple(unresolved), id(self)))
        try:
            refs.append(weakref.ref(self))
        except TypeError:
            pass

    class Box:
        def __init__(self, **kw):
            note_init(self, kw)
            for k, v in kw.items():
                setattr(self, k, v)

        def __getattr__(self, k):
            # the user's own fallback for unknown attributes (textX never replaces __getattr__)
            if k.startswith('dflt_'):
                return k
            raise AttributeError(k)

    if variant == 'slots':
        class Leaf:
            __slots__ = ('parent', 'name', 'to', 'more', '__weakref__')

            def __init__(self, **kw):
                note_init(self, kw)
                for k, v in kw.items():
                    setattr(self, k, v)
    elif variant == 'guarded':
        class Leaf:
            def __init__(self, **kw):
                note_init(self, kw)
                for k, v in kw.items():
                    object.__setattr__(self, k, v)
                object.__setattr__(self, '_frozen', True)

            def __setattr__(self, k, v):
                if self.__dict__.get('_frozen') and not k.startswith('_tx'):
                    raise AttributeError('frozen')
                object.__setattr__(self, k, v)

            def __getattribute__(self, k):
                return object.__getattribute__(self, k)
    else:
        class Leaf:
            def __init__(self, **kw):
                note_init(self, kw)
                for k, v in kw.items():
                    setattr(self, k, v)
    class Model:
        """the root rule as a user class, too"""
        def __init__(self, **kw):
            note_init(self, kw)
            for k, v in kw.items():
                setattr(self, k, v)
    return Box, Leaf, Model


class Fault(Exception):
    pass


class Interrupt(KeyboardInterrupt):
    """a fault that is not an Exception (an interrupt / cancellation raised inside a callback)"""


def run_path(c, case, variant, global_repo, allow_fault, allow_replace, fault_kind='runtime'):
    """one real load under selectors; returns a dict of observations"""
    from textx import metamodel_from_str
    from textx.exceptions import TextXError, TextXSemanticError
    import textx.scoping.providers as P
    files = CASES[case]
    tmpd = tempfile.mkdtemp(prefix='lc_')
    for fn, content in files.items():
        with open(os.path.join(tmpd, fn), 'w') as f:
            f.write(content)
    log, refs = [], []
    hooks = []
    Box, Leaf, Model = make_classes(variant, log, refs, hooks)
    # editor support on/off: with it textX stores more bookkeeping on the model objects
    tools = c.branch(z3.Bool('textx_tools_support'))
    mm = metamodel_from_str(GRAMMAR, classes=[Box, Leaf, Model], global_repository=global_repo,
                            textx_tools_support=tools)
    calls = [0]
    fired = []
    replaced = []

    def point(kind):
        i = calls[0]
        calls[0] += 1
        if allow_fault and not fired and c.branch(z3.Bool('fault_%d' % i)):
            fired.append((i, kind))
            if fault_kind == 'textx':
                raise TextXSemanticError('injected fault at %s #%d' % (kind, i))
            if fault_kind == 'interrupt':
                raise Interrupt('injected interrupt at %s #%d' % (kind, i))
            raise Fault('injected fault at %s #%d' % (kind, i))

    from_string = case.startswith('string-')
    hooks.append(point)           # the constructors of the user classes are fault points, too
    inner = P.PlainNameGlobalRepo(os.path.join(tmpd, '*.m')) if from_string else P.PlainNameImportURI()
    from textx.scoping import ModelLoader

    class Prov(ModelLoader):
        def load_models(self, model, encoding='utf-8'):
            return inner.load_models(model, encoding=encoding)

        def __call__(self, obj, attr, obj_ref):
            point('provider')
            try:
                refs.append(weakref.ref(obj))
            except TypeError:
                pass
            return inner(obj, attr, obj_ref)
    mm.register_scope_providers({'*.*': Prov()})

    class Replacement:
        """replacement value; falsy (but not None) when the path says so"""
        falsy = False

        def __init__(self, of):
            self.of = of

        def __bool__(self):
            return not self.falsy

    def proc(rule):
        def p(obj):
            from textx.model import ObjCrossRef
            from textx.scoping import Postponed
            bad = []
            for an in ('to', 'more', 'items'):
                v = getattr(obj, an, None)
                for x in (v if isinstance(v, list) else [v]):
                    if isinstance(x, (ObjCrossRef, Postponed)):
                        bad.append(an)
            log.append(('proc', rule, type(obj).__name__, getattr(obj, 'name', None), tuple(bad), id(obj)))
            try:
                refs.append(weakref.ref(obj))
            except TypeError:
                pass
            point('processor')
            if allow_replace and rule in ('Leaf', 'Item') and type(obj).__name__ == 'Leaf' \
                    and c.branch(z3.Bool('repl_%d' % len(log))):
                if not replaced:
                    # one selector per load: the replacement values are falsy objects
                    Replacement.falsy = c.branch(z3.Bool('replacements_falsy'))
                r = Replacement((rule, getattr(obj, 'name', None)))
                replaced.append((rule, id(obj), r))
                return r
            return None
        return p
    # an earlier registration that the one below replaces: its processors must never run
    def stale(obj):
        log.append(('stale', type(obj).__name__, None, getattr(obj, 'name', None), (), id(obj)))
        return None
    mm.register_obj_processors({'Import': stale, 'Leaf': stale, 'INT': lambda v: 0})

    probed = []

    def match_proc(value):
        # processor of a match rule: runs during object-graph construction,
        # i.e. inside objects (user-class ones too) that are still being built
        point('match-processor')
        if not probed:
            probed.append(1)
            if c.branch(z3.Bool('nested_probe')):
                # user code that probes another text with the same metamodel while this load is in
                # progress and swallows the failure (syntax error / unknown reference)
                bad_text = 'leaf ;' if c.branch(z3.Bool('nested_probe_syntax')) else 'leaf n -> nowhere;'
                try:
                    mm.model_from_str(bad_text)
                except TextXError:
                    pass
        return value
    # processors given through the public decorator textxerror_wrap behave like the bare ones
    from textx import textxerror_wrap
    wrap = textxerror_wrap if c.branch(z3.Bool('processors_wrapped')) else (lambda f: f)
    mm.register_obj_processors({'Box': wrap(proc('Box')), 'Leaf': wrap(proc('Leaf')), 'Item': wrap(proc('Item')),
                                'Model': wrap(proc('Model')), 'ID': match_proc})

    def model_proc(model, metamodel):
        log.append(('modelproc', None, None, None, (), id(model)))
        point('model-processor')
    mm.register_model_processor(model_proc)
    snapshot = {cls.__name__: dict(cls.__dict__) for cls in (Box, Leaf, Model)}
    obs = {'case': case, 'variant': variant, 'global_repo': global_repo, 'fired': None, 'log': log}
    model = None
    try:
        try:
            if from_string:
                model = mm.model_from_str(files['main'])
            else:
                model = mm.model_from_file(os.path.join(tmpd, 'main'))
            obs['outcome'] = 'ok'
        except (Fault, Interrupt) as e:
            obs['outcome'] = 'fault'
        except TextXError as e:
            obs['outcome'] = 'textx-error'
            obs['error'] = str(e)[:100]
        except OSError as e:
            # a model file that does not exist: reported by the file system's own exception
            obs['outcome'] = 'io-error'
            obs['error'] = type(e).__name__
        except Exception as e:  # noqa
            obs['outcome'] = 'exception'
            obs['error'] = '%s: %s' % (type(e).__name__, e)
        obs['fired'] = fired[0] if fired else None
        obs['log'] = list(log)
        # class state after the load
        diffs = []
        for cls in (Box, Leaf, Model):
            before, after = snapshot[cls.__name__], dict(cls.__dict__)
            for k in set(before) | set(after):
                if k == '_tx_obj_attrs':
                    continue
                if before.get(k, '<absent>') is not after.get(k, '<absent>'):
                    diffs.append('%s.%s' % (cls.__name__, k))
            n = len(getattr(cls, '_tx_obj_attrs', {}))
            if n:
                diffs.append('%s._tx_obj_attrs holds %d entries' % (cls.__name__, n))
        obs['class_diffs'] = sorted(diffs)
        obs['replaced'] = [(r, i) for r, i, o in replaced]
        obs['model_facts'] = model_facts(model, replaced) if model is not None else None
        # garbage after a failed load
        if obs['outcome'] != 'ok':
            e = None
            model = None
            del log[:]   # the log holds ids only, but be safe
            gc.collect()
            obs['alive'] = sum(1 for r in refs if r() is not None)
            # a following load with the same metamodel equals a fresh-metamodel load
            obs['reload'] = reload_equal(mm, tmpd, case, variant, global_repo)
    finally:
        for fn in files:
            try:
                os.remove(os.path.join(tmpd, fn))
            except OSError:
                pass
        try:
            os.rmdir(tmpd)
        except OSError:
            pass
    return obs


def model_facts(model, replaced):
    """where replacement values ended up"""
    out = []
    rid = {id(o): (rule, i) for rule, i, o in replaced}

    def walk(o):
        for an in ('items',):
            v = getattr(o, an, None)
            if isinstance(v, list):
                for x in v:
                    if id(x) in rid:
                        out.append(rid[id(x)])
                    else:
                        walk(x)
    walk(model)
    return out


def reload_equal(mm, tmpd, case, variant, global_repo):
    """after a failed load: loading again with the same metamodel (providers and
    processors switched to harmless ones) must work like a fresh metamodel"""
    from textx import metamodel_from_str
    import textx.scoping.providers as P
    from_string = case.startswith('string-')
    # after a string load the following load is a (valid) model file

    def load(m):
        try:
            return ('ok', dump(m.model_from_file(os.path.join(tmpd, 'lib.m' if from_string else 'main'))))
        except Exception as e:  # noqa
            return ('error', type(e).__name__, str(e))

    def harmless():
        return P.PlainNameGlobalRepo(os.path.join(tmpd, '*.m')) if from_string else P.PlainNameImportURI()
    mm.register_scope_providers({'*.*': harmless()})
    mm.register_obj_processors({})
    mm._model_processors = []
    r1 = load(mm)
    log, refs = [], []
    Box, Leaf, Model = make_classes(variant, log, refs)
    mm2 = metamodel_from_str(GRAMMAR, classes=[Box, Leaf, Model], global_repository=global_repo)
    mm2.register_scope_providers({'*.*': harmless()})
    r2 = load(mm2)
    return r1 == r2 or ('different', r1, r2)


def dump(o, depth=0):
    if depth > 8:
        return '...'
    name = getattr(o, 'name', None)
    items = getattr(o, 'items', None)
    to = getattr(o, 'to', None)
    more = getattr(o, 'more', None)
    return (type(o).__name__, name, getattr(to, 'name', None),
            tuple(getattr(x, 'name', None) for x in (more or [])),
            tuple(dump(x, depth + 1) for x in (items or [])))


def explore(item):
    case, variant, global_repo, allow_fault, allow_replace, fault_kind = item
    ctx = Ctx(10000, max_paths=5000, free_selectors=True)

    def path(c):
        obs = run_path(c, case, variant, global_repo, allow_fault, allow_replace, fault_kind)
        obs['log'] = list(obs['log'])
        return obs
    outs = ctx.explore(path)
    return {'item': list(item), 'paths': ctx.paths, 'obs': outs}


def replay_fault(case, variant, global_repo, fault_index, fault_kind='runtime'):
    """concrete replay of one fault point"""
    class C:
        def branch(self, b):
            nm = b.decl().name()
            return nm == 'fault_%d' % fault_index
    return run_path(C(), case, variant, global_repo, True, False, fault_kind)
