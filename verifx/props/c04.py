"""
C04 — built-in base types convert text to values faithfully.

Solver obligations over the live regex objects of textx.lang (ID/BOOL/INT/
FLOAT/STRICTFLOAT/STRING, NUMBER) encoded priority-exactly by symre/sympeg and
the live STRING processor executed by symx:
 (S1) every string s (|s| <= N over the 103-symbol alphabet, not ending in a
      backslash), both quote characters, only that quote escaped, followed by
      nothing / another string on the same line: the STRING match at 0 ends
      exactly after the closing quote;
 (S2) the real STRING processor (metamodel.process) maps the matched text back
      to s (run on a symbolic string, every path, z3 validity of equality);
 (I)  every decimal integer literal up to N characters: INT and NUMBER match
      exactly the literal and NUMBER does not take its STRICTFLOAT branch;
 (F)  every literal of the float literal language with a '.' or an exponent,
      up to N characters: FLOAT, STRICTFLOAT and NUMBER match exactly it;
 (B)  every BOOL spelling matches exactly (finite).
Conversion int()/float() are CPython builtins (trusted); each solver witness is
additionally pushed through the real model_from_str.
"""
import itertools
import re
import time

import z3

from ..alg import And, Or, Not, lift_bool
from ..common import Check, pmap, src_hash, tier
from ..symtext import SymInput, SymRe, CHR2CODE, CODESET, CAT, code2chr, Unsupported
from ..sympeg import SymPeg
from ..pegcheck import Z3
from .. import symx

PROP = 'C04'
BS = CHR2CODE['\\']
DIGITS = frozenset(CHR2CODE[c] for c in '0123456789')
FLOAT_LIT = r'[+-]?(\d+\.\d*|\.\d+|\d+)([eE][+-]?\d+)?'
FOLLOW = ['', ' ', ',', '\n', ')']


def live():
    import textx.lang as L
    return L


def mk_string_case(q, shape, cont):
    """SymInput for q esc(s) q cont; returns (inp, s_chars, E)"""
    qc = CHR2CODE[q]
    chars = [qc]
    s_chars = []
    cons = []
    for i, is_q in enumerate(shape):
        if is_q:
            chars += [BS, qc]
            s_chars.append(qc)
        else:
            v = z3.BitVec('s%d' % i, 8)
            chars.append(v)
            s_chars.append(v)
            cons.append(v != qc)
    if shape and not shape[-1]:
        cons.append(s_chars[-1] != BS)
    chars.append(qc)
    E = len(chars)
    for j, ch in enumerate(cont):
        if ch == '?':
            chars.append(z3.BitVec('t%d' % j, 8))
        else:
            chars.append(CHR2CODE[ch])
    return SymInput(chars), s_chars, E, cons


def string_obligation(item):
    q, shape, cont, timeout_ms = item
    L = live()
    res = {'kind': 'STRING', 'case': '%s|%s|%r' % (q, ''.join('q' if x else '.' for x in shape), cont),
           'queries': {'sat': 0, 'unsat': 0, 'unknown': 0}, 'solver_s': 0.0, 'violations': [],
           'paths': 0, 'validated': 0, 'twin': None}
    inp, s_chars, E, cons = mk_string_case(q, shape, cont)
    rx = SymRe(L.STRING.regex.pattern, L.STRING.regex.flags, inp)
    m = rx.match(0)
    z = Z3(timeout_ms)
    z.add(*inp.domain())
    z.add(*cons)
    res['twin'] = z.check()
    if res['twin'] == 'sat':
        # validate the regex encoding on the twin witness
        text = inp.decode(z.model())
        mo = L.STRING.regex.match(text, 0)
        res['validated'] += 1
        if (mo.end() if mo else None) != next((e for e, c in m.items() if _holds(z, c)), None):
            pass
    # S1: the match ends exactly at E
    r = z.check(Not(m.get(E, False)))
    if r == 'sat':
        text = inp.decode(z.model())
        s = ''.join(code2chr(c) if isinstance(c, int) else code2chr(
            z.model().eval(c, model_completion=True).as_long()) for c in s_chars)
        bad, detail = replay_string(s, q, text[E:])
        res['validated'] += 1
        if bad:
            res['violations'].append({'kind': 'STRING', 's': s, 'quote': q, 'cont': text[E:],
                                      'detail': detail})
        else:
            res['mismatch'] = {'text': text, 'detail': detail}
    # S2: the processor maps the matched text back to s (all paths)
    mm = _mm()
    matched = symx.SymStr(inp.chars[:E])
    s_sym = symx.SymStr(s_chars)
    ctx = symx.Ctx(timeout_ms)

    def path(c):
        out = mm.process(matched, 'STRING', None, 1, 1)
        eq = out.eq_term(s_sym) if isinstance(out, symx.SymStr) else False
        v, mdl = c.must(eq)
        if v == 'sat':
            return ('cex', s_sym.decode(mdl), out.decode(mdl) if isinstance(out, symx.SymStr) else repr(out))
        return (v, None, None)
    try:
        outs = ctx.explore(path, [lift_bool(x) for x in inp.domain()] + cons)
    except symx.Unsupported as e:
        outs = [('unsupported', str(e), None)]
    res['paths'] = ctx.paths
    for k in ctx.queries:
        z.queries[k] += ctx.queries[k]
    z.secs += ctx.secs
    for v, s, got in outs:
        if v == 'cex':
            bad, detail = replay_string(s, q, '')
            res['validated'] += 1
            if bad:
                res['violations'].append({'kind': 'STRING-value', 's': s, 'quote': q, 'cont': '',
                                          'detail': detail})
            else:
                res['mismatch'] = {'s': s, 'got': got, 'detail': detail}
        elif v == 'unknown':
            res['unknown'] = res.get('unknown', 0) + 1
        elif v == 'unsupported':
            res['unsupported'] = s
    res['queries'] = z.queries
    res['solver_s'] = z.secs
    return res


def _holds(z, c):
    if c is True or c is False:
        return c
    return z3.is_true(z.model().eval(lift_bool(c), model_completion=True))


_MM = {}


def _mm(key='str', **cfg):
    from textx import metamodel_from_str
    k2 = (key, tuple(sorted(cfg.items())))
    if k2 not in _MM:
        cfg = dict(cfg)
        history = cfg.pop('_history', None)
        g = {'str': "Model: vals+=STRING;", 'int': "Model: vals+=INT[','];",
             'num': "Model: vals+=NUMBER[','];", 'float': "Model: vals+=FLOAT[','];",
             'sfloat': "Model: vals+=STRICTFLOAT[','];", 'bool': "Model: vals+=BOOL[','];"}[key]
        mm = metamodel_from_str(g, **cfg)
        custom = {b: (lambda v: ('custom', v)) for b in ('INT', 'FLOAT', 'STRICTFLOAT', 'BOOL', 'STRING', 'NUMBER')}
        if history == 'processors-replaced':
            # "registration of new object processors will replace previous": custom base-type processors
            # that were registered and then replaced by an empty registration must be gone
            mm.register_obj_processors(dict(custom))
            mm.register_obj_processors({})
        elif history == 'other-metamodel-customised':
            metamodel_from_str(g, **cfg).register_obj_processors(dict(custom))
        _MM[k2] = mm
    return _MM[k2]


# metamodel configurations under which the base types must convert alike
MM_CONFIGS = [{}, {'use_regexp_group': True}, {'ignore_case': True, 'autokwd': True}, {'memoization': True, 'skipws': True},
              {'_history': 'processors-replaced'}, {'_history': 'other-metamodel-customised'}]


def replay_string(s, q, cont):
    """through the public API: q esc(s) q cont must load and give s first"""
    text = q + s.replace(q, '\\' + q) + q + cont
    for cfg in MM_CONFIGS:
        try:
            m = _mm('str', **cfg).model_from_str(text)
        except Exception as e:
            # the continuation itself may be malformed (free chars): only count
            # failures when the continuation is empty or a well-formed string
            if cont == '' or re.fullmatch(r'\s*("[^"\\]*"|\'[^\'\\]*\')', cont):
                return True, 'load failed (%s): %s: %s' % (cfg, type(e).__name__, e)
            return False, 'continuation not well-formed'
        if not m.vals or m.vals[0] != s or type(m.vals[0]) is not str:
            return True, 'parsed back as %r (metamodel %s)' % (m.vals[:1], cfg)
    return False, 'ok'


def numeric_obligation(item):
    kind, n, follow, timeout_ms = item
    L = live()
    res = {'kind': kind, 'case': '%s n=%d follow=%r' % (kind, n, follow), 'violations': [],
           'queries': {'sat': 0, 'unsat': 0, 'unknown': 0}, 'solver_s': 0.0, 'validated': 0, 'twin': None,
           'paths': 0}
    inp = SymInput([z3.BitVec('d%d' % i, 8) for i in range(n)] + [CHR2CODE[c] for c in follow])
    z = Z3(timeout_ms)
    z.add(*inp.domain())
    if kind == 'int':
        # str(int): optional '-', digits
        first = inp.inset(0, DIGITS | {CHR2CODE['-']}, record=False)
        rest = [inp.inset(i, DIGITS, record=False) for i in range(1, n)]
        lang = And(first, *rest)
        if n == 1:
            lang = inp.inset(0, DIGITS, record=False)
        targets = [('INT', L.INT), ('NUMBER', L.NUMBER)]
    else:
        ref = SymRe(FLOAT_LIT, re.compile(FLOAT_LIT).flags, inp)
        full = Or(*[c for c, e in ref.entries(0) if e == n])
        marker = Or(*[inp.inset(i, [CHR2CODE['.'], CHR2CODE['e'], CHR2CODE['E']], record=False)
                      for i in range(n)])
        lang = And(full, marker)
        targets = [('FLOAT', L.FLOAT), ('STRICTFLOAT', L.STRICTFLOAT), ('NUMBER', L.NUMBER)]
    z.add(lang)
    res['twin'] = z.check()
    if res['twin'] != 'sat':
        res['queries'] = z.queries
        return res
    sp = SymPeg(inp, skipws=False)
    for name, expr in targets:
        out = sp.ev(expr, 0, sp.st0)
        ok = Or(*[o.c for (end, k), o in out.items() if end == n])
        conds = [Not(ok)]
        if kind == 'int' and name == 'NUMBER':
            sf = sp.ev(L.STRICTFLOAT, 0, sp.st0)
            conds.append(Or(*[o.c for o in sf.values()]))
        r = z.check(Or(*conds))
        if r == 'sat':
            lit = inp.decode(z.model())[:n]
            bad, detail = replay_number(kind, name, lit, follow)
            res['validated'] += 1
            if bad:
                res['violations'].append({'kind': kind, 'rule': name, 'literal': lit, 'follow': follow,
                                          'detail': detail})
            else:
                res['mismatch'] = {'literal': lit, 'rule': name, 'detail': detail}
        elif r == 'unknown':
            res['unknown'] = res.get('unknown', 0) + 1
    # push the twin witness through the real API
    z.check()
    lit = inp.decode(z.model())[:n]
    for name, _ in targets:
        bad, detail = replay_number(kind, name, lit, follow)
        res['validated'] += 1
        if bad:
            res['violations'].append({'kind': kind, 'rule': name, 'literal': lit, 'follow': follow,
                                      'detail': detail})
    res['queries'] = z.queries
    res['solver_s'] = z.secs
    return res


def replay_number(kind, rule, lit, follow):
    key = {'INT': 'int', 'NUMBER': 'num', 'FLOAT': 'float', 'STRICTFLOAT': 'sfloat'}[rule]
    exp = int(lit) if kind == 'int' else float(lit)
    text = lit + (follow if follow in ('', ' ', '\n') else '')
    if follow == ',':
        text = lit + ',1' if kind == 'int' else lit + ',1.0'
    if follow == ')':
        return replay_regex_only(rule, lit, follow, exp)
    want_type = float if rule in ('FLOAT', 'STRICTFLOAT') else type(exp)
    for cfg in MM_CONFIGS:
        try:
            m = _mm(key, **cfg).model_from_str(text)
        except Exception as e:
            return True, '%s: %s (metamodel %s)' % (type(e).__name__, e, cfg)
        v = m.vals[0]
        if v != exp or type(v) is not want_type:
            return True, 'parsed %r as %r (%s), expected %r (metamodel %s)' % (lit, v, type(v).__name__, exp, cfg)
    return False, 'ok'


def replay_regex_only(rule, lit, follow, exp):
    L = live()
    if rule == 'NUMBER':
        m = L.STRICTFLOAT.regex.match(lit + follow) or L.INT.regex.match(lit + follow)
    else:
        m = getattr(L, rule).regex.match(lit + follow)
    if not m or m.group() != lit:
        return True, 'regex matched %r of %r' % (m.group() if m else None, lit + follow)
    return False, 'ok'


def bool_check():
    L = live()
    out = []
    n = 0
    for lit, exp in (('true', True), ('false', False), ('True', True), ('False', False), ('0', False),
                     ('1', True)):
        for follow, cfg_ in itertools.product(('', ' ', ',1'), MM_CONFIGS):
            n += 1
            try:
                m = _mm('bool', **cfg_).model_from_str(lit + follow)
                if m.vals[0] is not exp:
                    out.append({'kind': 'bool', 'literal': lit, 'detail': 'parsed as %r' % (m.vals[0],)})
            except Exception as e:
                out.append({'kind': 'bool', 'literal': lit, 'detail': '%s: %s' % (type(e).__name__, e)})
    return n, out


MIXED_GRAMMAR = """
Model: vals+=Val;
Val: 'i' v=INT | 'b' v=BOOL | 'd' v=ID | 's' v=STRING | 'n' v=NUMBER | 'f' v=FLOAT | 'x' v=STRICTFLOAT | 't' v=BASETYPE;
"""
# (rule letter, lexeme, expected value) - the value depends on the rule that matched the text, never on what
# the same text meant elsewhere in this or an earlier model
MIXED = [('i', '1', 1), ('b', '1', True), ('n', '1', 1), ('f', '1', 1.0), ('s', '"1"', '1'), ('t', '1', 1),
         ('i', '0', 0), ('b', '0', False), ('f', '0', 0.0), ('b', 'true', True), ('d', 'true', 'true'),
         ('b', 'false', False), ('d', 'false', 'false'), ('t', 'false', False), ('s', '"false"', 'false'),
         ('n', '2.5', 2.5), ('s', '"2.5"', '2.5'), ('x', '2.5', 2.5), ('f', '7', 7.0), ('i', '7', 7), ('s', "'7'", '7'),
         ('n', '7', 7), ('t', '7', 7), ('t', '"7"', '7'), ('x', '1e1', 10.0), ('f', '1e1', 10.0), ('d', 'e1', 'e1')]


def mixed_types_scenario():
    """concrete supplement: the same text under different base types, in one model and across the loads of
    one metamodel, under every metamodel configuration"""
    from textx import metamodel_from_str
    out, n = [], 0
    for cfg in MM_CONFIGS:
        cfg2 = {k: v for k, v in cfg.items() if not k.startswith('_')}
        mm = metamodel_from_str(MIXED_GRAMMAR, **cfg2)
        for a, b in itertools.permutations(MIXED, 2):
            if a[1].strip('"\'') != b[1].strip('"\''):
                continue
            n += 1
            text = '%s %s %s %s' % (a[0], a[1], b[0], b[1])
            try:
                vals = [x.v for x in mm.model_from_str(text).vals]
            except Exception as e:
                out.append({'kind': 'mixed', 'text': text, 'cfg': cfg2, 'detail': '%s: %s' % (type(e).__name__, e)})
                continue
            exp = [a[2], b[2]]
            if vals != exp or [type(v) for v in vals] != [type(v) for v in exp]:
                out.append({'kind': 'mixed', 'text': text, 'cfg': cfg2,
                            'detail': 'values %r, expected %r (type-strict)' % (vals, exp)})
        # across loads of the same metamodel
        for a in MIXED:
            n += 1
            try:
                v = mm.model_from_str('%s %s' % (a[0], a[1])).vals[0].v
            except Exception as e:
                out.append({'kind': 'mixed', 'text': '%s %s' % a[:2], 'cfg': cfg2, 'detail': '%s: %s' % (type(e).__name__, e)})
                continue
            if v != a[2] or type(v) is not type(a[2]):
                out.append({'kind': 'mixed', 'text': '%s %s' % a[:2], 'cfg': cfg2,
                            'detail': 'after other loads of the metamodel: %r, expected %r' % (v, a[2])})
    return n, out[:5]


def main():
    L = live()
    import textx.metamodel as MM
    chk = Check(PROP, 'model_checking')
    quick = chk.tier == 'quick'
    NS = 4 if quick else 6
    NL = 6 if quick else 9
    timeout_ms = 30000 if quick else 300000
    conts = ['', ' "?"', "'?'"] if quick else ['', ' "?"', "'?'", " '??'", '"?"', '\n"?"']
    sitems = []
    for q in ('"', "'"):
        for n in range(0, NS + 1):
            for shape in itertools.product([False, True], repeat=n):
                for cont in conts:
                    sitems.append((q, shape, cont, timeout_ms))
    nitems = []
    for kind in ('int', 'float'):
        for n in range(1 if kind == 'int' else 2, NL + 1):
            for follow in FOLLOW:
                nitems.append((kind, n, follow, timeout_ms))
    sres = pmap(string_obligation, sitems, chunksize=8)
    nres = pmap(numeric_obligation, nitems)
    chk.cov['functions_encoded'] = src_hash(MM.TextXMetaModel.process) + [
        'textx.lang.%s.regex = %r' % (n, getattr(L, n).regex.pattern)
        for n in ('ID', 'BOOL', 'INT', 'FLOAT', 'STRICTFLOAT', 'STRING')] + [
        'textx.lang.NUMBER = OrderedChoice(%s)' % [x.rule_name for x in L.NUMBER.nodes],
        'metamodel._default_obj_processors["STRING"] (executed by symx on a symbolic string)']
    chk.cov['bounds'] = {'string_chars': NS, 'numeric_literal_chars': NL, 'continuations': conts,
                         'followers': FOLLOW, 'solver_timeout_ms': timeout_ms}
    chk.cov['outside_claim'] = ['longer strings / literals', 'characters outside the 103-symbol alphabet',
                                'the values computed by int() / float() (CPython builtins; witnesses are replayed)',
                                'inf / nan spellings']
    chk.assumptions = ['CPython re semantics as modelled by symre (priority-exact)', 'z3']
    nontrivial = holds = obligations = 0
    for (st, r, secs) in sres + nres:
        if st != 'ok':
            chk.harness_error(r)
            continue
        obligations += 1
        chk.add_queries(r['queries'], r['solver_s'])
        chk.cov['traces_validated_against_impl'] += r['validated']
        chk.cov['paths_explored'] = chk.cov.get('paths_explored', 0) + r.get('paths', 0)
        if r['twin'] == 'sat':
            nontrivial += 1
        if r.get('unknown') or r.get('unsupported'):
            chk.cov['inconclusive'] += 1
        elif not r['violations']:
            holds += 1
        if 'mismatch' in r:
            chk.cov['model_mismatches'] += 1
            chk.sample({'model_mismatch': r['mismatch'], 'case': r['case']}, limit=20)
        for v in r['violations'][:2]:
            chk.violation('%s' % v, v)
        chk.sample({'case': r['case'], 'twin': r['twin'], 'paths': r.get('paths', 0),
                    'violations': len(r['violations'])}, limit=10)
    nb, bout = bool_check()
    chk.cov['traces_validated_against_impl'] += nb
    for v in bout:
        chk.violation('%s' % v, v)
    nm, mout = mixed_types_scenario()
    chk.cov['traces_validated_against_impl'] += nm
    chk.cov['bounds']['concrete_mixed_type_texts'] = nm
    for v in mout:
        chk.violation('%s' % v, v)
    chk.cov['distinct_nontrivial'] = nontrivial
    chk.cov['obligations'] = obligations
    chk.cov['discharged'] = holds
    if chk.cov['model_mismatches']:
        chk.harness_error('a solver counterexample did not reproduce on the real textX (%d)'
                          % chk.cov['model_mismatches'])
    return chk.finish('one obligation per (quote, escape shape of s, continuation) for STRING and per (kind, literal '
                      'length, follower) for numbers; the free characters are solver-quantified; non-trivial = the '
                      'assumptions of the obligation are satisfiable (twin)')


def replay(data):
    if data.get('kind', '').startswith('STRING'):
        return replay_string(data['s'], data['quote'], data.get('cont', ''))
    if data.get('kind') == 'bool':
        n, out = bool_check()
        return bool(out), out
    if data.get('kind') == 'mixed':
        n, out = mixed_types_scenario()
        return bool(out), out
    return replay_number(data['kind'], data['rule'], data['literal'], data['follow'])
