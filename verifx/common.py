"""
Shared protocol of all checks: tiers, seeds, evidence files, known findings,
replay files, process-parallel obligation maps, VIOLATION / KNOWN-FINDING lines.
"""
import hashlib
import inspect
import json
import multiprocessing
import os
import sys
import time
import traceback

ROOT = os.path.dirname(os.path.dirname(os.path.abspath(__file__)))
# VERIF_OUT_SUFFIX (tools/mutate.py, tools/runpatched.py): several runs of one check side by side
# write their replay and evidence files under out/ instead of sharing evidence/<id>.json
_SUF = os.environ.get('VERIF_OUT_SUFFIX', '')
OUT = os.path.join(ROOT, 'out' + ('/runs' + _SUF if _SUF else ''))
EVID = os.path.join(ROOT, 'evidence') if not _SUF else os.path.join(ROOT, 'out', 'evidence' + _SUF)
KNOWN_FILE = os.path.join(ROOT, 'known_findings.jsonl')

EXIT_OK, EXIT_VIOLATION, EXIT_HARNESS = 0, 1, 3


def tier():
    t = os.environ.get('VERIF_TIER', 'quick')
    return t if t in ('quick', 'thorough') else 'quick'


def seed():
    try:
        return int(os.environ.get('VERIF_SEED', '0'))
    except ValueError:
        return 0


def ncpu():
    if os.environ.get('VERIF_PROCS'):        # tools that run several checks side by side
        return max(1, int(os.environ['VERIF_PROCS']))
    try:
        return max(1, min(16, len(os.sched_getaffinity(0))))
    except Exception:
        return max(1, min(16, os.cpu_count() or 1))


def src_hash(*objs):
    """qualified name + sha1 of the current source of real functions"""
    out = []
    for o in objs:
        try:
            src = inspect.getsource(o)
            name = getattr(o, '__module__', '') + '.' + getattr(o, '__qualname__', repr(o))
            out.append('%s@%s' % (name, hashlib.sha1(src.encode()).hexdigest()[:10]))
        except Exception:
            out.append(repr(o))
    return out


def load_known(prop):
    """entries of known_findings.jsonl for a property: (known, fixed)"""
    known, fixed = [], []
    if os.path.exists(KNOWN_FILE):
        with open(KNOWN_FILE) as f:
            for line in f:
                line = line.strip()
                if not line or line.startswith('#'):
                    continue
                e = json.loads(line)
                if e.get('property') != prop:
                    continue
                (known if e.get('kind') == 'known' else fixed).append(e)
    return known, fixed


_BIG_FRAME = []


def big_frame(f, *a):
    """call f(*a) from a function whose frame has ~135000 local slots.

    Pure performance device, no effect on what is computed: CPython 3.11+
    keeps interpreter frames on a per-thread 'data stack' made of 16 KB chunks
    that are mmap()ed when a call crosses the end of a chunk and munmap()ed
    on return.  Arpeggio's deeply recursive parsers cross a chunk boundary
    hundreds of times per parse, and in this VM the mmap/munmap/page-fault
    pairs dominate the run time as soon as several worker processes run
    (measured: 71 s -> 6 s for 1000 RREL round trips on 4 workers).  A frame
    of 1 MB forces one 2 MB chunk with ~0.9 MB free, in which all the
    callees' frames then live."""
    if not _BIG_FRAME:
        names = ' = '.join('_%d' % i for i in range(135000))
        src = ('def _big(f, a, _never=False):\n    if _never:\n        %s = None\n'
               '    return f(*a)\n' % names)
        ns = {}
        exec(compile(src, '<big_frame>', 'exec'), ns)
        _BIG_FRAME.append(ns['_big'])
    return _BIG_FRAME[0](f, a)


TEXTX_CRASH = 'TEXTX-EXCEPTION '


def _origin(e):
    """marks an unexpected exception whose innermost frame is textX (or Arpeggio driven by it),
    not the harness: the code under test crashed on something the check considers valid"""
    try:
        frames = traceback.extract_tb(e.__traceback__)
        fn = frames[-1].filename.replace(os.sep, '/') if frames else ''
        if ('/textx/' in fn or '/arpeggio/' in fn) and '/verifx/' not in fn:
            return TEXTX_CRASH
    except Exception:  # noqa
        pass
    return ''


def _worker(args):
    fn, item = args
    t0 = time.time()
    try:
        return ('ok', big_frame(fn, item), time.time() - t0)
    except BaseException as e:  # noqa
        return ('err', '%s%s: %s\n%s' % (_origin(e), type(e).__name__, e, traceback.format_exc()),
                time.time() - t0)


def run_forked(fn, *args):
    """run fn(*args) in a child forked from this process right now and return
    its (picklable) result; the child inherits exactly the current state and
    leaves nothing behind"""
    import pickle
    r, w = os.pipe()
    pid = os.fork()
    if pid == 0:
        code = 0
        try:
            os.close(r)
            try:
                payload = pickle.dumps(('ok', big_frame(fn, *args)))
            except BaseException as e:  # noqa
                payload = pickle.dumps(('err', '%s: %s\n%s' % (type(e).__name__, e, traceback.format_exc())))
            with os.fdopen(w, 'wb') as f:
                f.write(payload)
        except BaseException:  # noqa
            code = 1
        finally:
            os._exit(code)
    os.close(w)
    with os.fdopen(r, 'rb') as f:
        data = f.read()
    os.waitpid(pid, 0)
    if not data:
        raise RuntimeError('forked child died without a result')
    st, val = pickle.loads(data)
    if st != 'ok':
        raise RuntimeError('forked child failed: ' + val)
    return val


def pmap(fn, items, procs=None, chunksize=1, fresh_process_per_item=False):
    """ordered parallel map over fork()ed workers; fn must be a module-level
    function. Returns list of ('ok', result, secs) | ('err', text, secs)."""
    items = list(items)
    procs = procs or ncpu()
    big_frame(int)  # compile once, before fork
    if procs <= 1 or len(items) <= 1:
        return [_worker((fn, it)) for it in items]
    ctx = multiprocessing.get_context('fork')
    # fresh_process_per_item: every item runs in a process forked from this
    # one just for it (no state left behind by earlier items)
    with ctx.Pool(min(procs, len(items)), maxtasksperchild=1 if fresh_process_per_item else None) as pool:
        return pool.map(_worker, [(fn, it) for it in items], chunksize)


class Check:
    """Collects the results of one run of a property check and writes the
    evidence file / prints the protocol lines / decides the exit status."""

    def __init__(self, prop, level, technique=''):
        self.prop = prop
        self.level = level
        self.t0 = time.time()
        self.tier = tier()
        self.seed = seed()
        self.violations = []       # (description, replay path)
        self.known_hits = {}       # finding id -> description
        self.known, self.fixed = load_known(prop)
        self.known_ids = {e['id'] for e in self.known}
        self.cov = {
            'evaluations': 0, 'distinct_nontrivial': 0, 'samples': [],
            'queries': {'unsat': 0, 'sat': 0, 'unknown': 0}, 'solver_time_s': 0.0,
            'traces_validated_against_impl': 0, 'model_mismatches': 0,
            'inconclusive': 0, 'unsupported': 0, 'vacuous': 0,
            'functions_encoded': [], 'bounds': {}, 'stubs': [], 'outside_claim': [],
            'known_findings_hit': [], 'harness_errors': [],
        }
        self.assumptions = []
        self.technique = technique
        self._replay_n = 0
        os.makedirs(os.path.join(OUT, prop), exist_ok=True)

    # --- accounting
    def q(self, verdict, secs=0.0):
        v = verdict if verdict in ('sat', 'unsat') else 'unknown'
        self.cov['queries'][v] += 1
        self.cov['solver_time_s'] += secs
        self.cov['evaluations'] += 1

    def add_queries(self, d, secs=0.0):
        for k in ('sat', 'unsat', 'unknown'):
            self.cov['queries'][k] += d.get(k, 0)
            self.cov['evaluations'] += d.get(k, 0)
        self.cov['solver_time_s'] += secs

    def sample(self, s, limit=12):
        if len(self.cov['samples']) < limit:
            self.cov['samples'].append(s)

    def replay_file(self, data):
        self._replay_n += 1
        path = os.path.join(OUT, self.prop, 'replay_%d.json' % self._replay_n)
        data = dict(data)
        data['property'] = self.prop
        with open(path, 'w') as f:
            json.dump(data, f, indent=1, default=str)
        return path

    def is_known(self, fid):
        return fid in self.known_ids

    def known_hit(self, fid, what):
        """record a reproduced counterexample that is a listed known finding"""
        if fid not in self.known_hits:
            self.known_hits[fid] = what

    def violation(self, what, data):
        path = self.replay_file(data)
        self.violations.append((what, path))
        return path

    def harness_error(self, text):
        if text.startswith(TEXTX_CRASH):
            # textX itself raised, unexpectedly, while being exercised on inputs the check holds valid:
            # that is an outcome of the code under test, not a failure of the harness
            if not any('crash' in str(v[0]) for v in self.violations):
                lines = [l for l in text.splitlines() if l.strip()]
                self.violation('textX crashed while the check exercised it: %s | %s' % (
                    lines[0][len(TEXTX_CRASH):][:160], lines[-2].strip()[:120] if len(lines) > 2 else ''),
                    {'crash': text[:3000]})
            return
        self.cov['harness_errors'].append(text[:2000])

    # --- end of run
    def finish(self, extra_rule=''):
        cov = self.cov
        cov['solver_time_s'] = round(cov['solver_time_s'], 3)
        cov['known_findings_hit'] = sorted(self.known_hits)
        cov['rule'] = extra_rule or cov.get('rule', '')
        if 'states' in cov and not cov.get('states'):
            cov.pop('states', None)
            cov.pop('transitions', None)
        ev = {
            'property_id': self.prop, 'tier': self.tier, 'seed': self.seed,
            'level': self.level, 'coverage': cov, 'assumptions': self.assumptions,
            'wall_s': round(time.time() - self.t0, 2),
            'violations': len(self.violations),
        }
        os.makedirs(EVID, exist_ok=True)
        with open(os.path.join(EVID, '%s.json' % self.prop), 'w') as f:
            json.dump(ev, f, indent=1, default=str)
        for fid in sorted(self.known_hits):
            print('KNOWN-FINDING: property=%s %s: %s' % (self.prop, fid, self.known_hits[fid]))
        for what, path in self.violations:
            print('VIOLATION property=%s replay=%s' % (self.prop, path))
            print('  ' + what)
        q = cov['queries']
        print('%s %s: %d queries (unsat %d, sat %d, unknown %d), solver %.1fs, '
              'validated %d, inconclusive %d, unsupported %d, wall %.1fs' % (
                  self.prop, self.tier, sum(q.values()), q['unsat'], q['sat'], q['unknown'],
                  cov['solver_time_s'], cov['traces_validated_against_impl'],
                  cov['inconclusive'], cov['unsupported'], ev['wall_s']))
        sys.stdout.flush()
        if self.violations:
            return EXIT_VIOLATION
        if cov['harness_errors']:
            print('HARNESS ERROR (not a verdict):', cov['harness_errors'][0][:600])
            return EXIT_HARNESS
        return EXIT_OK
