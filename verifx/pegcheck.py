"""
Shared machinery of the sympeg/refpeg based checks: building live metamodels
from corpus entries, the three formulas (impl / patched root-cause model /
reference), real-parser oracles, and solver-driven enumeration of accepted
inputs up to character-class equivalence.
"""
import time

import z3

from .alg import And, Or, Not, Xor, Eq, lift_bool
from .gram import render_grammar
from .refpeg import RefPeg
from .symtext import SymInput, CHR2CODE, code2chr, representative, Unsupported
from .sympeg import SymPeg, FpIndex

MM_KEYS = ('skipws', 'ws', 'autokwd', 'ignore_case', 'auto_init_attributes', 'use_regexp_group',
           'memoization', 'textx_tools_support')
REF_KEYS = ('skipws', 'ws', 'autokwd', 'ignore_case')


def build_mm(g, **extra):
    from textx import metamodel_from_str
    cfg = {k: v for k, v in g['cfg'].items() if k in MM_KEYS}
    cfg.update(extra)
    return metamodel_from_str(render_grammar(g['rules']), **cfg)


def ref_cfg(g, **extra):
    cfg = {k: v for k, v in g['cfg'].items() if k in REF_KEYS}
    cfg.update({k: v for k, v in extra.items() if k in REF_KEYS})
    return cfg


def real_parse(mm, text):
    """True / False: does the real parser accept (no model construction)"""
    from arpeggio import NoMatch
    from textx.exceptions import TextXSyntaxError
    p = mm._parser_blueprint.clone()
    try:
        p.parse(text)
        return True
    except (NoMatch, TextXSyntaxError):
        return False


def real_load(mm, text):
    """('ok', model) | ('syntax', err) | ('semantic', err) | ('error', exc)"""
    from textx.exceptions import TextXSyntaxError, TextXSemanticError
    try:
        return ('ok', mm.model_from_str(text))
    except TextXSyntaxError as e:
        return ('syntax', e)
    except TextXSemanticError as e:
        return ('semantic', e)
    except Exception as e:  # noqa
        return ('error', e)


def real_load_file(mm, text, path):
    """the same through a model file holding exactly `text` (utf-8, written in binary mode)"""
    from textx.exceptions import TextXSyntaxError, TextXSemanticError
    with open(path, 'wb') as f:
        f.write(text.encode('utf-8'))
    try:
        return ('ok', mm.model_from_file(path))
    except TextXSyntaxError as e:
        return ('syntax', e)
    except TextXSemanticError as e:
        return ('semantic', e)
    except Exception as e:  # noqa
        return ('error', e)


class no_comment_position_cache:
    """root-cause model for a known finding (context manager): Arpeggio's
    Match.parse caches the position reached after skipping comments per input
    position only (`parser.comment_positions`), ignoring the whitespace state;
    inside the block Match.parse is the same algorithm without that cache."""

    def __enter__(self):
        import arpeggio
        self._real = arpeggio.Match.parse

        def parse(m, parser):
            if parser.skipws and not parser.in_lex_rule:
                pos = parser.position
                ws = parser.ws
                i = parser.input
                length = len(i)
                while pos < length and i[pos] in ws:
                    pos += 1
                parser.position = pos
            if not parser.in_parse_comments and not parser.in_lex_rule:
                m._parse_comments(parser)
            result = m._parse(parser)
            if not m.suppress:
                return result
        arpeggio.Match.parse = parse

    def __exit__(self, *a):
        import arpeggio
        arpeggio.Match.parse = self._real


class Formulas:
    """impl / patched / ref formulas of one grammar over one SymInput"""

    def __init__(self, g, mm, inp, want_patched=True, want_ref=True, single=(), extra_cfg=None):
        self.g, self.mm, self.inp = g, mm, inp
        self.fpindex = FpIndex(inp.n + 2)
        root = mm._parser_blueprint.parser_model
        self.sp = SymPeg.for_metamodel(mm, inp, fpindex=self.fpindex, single=single)
        self.acc_i, self.dup, self.fp_i = self.sp.accept_attrs(root)
        if want_patched:
            sp2 = SymPeg.for_metamodel(mm, inp, fpindex=self.fpindex, nodeless_ok=True)
            self.acc_p, _, self.fp_p = sp2.accept_attrs(root)
        if want_ref:
            self.rp = RefPeg(g['rules'], inp, fpindex=self.fpindex, **ref_cfg(g, **(extra_cfg or {})))
            self.acc_r, self.fp_r = self.rp.accept_fp()

    @staticmethod
    def differ(acc_a, fp_a, acc_b, fp_b):
        return Or(Xor(acc_a, acc_b), And(acc_a, acc_b, Not(Eq(fp_a, fp_b))))


def concrete_eval(g, mm, text, extra_cfg=None, single=()):
    """concrete-mode evaluation of the three models on one text:
    dict with acc/fp of impl, patched, ref and the reference model"""
    inp = SymInput.concrete(text)
    f = Formulas(g, mm, inp, single=single, extra_cfg=extra_cfg)
    ok, refmodel = f.rp.model()
    return {'impl': (f.acc_i, f.fp_i if f.acc_i else None),
            'patched': (f.acc_p, f.fp_p if f.acc_p else None),
            'ref': (f.acc_r, f.fp_r if f.acc_r else None),
            'refmodel': refmodel, 'fpindex': f.fpindex, 'dup': f.dup}


class Z3:
    """thin wrapper: timeout, accounting, str verdicts"""

    def __init__(self, timeout_ms=60000, seed=0):
        self.s = z3.Solver()
        self.s.set('timeout', timeout_ms)
        if seed:
            self.s.set('random_seed', seed)
        self.queries = {'sat': 0, 'unsat': 0, 'unknown': 0}
        self.secs = 0.0

    def add(self, *cs):
        for c in cs:
            self.s.add(lift_bool(c))

    def push(self):
        self.s.push()

    def pop(self):
        self.s.pop()

    def check(self, *assumptions):
        t0 = time.time()
        r = str(self.s.check(*[lift_bool(a) for a in assumptions]))
        self.secs += time.time() - t0
        r = r if r in ('sat', 'unsat') else 'unknown'
        self.queries[r] += 1
        return r

    def model(self):
        return self.s.model()


def class_text(inp, model, classes=None):
    """the witness text with every free character replaced by the preferred
    representative of its character class (indistinguishable for all formulas
    built over inp)"""
    classes = classes or inp.partition()
    cls_of = {}
    for c in classes:
        for k in c:
            cls_of[k] = c
    out = []
    for ch in inp.chars:
        if isinstance(ch, int):
            out.append(code2chr(ch))
        else:
            k = model.eval(ch, model_completion=True).as_long()
            out.append(code2chr(representative(cls_of[k])))
    return ''.join(out)


def enumerate_classes(inp, cond, limit, timeout_ms=30000, seed=0):
    """yield one representative text per character-class string satisfying
    cond (AllSAT with class blocking). Returns (texts, exhausted, solver)."""
    z = Z3(timeout_ms, seed)
    z.add(*inp.domain())
    z.add(cond)
    classes = inp.partition()
    texts = []
    exhausted = False
    while len(texts) < limit:
        r = z.check()
        if r != 'sat':
            exhausted = (r == 'unsat')
            break
        t = class_text(inp, z.model(), classes)
        texts.append(t)
        z.add(inp.block_class(t, classes))
    return texts, exhausted, z
