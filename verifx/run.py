"""python -m verifx.run <PROP> [--tier quick|thorough] [--replay FILE]"""
import importlib
import json
import os
import sys


def main(argv):
    if not argv:
        print(__doc__)
        return 2
    prop = argv[0].upper()
    args = argv[1:]
    replay = None
    while args:
        a = args.pop(0)
        if a == '--tier':
            os.environ['VERIF_TIER'] = args.pop(0)
        elif a == '--replay':
            replay = args.pop(0)
        elif a == '--seed':
            os.environ['VERIF_SEED'] = args.pop(0)
    from .common import big_frame
    mod = importlib.import_module('verifx.props.%s' % prop.lower())
    if replay:
        with open(replay) as f:
            data = json.load(f)
        if 'crash' in data:
            # an unexpected exception of textX during the check: re-run the check itself
            os.environ['VERIF_OUT_SUFFIX'] = '_replay'
            import subprocess
            r = subprocess.run([sys.executable, '-m', 'verifx.run', prop], capture_output=True, text=True)
            print(('REPRODUCED: ' if r.returncode == 1 else 'not reproduced: ') + (r.stdout.strip().splitlines() or [''])[-1][:200])
            return 1 if r.returncode == 1 else 0
        bad, detail = big_frame(mod.replay, data)
        print(('REPRODUCED: ' if bad else 'not reproduced: ') + str(detail))
        return 1 if bad else 0
    try:
        return big_frame(mod.main)
    except Exception as e:  # noqa  (an uncaught exception of the harness itself is not a verdict)
        import traceback
        print('HARNESS ERROR (not a verdict): %s: %s' % (type(e).__name__, e))
        traceback.print_exc()
        return 3


if __name__ == '__main__':
    sys.exit(main(sys.argv[1:]))
