"""
The grammar corpus ("programs" quantifier): fixed families of grammar ASTs that
cover the construct pairs the properties name, plus a seeded random generator
over the same fragment.  Grammars are *sampled*; for each grammar the inputs
are solver-quantified (stated in every evidence file).
"""
import itertools
import random

from .gram import (S, A, Opt, Star, Plus, Ung, And_, Not_, Sup, Str, Re, Ref, Asg, ObjRef, Rule,
                   render_grammar, rule_kinds)

INT, ID, STRING, FLOAT, BOOL, NUMBER = (Ref('INT'), Ref('ID'), Ref('STRING'), Ref('FLOAT'),
                                        Ref('BOOL'), Ref('NUMBER'))
COMMENT = Rule('Comment', Re(r'//.*?$'))
COMMENT_BLOCK = Rule('Comment', Re(r'/\*(.|\n)*?\*/'))


def G(name, rules, tags=(), **cfg):
    return {'name': name, 'rules': rules, 'tags': set(tags), 'cfg': cfg}


# ---------------------------------------------------------------- basic constructs (C01 ...)
BASIC = [
    G('seq-choice', [Rule('M', S(Str('a'), A(Asg('x', '=', INT), Asg('y', '=', ID)), Opt(Str(';'))))]),
    G('choice-prefix', [Rule('M', A(S(Str('a'), Asg('x', '=', INT)), S(Str('a'), Asg('y', '=', ID)),
                                    Asg('z', '=', ID)))]),
    G('star-sep', [Rule('M', S(Str('['), Asg('xs', '*=', INT, sep=Str(',')), Str(']')))]),
    G('plus-sep-obj', [Rule('M', Asg('ps', '+=', Ref('P'), sep=Str(';'))),
                       Rule('P', S(Asg('k', '=', ID), Str('='), Asg('v', '=', INT)))]),
    G('rep-plain', [Rule('M', S(Plus(S(Str('a'), Asg('xs', '+=', INT))), Star(Str('b'))))]),
    G('rep-sep-nonasg', [Rule('M', S(Plus(Ref('W'), sep=Str(',')), Asg('n', '=', INT))),
                         Rule('W', A(Str('a'), Str('b')))]),
    G('eolterm', [Rule('M', Asg('ls', '+=', Ref('L'))),
                  Rule('L', S(Str('l'), Asg('vs', '*=', INT, eol=True), Opt(Str(';'))))]),
    G('eolterm-rep', [Rule('M', S(Plus(Asg('vs', '+=', INT), eol=True), Str('e')))]),
    G('eolterm-sep-asg', [Rule('M', S(Str('v'), Asg('vs', '+=', INT, sep=Str(','), eol=True), Opt(Str('x'))))]),
    G('eolterm-sep-asg-star', [Rule('M', S(Str('v'), Asg('vs', '*=', ID, sep=Str(';'), eol=True), Opt(Asg('t', '=', INT))))]),
    G('eolterm-sep-rep', [Rule('M', S(Plus(S(Str('a'), Asg('xs', '+=', INT)), sep=Str(','), eol=True), Str('e')))]),
    G('ung-basic',[Rule('M', S(Ung([Asg('x', '=', INT), S(Str('k'), Asg('y', '=', ID))]), Str(';')))]),
    G('ung-sep', [Rule('M', S(Ung([Asg('x', '=', INT), Asg('y', '=', ID), Str('z')], sep=Str(',')),
                              Str(';')))]),
    G('ung-optional', [Rule('M', S(Str('b'), Ung([Asg('f', '?=', Str('f')), Asg('s', '?=', Str('s')),
                                                  Asg('n', '=', INT)])))]),
    G('pred-not', [Rule('M', Plus(S(Not_(Str('end')), Asg('ws', '+=', ID))), ), ]),
    G('pred-not-kw', [Rule('M', S(Star(S(Not_(Str('e')), Asg('ws', '+=', ID))), Str('e')))]),
    G('pred-and', [Rule('M', S(And_(S(ID, Str(':'))), Asg('k', '=', ID), Str(':'), Asg('v', '=', INT)))]),
    G('suppress-str', [Rule('M', S(Sup(Str('a')), Asg('x', '=', INT)))]),
    G('suppress-match-rule', [Rule('M', Asg('vs', '+=', Ref('V'))),
                              Rule('V', S(Sup(Str('<')), INT, Sup(Str('>'))))]),
    # the same literal once suppressed and once visible / assigned
    G('same-literal-suppressed-and-assigned', [Rule('M', S(Sup(Str('-')), Asg('n', '=', ID), Opt(Asg('s', '=', Str('-')))))]),
    G('same-literal-suppressed-in-match-rule', [Rule('M', Asg('cs', '+=', Ref('C'))),
                                                Rule('C', S(Sup(Str('|')), ID, Str('|')))]),
    G('same-literal-suppressed-and-bool', [Rule('M', S(Asg('on', '?=', Str('!')), Asg('n', '=', INT), Sup(Str('!'))))]),
    # the suppress operator on a repetition / unordered group suppresses the whole repetition, nothing else
    G('suppressed-star', [Rule('M', S(Sup(Star(Str('a'))), Asg('x', '=', INT)))]),
    G('suppressed-plus-sep', [Rule('M', S(Sup(Plus(ID, sep=Str(','))), Str(':'), Asg('x', '=', INT)))]),
    G('suppressed-plus-in-match-rule', [Rule('M', Asg('vs', '+=', Ref('V'))),
                                        Rule('V', S(Str('<'), Sup(Plus(INT)), ID, Str('>')))]),
    G('suppressed-ung-in-match-rule', [Rule('M', Asg('vs', '+=', Ref('V'))),
                                       Rule('V', S(Str('x'), Sup(Ung([Str('a'), Str('b')])), Str('y')))]),
    G('suppressed-rule-ref-star', [Rule('M', S(Sup(Star(Ref('W'))), Asg('n', '=', ID))),
                                   Rule('W', S(Str('#'), INT))]),
    G('suppress-in-choice', [Rule('M', S(A(Sup(Str('a')), Str('b')), Asg('x', '=', INT)))],
      tags=['nodeless']),
    G('optional-in-choice', [Rule('M', S(A(Opt(Str('a')), Str('b')), Asg('x', '=', INT)))],
      tags=['nodeless']),
    G('suppress-in-rep', [Rule('M', S(Star(Sup(Str('a'))), Asg('x', '=', INT)))], tags=['nodeless']),
    G('match-rule-multi', [Rule('M', Asg('vs', '+=', Ref('V'), sep=Str(','))),
                           Rule('V', S(INT, Str('.'), INT))]),
    G('match-rule-choice', [Rule('M', Asg('vs', '+=', Ref('V'))), Rule('V', A(INT, ID, Str('#')))]),
    G('match-regex', [Rule('M', S(Asg('h', '=', Re(r'#[0-9a-f]+')), Asg('r', '=', Re(r'[^;]*')), Str(';')))]),
    # use_regexp_group only concerns regexes with exactly one group: with two groups the value is the whole match
    G('regex-two-groups', [Rule('M', S(Asg('t', '=', Re(r'<(\w+)>(!)?')), Opt(Asg('u', '=', Re(r'\[((\w)-\d)\]')))))],
      use_regexp_group=True),
    # a containment list typed by an abstract rule with match alternatives: primitive values and objects mixed
    G('mixed-list', [Rule('M', Asg('vs', '+=', Ref('V'))), Rule('V', A(INT, Ref('O'))),
                     Rule('O', S(Str('o'), Asg('name', '=', ID), Asg('kids', '*=', Ref('V')), Str(';')))]),
    G('abstract', [Rule('M', Asg('es', '+=', Ref('E'))), Rule('E', A(Ref('N'), Ref('P'))),
                   Rule('N', Asg('v', '=', INT)), Rule('P', S(Str('('), Asg('e', '=', Ref('E')), Str(')')))]),
    G('abstract-seq', [Rule('M', Asg('es', '+=', Ref('E'))),
                       Rule('E', A(S(Str('n'), Ref('N')), S(Str('q'), Ref('Q'), Str(';')))),
                       Rule('N', Asg('v', '=', INT)), Rule('Q', Asg('w', '=', ID))]),
    G('bool-assign', [Rule('M', S(Asg('f', '?=', Str('f')), Asg('g', '?=', Str('g')), Asg('n', '=', INT)))]),
    G('str-assign', [Rule('M', S(Asg('k', '=', Str('a')), Asg('ks', '+=', Str('b')), Opt(Asg('o', '=', Re(r'c+')))))]),
    G('optional-attrs', [Rule('M', S(Str('m'), Opt(Asg('i', '=', INT)), Opt(S(Str(','), Asg('s', '=', STRING))),
                                     Opt(S(Str(';'), Asg('f', '=', FLOAT)))))]),
    G('basetypes', [Rule('M', Asg('vs', '+=', Ref('BASETYPE'), sep=Str(',')))]),
    # defaults of the unassigned attributes of every base type (auto_init_attributes)
    G('optional-attrs-all-basetypes', [Rule('M', S(Str('m'), Opt(S(Str('s'), Asg('sf', '=', Ref('STRICTFLOAT')))),
                                                   Opt(S(Str('t'), Asg('bt', '=', Ref('BASETYPE')))),
                                                   Opt(S(Str('n'), Asg('nu', '=', NUMBER))),
                                                   Opt(S(Str('o'), Asg('bo', '=', BOOL))),
                                                   Opt(S(Str('i'), Asg('idn', '=', ID))), Str(';')))]),
    G('number', [Rule('M', S(Asg('a', '=', NUMBER), Asg('b', '=', BOOL)))]),
    G('nested-obj', [Rule('M', S(Str('m'), Asg('c', '=', Ref('C')))),
                     Rule('C', S(Str('c'), Asg('d', '=', Ref('D')), Asg('n', '=', INT))),
                     Rule('D', S(Str('d'), Asg('x', '=', ID)))]),
    G('recursive', [Rule('M', Asg('t', '=', Ref('T'))),
                    Rule('T', S(Str('('), Asg('n', '=', ID), Asg('kids', '*=', Ref('T')), Str(')')))]),
    G('comment-line', [Rule('M', Asg('xs', '+=', INT)), COMMENT]),
    G('comment-block', [Rule('M', S(Str('a'), Asg('xs', '+=', ID))), COMMENT_BLOCK]),
    # comments under ignore_case (the regexes of the grammar keep their other flags)
    G('comment-line-ignore-case', [Rule('M', S(Str('a'), Asg('xs', '+=', INT))), COMMENT], ignore_case=True),
    # the Comment rule given as a reference to another rule / as a choice of rules
    G('comment-rule-ref', [Rule('M', Asg('xs', '+=', INT)), Rule('Comment', Ref('CLine')), Rule('CLine', Re(r'//.*?$'))]),
    G('comment-rule-choice', [Rule('M', Asg('xs', '+=', INT)), Rule('Comment', A(Ref('CLine'), Ref('CHash'))),
                              Rule('CLine', Re(r'//.*?$')), Rule('CHash', Re(r'#.*?$'))]),
    G('noskipws-rule', [Rule('M', Asg('ps', '+=', Ref('P'))),
                        Rule('P', S(Asg('a', '=', ID), Str('.'), Asg('b', '=', ID)), skipws=False)]),
    G('noskipws-inherit', [Rule('M', Asg('ps', '+=', Ref('P'))),
                           Rule('P', S(Str('p'), Asg('q', '=', Ref('Q'))), skipws=False),
                           Rule('Q', S(Str('<'), Asg('n', '=', INT), Str('>')))]),
    G('noskipws-reset', [Rule('M', Asg('ps', '+=', Ref('P'))),
                         Rule('P', S(Str('p'), Asg('q', '=', Ref('Q'))), skipws=False),
                         Rule('Q', S(Str('<'), Asg('n', '=', INT), Str('>')), skipws=True)]),
    # rule modifiers on a rule whose body is not a sequence / choice (repetition, optional, unordered group)
    G('noskipws-rep-body', [Rule('M', S(Asg('xs', '+=', Ref('X')), Opt(Str(';')))),
                            Rule('X', Plus(S(Str('a'), Str('b'))), skipws=False)]),
    G('noskipws-star-body', [Rule('M', S(Str('m'), Asg('x', '=', Ref('X')), Str(';'))),
                             Rule('X', Star(Str('a')), skipws=False)], tags=['nodeless']),
    G('ws-rule-ung-body', [Rule('M', S(Str('m'), Asg('u', '=', Ref('U')), Str('e'))),
                           Rule('U', Ung([Str('a'), Str('b')]), ws=' ')]),
    G('noskipws-opt-body', [Rule('M', S(Asg('o', '=', Ref('O')), Asg('n', '=', INT))),
                            Rule('O', Opt(S(Str('<'), Str('>'))), skipws=False)], tags=['nodeless']),
    G('ws-rule', [Rule('M', S(Asg('ps', '+=', Ref('P')), Str('e'))),
                  Rule('P', S(Str('p'), Asg('n', '=', INT), Str(';')), ws=' ')]),
    G('ws-rule-comment', [Rule('M', S(Asg('ps', '+=', Ref('P')), Str('e'))),
                          Rule('P', S(Str('p'), Asg('n', '=', INT)), ws='\t'), COMMENT]),
    G('global-noskipws', [Rule('M', S(Str('a'), Asg('x', '=', INT), Opt(Str(' ')), Asg('y', '=', ID)))],
      skipws=False),
    G('global-ws', [Rule('M', S(Str('a'), Asg('xs', '+=', INT)))], ws=' \t'),
    # the configured whitespace set must be the one a [skipws] rule switches back on
    G('global-noskipws-ws-rule-reset', [Rule('M', Asg('ps', '+=', Ref('P'))),
                                        Rule('P', S(Str('p'), Asg('n', '=', ID), Str(';')), skipws=True)],
      skipws=False, ws=' '),
    G('global-noskipws-ws-nested-reset', [Rule('M', S(Str('m'), Asg('q', '=', Ref('Q')), Opt(Str('\t')))),
                                          Rule('Q', S(Str('<'), Asg('ns', '+=', INT), Str('>')), skipws=True)],
      skipws=False, ws='\t'),
    G('objref', [Rule('M', S(Asg('ds', '+=', Ref('D')), Asg('us', '*=', Ref('U')))),
                 Rule('D', S(Str('d'), Asg('name', '=', ID))),
                 Rule('U', S(Str('u'), Asg('r', '=', ObjRef('D'))))], tags=['refs']),
    G('kw-ident', [Rule('M', S(Str('in'), Asg('x', '=', ID), Opt(S(Str('to'), Asg('y', '=', ID)))))]),
]

# ---------------------------------------------------------------- repeated assignments (C02)
def multi_family():
    """the same attribute assigned two or three times in combinations of
    sequence / choice / optional / repetition / unordered group"""
    a1 = Asg('a', '=', INT)
    ak = lambda k: S(Str(k), Asg('a', '=', INT))          # noqa: E731
    shapes = {
        'seq': lambda x, y: S(x, y),
        'alt': lambda x, y: A(x, y),
        'seq-opt': lambda x, y: S(x, Opt(y)),
        'opt-seq': lambda x, y: S(Opt(x), y),
        'seq-alt': lambda x, y: S(x, A(y, Str('n'))),
        'alt-seq': lambda x, y: S(A(x, Str('n')), y),
        'seq-star': lambda x, y: S(x, Star(y)),
        'ung': lambda x, y: Ung([x, y]),
        'ung-opt': lambda x, y: Ung([x, Opt(y)]),
        'seq-paren-alt': lambda x, y: S(x, A(S(Str('p'), y), Str('q'))),
        'alt-in-alt': lambda x, y: A(S(Str('p'), x), A(S(Str('q'), y), Str('r'))),
        'seq-in-alt': lambda x, y: A(S(Str('p'), x, Str(','), y), S(Str('q'), x)),
    }
    out = []
    for nm, f in shapes.items():
        out.append(G('multi-' + nm, [Rule('M', f(ak('x'), ak('y')))], tags=['multi']))
    # three assignments / interaction with other attributes and nested rules
    out += [
        G('multi-3-seq-alt', [Rule('M', S(ak('x'), A(S(ak('y'), Str(';')), Str('n')), Opt(ak('z'))))], tags=['multi']),
        G('multi-other-attr-between', [Rule('M', S(a1, A(S(Str('x'), Asg('b', '=', INT)), S(Str('y'), Asg('c', '=', INT))), a1))], tags=['multi']),
        G('multi-choice-branches-only', [Rule('M', S(Str('m'), A(ak('x'), ak('y'), S(Str('z'), Asg('b', '=', ID)))))], tags=['multi']),
        G('multi-nested-rule', [Rule('M', Asg('os', '+=', Ref('O'))),
                                Rule('O', S(Str('o'), a1, Opt(S(Str(','), a1)), Str(';')))], tags=['multi']),
        G('multi-nested-frames', [Rule('M', S(Asg('a', '=', INT), Asg('o', '=', Ref('O')), Opt(Str('!')))),
                                  Rule('O', S(Str('o'), Asg('a', '=', INT)))], tags=['multi']),
        G('multi-list-and-plain', [Rule('M', S(Asg('a', '+=', INT, sep=Str(',')), Opt(S(Str(';'), a1))))], tags=['multi']),
        G('multi-plain-then-list', [Rule('M', S(a1, Str(';'), Asg('a', '*=', INT)))], tags=['multi']),
        G('multi-rep-group', [Rule('M', Plus(S(Str('k'), a1)))], tags=['multi']),
        G('multi-opt-both', [Rule('M', S(Opt(ak('x')), Opt(ak('y')), Str('e')))], tags=['multi']),
        G('multi-alt-then-seq', [Rule('M', S(A(ak('x'), Asg('b', '=', ID)), Str(':'), ak('y')))], tags=['multi']),
        G('multi-deep-alt', [Rule('M', S(ak('x'), Opt(A(S(Str('p'), A(ak('y'), Str('n'))), Str('q')))))], tags=['multi']),
        G('multi-ung-3', [Rule('M', Ung([ak('x'), ak('y'), Asg('b', '=', ID)]))], tags=['multi']),
        G('multi-str-values', [Rule('M', S(Asg('k', '=', Str('a')), Opt(Asg('k', '=', Str('b')))))], tags=['multi']),
        # a group of one assignment; a user rule that happens to be called 'sep'
        G('multi-ung-single-asg', [Rule('M', S(Str('x'), Ung([Asg('a', '=', ID)]), Opt(ak('y'))))], tags=['multi']),
        G('multi-rule-named-sep', [Rule('M', Asg('items', '+=', Ref('sep'), sep=Str(','))),
                                   Rule('sep', S(Str('s'), Asg('name', '=', ID)))], tags=['multi']),
        G('multi-match-rule-named-sep', [Rule('M', S(Asg('items', '+=', Ref('sep')), Opt(Asg('more', '*=', Ref('sep'), sep=Str(';'))))),
                                         Rule('sep', Re(r's\d'))], tags=['multi']),
        G('multi-id-values', [Rule('M', S(Asg('n', '=', ID), A(S(Str(','), Asg('n', '=', ID)), Str(';'))))], tags=['multi']),
        # the same literal is assigned in one place and suppressed in a later one (another rule)
        G('multi-same-literal-suppressed-later', [Rule('M', S(Str('m'), Star(A(Asg('ss', '+=', Str('+')), Asg('ss', '+=', Str('-')))),
                                                              Opt(Asg('l', '=', Ref('L'))))),
                                                  Rule('L', S(Sup(Str('<')), ID, Sup(Str('-')), Sup(Str('+'))))], tags=['multi']),
        # a reference to a common rule is suppressed in one place; the rule is assigned in others
        G('multi-rule-suppressed-then-assigned', [Rule('M', S(Sup(Ref('P')), Asg('o', '=', Ref('P')),
                                                              Star(S(Str('p'), Asg('ps', '=', Ref('P')))))),
                                                  Rule('P', S(Str('<'), Asg('x', '=', INT), Star(S(Str(','), Asg('x', '=', INT)))))],
          tags=['multi']),
        # a repeat operator directly on a list assignment (the assignment itself is a repetition)
        G('multi-opt-of-star-asg', [Rule('M', S(Str('m'), Opt(Asg('a', '*=', INT)), Str(';')))], tags=['multi']),
        G('multi-plus-of-star-asg', [Rule('M', S(Asg('a', '=', INT), Plus(Asg('a', '*=', INT)), Opt(Str(';'))))], tags=['multi']),
        G('multi-star-of-plus-asg', [Rule('M', S(Str('m'), Star(Asg('a', '+=', ID, sep=Str(','))), Str(';')))], tags=['multi']),
        G('multi-star-of-star-asg-sep', [Rule('M', S(Str('m'), Star(Asg('a', '*=', INT, sep=Str(','))), Str(';')))], tags=['multi']),
        # matched values that convert to a falsy Python value ('' / 0.0) are values like any other
        G('multi-string-values', [Rule('M', S(Asg('a', '=', STRING), Asg('a', '=', STRING)))], tags=['multi']),
        G('multi-string-seq-opt', [Rule('M', S(Asg('a', '=', STRING), Opt(S(Str(','), Asg('a', '=', STRING)))))], tags=['multi']),
        G('multi-string-plain-and-list', [Rule('M', S(Asg('a', '=', STRING), Asg('a', '*=', STRING)))], tags=['multi']),
        G('multi-float-values', [Rule('M', S(Asg('a', '=', FLOAT), Star(S(Str(','), Asg('a', '=', FLOAT)))))], tags=['multi']),
    ]
    return out


MULTI = multi_family()

# ---------------------------------------------------------------- rule kinds (C03)
N_ = Rule('N', Asg('v', '=', INT))
Q_ = Rule('Q', S(Str('q'), Asg('w', '=', ID)))
KINDS = [
    G('kinds-chain', [Rule('M', Asg('es', '+=', Ref('A'))), Rule('A', Ref('B')), Rule('B', A(Ref('N'), Ref('Q'))), N_, Q_], tags=['kinds']),
    G('kinds-match-then-common', [Rule('M', Asg('es', '+=', Ref('A'))),
                                  Rule('A', A(S(Str('a'), Ref('W'), Ref('N')), S(Str('b'), Ref('N')))),
                                  Rule('W', S(INT, Str('+'), INT)), N_], tags=['kinds']),
    G('kinds-match-only-alt', [Rule('M', Asg('es', '+=', Ref('A'))),
                               Rule('A', A(Ref('N'), S(Str('#'), ID), Ref('W'))),
                               Rule('W', S(Str('w'), INT)), N_], tags=['kinds']),
    G('kinds-cycle', [Rule('M', Asg('es', '+=', Ref('A'))),
                      Rule('A', A(Ref('B'), Ref('N'))),
                      Rule('B', A(S(Str('('), Ref('A'), Str(')')), Ref('Q'))), N_, Q_], tags=['kinds']),
    # the first reference of an abstract alternative may yield nothing (optional, predicate, suppressed):
    # the object then comes from a later reference
    G('kinds-optional-first-ref', [Rule('M', Asg('es', '+=', Ref('A'))),
                                   Rule('A', A(S(Opt(Ref('Q')), Ref('N')), Ref('R'))), N_, Q_,
                                   Rule('R', S(Str('r'), Asg('z', '=', ID)))], tags=['kinds']),
    G('kinds-star-first-ref', [Rule('M', Asg('es', '+=', Ref('A'))),
                               Rule('A', A(S(Star(Ref('Q')), Ref('N')), Ref('R'))), N_, Q_,
                               Rule('R', S(Str('r'), Asg('z', '=', ID)))], tags=['kinds']),
    # ... or yields no object although it matches (a match rule alternative, a bracketed optional), or
    # matches after what follows it (unordered group)
    G('kinds-match-alternative-first', [Rule('M', Asg('es', '+=', Ref('A'))),
                                        Rule('A', A(S(A(Ref('Q'), Ref('W')), Ref('N')), Ref('R'))), N_, Q_,
                                        Rule('W', Str('w')),
                                        Rule('R', S(Str('r'), Asg('z', '=', ID)))], tags=['kinds']),
    G('kinds-bracketed-optional-first', [Rule('M', Asg('es', '+=', Ref('A'))),
                                         Rule('A', A(S(S(Str('['), Opt(Ref('Q')), Str(']')), Ref('N')), Ref('R'))), N_, Q_,
                                         Rule('R', S(Str('r'), Asg('z', '=', ID)))], tags=['kinds']),
    G('kinds-unordered-group', [Rule('M', Asg('es', '+=', Ref('A'))),
                                Rule('A', A(Ung([Ref('Q'), Ref('R')]), Ref('N'))), N_, Q_,
                                Rule('R', S(Str('r'), Asg('z', '=', ID)))], tags=['kinds']),
    G('kinds-predicate-first-ref', [Rule('M', Asg('es', '+=', Ref('A'))),
                                    Rule('A', A(S(Not_(Ref('R')), Ref('N')), Ref('R'))), N_,
                                    Rule('R', S(Str('r'), Asg('z', '=', ID)))], tags=['kinds']),
    G('kinds-suppressed-first-ref', [Rule('M', Asg('es', '+=', Ref('A'))),
                                     Rule('A', A(S(Sup(Ref('Q')), Ref('N')), Ref('R'))), N_, Q_,
                                     Rule('R', S(Str('r'), Asg('z', '=', ID)))], tags=['kinds']),
    # an alias-like rule of a rule that refers back to it (recursion through the alias)
    G('kinds-alias-of-recursive', [Rule('M', Asg('e', '=', Ref('A'))), Rule('A', Ref('B')),
                                   Rule('B', A(S(Str('('), Ref('A'), Str(')')), Ref('Q'))), Q_], tags=['kinds']),
    # the rule kind of P is only known in a later pass of the rule-type fixpoint
    G('kinds-paren-cycle', [Rule('M', Asg('e', '=', Ref('E'))), Rule('E', A(Ref('P'), Ref('V'))),
                            Rule('P', S(Str('('), Ref('E'), Str(')'))),
                            Rule('V', Asg('v', '=', INT))], tags=['kinds']),
    # a reference to another abstract rule next to a second non-terminal
    G('kinds-match-then-abstract', [Rule('M', Asg('es', '+=', Ref('A'))),
                                    Rule('A', A(S(Ref('W'), Ref('B')), Ref('Q'))),
                                    Rule('W', S(Str('#'), INT)), Rule('B', A(Ref('N'), Ref('R'))), N_, Q_,
                                    Rule('R', S(Str('r'), Asg('z', '=', ID)))], tags=['kinds']),
    G('kinds-abstract-then-common', [Rule('M', Asg('es', '+=', Ref('A'))),
                                     Rule('A', A(S(Ref('B'), Str(':'), Ref('Q')), Ref('Q'))),
                                     Rule('B', A(Ref('N'), Ref('R'))), N_, Q_,
                                     Rule('R', S(Str('r'), Asg('z', '=', ID)))], tags=['kinds']),
    G('kinds-diamond', [Rule('M', Asg('es', '+=', Ref('A'))),
                        Rule('A', A(Ref('B'), Ref('C'))), Rule('B', A(Ref('Q'), Ref('N'))),
                        Rule('C', A(Ref('N'), Ref('R'))), N_, Q_,
                        Rule('R', S(Str('r'), Asg('z', '=', ID)))], tags=['kinds']),
    G('kinds-abstract-attr-type', [Rule('M', S(Asg('h', '=', Ref('A')), Asg('t', '*=', Ref('B')))),
                                   Rule('A', A(Ref('N'), Ref('Q'))), Rule('B', A(Ref('Q'), Ref('A'))), N_, Q_], tags=['kinds']),
    G('kinds-match-chain', [Rule('M', Asg('vs', '+=', Ref('V'))), Rule('V', A(Ref('X'), Ref('Y'))),
                            Rule('X', S(Str('x'), INT)), Rule('Y', A(ID, Ref('X')))], tags=['kinds']),
    G('kinds-self-ref', [Rule('M', Asg('e', '=', Ref('E'))),
                         Rule('E', A(S(Str('-'), Ref('E')), Ref('N'), S(Str('('), Ref('E'), Str(')')))), N_], tags=['kinds']),
    G('kinds-two-common-in-seq', [Rule('M', Asg('es', '+=', Ref('A'))),
                                  Rule('A', A(S(Ref('N'), Str(':'), Ref('Q')), Ref('Q'))), N_, Q_], tags=['kinds']),
    G('kinds-objref-abstract', [Rule('M', S(Asg('es', '+=', Ref('D')), Asg('us', '*=', Ref('U')))),
                                Rule('D', A(Ref('D1'), Ref('D2'))),
                                Rule('D1', S(Str('d'), Asg('name', '=', ID))),
                                Rule('D2', S(Str('e'), Asg('name', '=', ID))),
                                Rule('U', S(Str('u'), Asg('r', '=', ObjRef('D'))))], tags=['kinds', 'refs']),
]

# ---------------------------------------------------------------- keywords / case (C20, C21)
KEYWORDS = [
    G('kw-basic', [Rule('M', S(Str('in'), Asg('x', '=', ID), Opt(S(Str('to'), Asg('y', '=', ID)))))], tags=['kw']),
    G('kw-symbols', [Rule('M', S(Str('if'), Str('('), Asg('c', '=', ID), Str(')'), Opt(S(Str('=>'), Asg('t', '=', ID)))))], tags=['kw']),
    G('kw-list', [Rule('M', Plus(A(S(Str('a'), Asg('xs', '+=', ID)), S(Str('ab'), Asg('ys', '+=', INT)))))], tags=['kw']),
    G('kw-sep', [Rule('M', Asg('xs', '+=', INT, sep=Str('and')))], tags=['kw']),
    G('kw-regex', [Rule('M', S(Str('b'), Asg('h', '=', Re(r'x[a-c]+')), Opt(Str('end'))))], tags=['kw']),
    # a suppressed reference to a rule that is one string literal; the same keyword suppressed first, plain later
    G('kw-suppressed-literal-rule', [Rule('M', S(Sup(Ref('K')), Asg('x', '=', ID), Opt(Ref('K')))), Rule('K', Str('ru'))], tags=['kw']),
    G('kw-same-keyword-plain-later', [Rule('M', S(Asg('t', '=', Ref('T')), Opt(S(Str(';'), Asg('k', '=', Str('r')))))),
                                      Rule('T', S(Sup(Str('r')), ID))], tags=['kw']),
    # a bracketed choice of keywords only, one a prefix of the next; keywords followed by a name
    G('kw-bracketed-choice-prefix-keywords', [Rule('M', S(A(Str('a'), Str('ab'), Str('abc')), Asg('x', '=', ID)))], tags=['kw']),
    # the same keyword plain in one rule and suppressed in a later one
    G('kw-same-keyword-suppressed-later', [Rule('M', S(Str('b'), Asg('n', '=', ID), Asg('cs', '*=', Ref('C')), Str('e'))),
                                           Rule('C', S(Str('d'), Asg('w', '=', ID), Sup(Str('e'))))],
      tags=['kw'], autokwd=True),
    # the Comment rule as a choice of regex literals with letters: comments are matched like any other literal
    G('kw-comment-choice', [Rule('M', S(Str('b'), Asg('x', '=', ID))),
                            Rule('Comment', A(Re(r'c\b.*$'), Re(r'#.*$')))], tags=['kw']),
    # regex literals made of plain characters only: under ignore_case the value is the text as written in the input
    G('kw-plain-regex', [Rule('M', S(Str('w'), Asg('u', '=', Re(r'kg')), Opt(S(Str('x'), Asg('m', '=', Ref('Unit')))))),
                         Rule('Unit', Re(r'lb'))], tags=['kw']),
    # keyword matching does not depend on the other parser settings of the metamodel
    G('kw-global-noskipws', [Rule('M', S(Str('in'), Opt(Str(' ')), Asg('x', '=', ID), Opt(S(Str(' '), Str('to')))))],
      tags=['kw'], skipws=False),
    G('kw-global-ws-memo', [Rule('M', S(Str('in'), Asg('x', '=', ID), Opt(Str('to'))))], tags=['kw'], ws=' ', memoization=True),
    G('kw-unicode', [Rule('M', S(Str('é'), Asg('x', '=', ID)))], tags=['kw']),
    G('kw-escaped', [Rule('M', S(Str('fi', spelling='f\\x69'), Asg('x', '=', ID),
                                 Opt(S(Str('é', spelling='\\u00e9'), Asg('y', '=', ID)))))], tags=['kw']),
    # literals with letters that are not identifier-like words
    G('kw-mixed-literal', [Rule('M', S(Str('#in'), Asg('x', '=', ID), Opt(S(Str('a-b'), Asg('y', '=', ID)))))], tags=['kw']),
    G('kw-digit-lead', [Rule('M', S(Str('0x'), Asg('h', '=', Re(r'[0-9A-F]+')), Opt(S(Str('2d'), Asg('y', '=', ID)))))], tags=['kw']),
    G('kw-digit-tail', [Rule('M', S(Str('k1'), Asg('x', '=', INT), Str('_e')))], tags=['kw']),
    G('kw-not-pred', [Rule('M', S(Star(S(Not_(Str('end')), Asg('ws', '+=', ID))), Str('end')))], tags=['kw']),
    G('kw-choice-order', [Rule('M', Plus(A(Asg('ks', '+=', Str('do')), Asg('ns', '+=', ID))))], tags=['kw']),
]

# ---------------------------------------------------------------- whitespace modes / memoization (C19, C22)
MODES = [
    G('mode-shared-rule', [Rule('M', A(Asg('a', '=', Ref('A')), Asg('b', '=', Ref('B')))),
                           Rule('A', S(Asg('w', '=', Ref('W')), Str('!')), skipws=False),
                           Rule('B', S(Asg('w', '=', Ref('W')), Str('?'))),
                           Rule('W', S(Str('x'), Str('y')))], tags=['modes']),
    G('mode-ws-shared', [Rule('M', A(Asg('a', '=', Ref('A')), Asg('b', '=', Ref('B')))),
                         Rule('A', S(Str('<'), Asg('w', '=', Ref('W')), Str('>')), ws=' '),
                         Rule('B', S(Str('<'), Asg('w', '=', Ref('W')), Str(']'))),
                         Rule('W', Plus(INT))], tags=['modes']),
    # the shared rule fixes its own whitespace mode (equal to the global default): it is never evaluated
    # under two states, memoization must be transparent
    G('mode-shared-rule-own-mode', [Rule('M', A(Asg('a', '=', Ref('A')), Asg('b', '=', Ref('B')))),
                                    Rule('A', S(Asg('w', '=', Ref('W')), Str('!')), skipws=False),
                                    Rule('B', S(Asg('w', '=', Ref('W')), Str('?'))),
                                    Rule('W', S(Str('x'), Str('y')), skipws=True)], tags=['modes']),
    G('mode-ws-shared-own-ws', [Rule('M', A(Asg('a', '=', Ref('A')), Asg('b', '=', Ref('B')))),
                                Rule('A', S(Str('<'), Asg('w', '=', Ref('W')), Str('>')), ws=' '),
                                Rule('B', S(Str('<'), Asg('w', '=', Ref('W')), Str(']'))),
                                Rule('W', Plus(S(Str('#'), INT)), ws='\t\n\r ')], tags=['modes']),
    G('mode-eolterm-shared', [Rule('M', A(S(Asg('a', '+=', Ref('W'), eol=True), Str('!')), S(Asg('b', '+=', Ref('W')), Str('?')))),
                              Rule('W', S(Str('w'), INT))], tags=['modes']),
    G('mode-plain', [Rule('M', A(S(Ref('W'), Asg('a', '=', INT)), S(Ref('W'), Asg('b', '=', ID)))),
                     Rule('W', S(Str('x'), Opt(Str('y'))))], tags=['modes']),
    G('mode-comment', [Rule('M', A(Asg('a', '=', Ref('A')), Asg('b', '=', Ref('B')))),
                       Rule('A', S(Asg('w', '=', Ref('W')), Str('!')), skipws=False),
                       Rule('B', S(Asg('w', '=', Ref('W')), Str('?'))),
                       Rule('W', S(Str('x'), INT)), COMMENT], tags=['modes']),
]

ALL = BASIC + MULTI + KINDS + KEYWORDS + MODES


def by_tag(tag):
    return [g for g in ALL if tag in g['tags']]


def text_of(g):
    return render_grammar(g['rules'])


# ---------------------------------------------------------------- random grammars
def random_grammar(rnd, idx):
    """a random grammar of the fragment: 1-3 rules, bounded expression depth,
    few distinct terminals (keeps the character-class alphabet small)"""
    kws = ['a', 'b', ';', ',', 'k']
    attrs = ['x', 'y', 'z']
    nrules = rnd.randint(1, 3)
    names = ['M', 'P', 'Q'][:nrules]

    def term():
        r = rnd.random()
        if r < 0.55:
            return Str(rnd.choice(kws))
        if r < 0.7:
            return INT
        if r < 0.85:
            return ID
        return Re(rnd.choice([r'[0-9]+', r'[a-c]+', r'#\w*']))

    def asg(rule_i):
        attr = rnd.choice(attrs)
        op = rnd.choice(['=', '=', '=', '+=', '*=', '?='])
        if rule_i + 1 < nrules and rnd.random() < 0.4:
            rhs = Ref(names[rnd.randint(rule_i + 1, nrules - 1)])
        else:
            rhs = rnd.choice([INT, ID, Str(rnd.choice(kws))])
        if op == '?=':
            rhs = Str(rnd.choice(kws))
        sep = Str(',') if op in ('+=', '*=') and rnd.random() < 0.4 else None
        return Asg(attr, op, rhs, sep=sep)

    def expr(depth, rule_i):
        r = rnd.random()
        if depth <= 0 or r < 0.3:
            return asg(rule_i) if rnd.random() < 0.5 else term()
        if r < 0.55:
            return S(*[expr(depth - 1, rule_i) for _ in range(rnd.randint(2, 3))])
        if r < 0.7:
            return A(*[expr(depth - 1, rule_i) for _ in range(2)])
        if r < 0.8:
            return Opt(expr(depth - 1, rule_i))
        if r < 0.87:
            return Star(S(term(), expr(depth - 1, rule_i)))
        if r < 0.92:
            return Plus(S(term(), expr(depth - 1, rule_i)))
        if r < 0.96:
            return Ung([S(term(), expr(depth - 1, rule_i)), S(term(), expr(depth - 1, rule_i))])
        return Sup(term())

    rules = []
    for i, n in enumerate(names):
        body = S(term(), asg(i), expr(2, i))
        params = {}
        if i > 0 and rnd.random() < 0.2:
            params['skipws'] = False
        rules.append(Rule(n, body, **params))
    # every non-root rule must be referenced
    for i in range(1, nrules):
        if not any(x == ('ref', names[i]) for r in rules[:i] for x in _walk(r[2])):
            n0, p0, b0 = rules[i - 1]
            rules[i - 1] = (n0, p0, S(b0, Asg('r%d' % i, '=', Ref(names[i]))))
    return G('rnd-%d' % idx, rules, tags=['random'])


def _walk(e):
    from .gram import subexprs
    return subexprs(e)


def random_corpus(seed, count):
    rnd = random.Random(1000 + seed)
    out = []
    tries = 0
    while len(out) < count and tries < count * 20:
        tries += 1
        g = random_grammar(rnd, len(out))
        if _valid(g):
            out.append(g)
    return out


def _valid(g):
    """filter: ?= attributes must not be assigned elsewhere; attribute op mix
    allowed by textX (no ?= inside repetition); keeps generator simple"""
    from .gram import subexprs
    for name, params, body in g['rules']:
        ops = {}
        for x in subexprs(body):
            if x[0] == 'asg':
                ops.setdefault(x[1], set()).add(x[2])
        for a, o in ops.items():
            if '?=' in o and len([1 for x in subexprs(body) if x[0] == 'asg' and x[1] == a]) > 1:
                return False
        if _bool_in_rep(body, False):
            return False
    return True


def _bool_in_rep(e, inrep):
    k = e[0]
    if k == 'asg':
        return inrep and e[2] == '?='
    if k in ('seq', 'alt'):
        return any(_bool_in_rep(x, inrep) for x in e[1])
    if k in ('opt', 'sup', 'and', 'not'):
        return _bool_in_rep(e[1], inrep)
    if k in ('star', 'plus'):
        return _bool_in_rep(e[1], True)
    if k == 'ung':
        return any(_bool_in_rep(x, inrep) for x in e[1])
    return False
