"""
refpeg — the *reference* semantics of the checked textX grammar fragment,
evaluated from a grammar AST (verifx.gram) over the same SymInput as sympeg.

Textbook PEG + the documented textX rules (docs/src/grammar.md,
parser_config.md, metamodel.md):
  * ordered choice takes the first alternative that matches; `?` never fails;
    `*`/`+` are greedy, a separator is matched between elements, `eolterm`
    removes newlines from the whitespace set inside the repetition;
  * unordered group: elements in any order, each at most once, elements that
    can match the empty string may be absent; separator between elements;
  * predicates consume nothing; suppression does not affect matching;
  * while whitespace skipping is active, characters of the active whitespace
    set and matches of the Comment rule are skipped before every token;
  * rule modifiers (skipws / noskipws / ws) apply to the rule and to the rules
    it calls until overridden;  the model is the root rule followed by the end
    of input;
  * autokwd: identifier-like string literals only match on a word boundary;
    ignore_case: string and regex literals match case-insensitively.
Choices where the documentation is silent (kept identical to the observed
behaviour and therefore not tested by the comparison): comments are skipped
before a token even under noskipws; regex literals are compiled with
re.MULTILINE; a repetition stops when an iteration makes no progress.

In concrete mode (all characters concrete) every outcome additionally carries
the semantic value, from which the reference model is built.
"""
import re

from .alg import And, Or, Not, Ite, Add
from .symtext import SymRe, CHR2CODE, FOLDSET, WORD, Unsupported
from . import gram

DEFAULT_WS = '\t\n\r '
KW = re.compile(r'[^\d\W]\w*')


class ROut:
    """c: condition; fp: fingerprint term; val: semantic items (concrete mode);
    ne: some non-empty token was matched (an assignment whose right-hand side
    matched only the empty string records nothing — the documentation is
    silent, the observed behaviour is kept)"""
    __slots__ = ('c', 'fp', 'val', 'ne')

    def __init__(self, c, fp=0, val=(), ne=False):
        self.c, self.fp, self.val, self.ne = c, fp, val, ne


def rseq(a, b):
    return ROut(And(a.c, b.c), Add(a.fp, b.fp), a.val + b.val, Or(a.ne, b.ne))


def rmerge(a, b):
    return ROut(Or(a.c, b.c), Ite(a.c, a.fp, b.fp), a.val if a.c is True else b.val,
                Ite(a.c, a.ne, b.ne))


def _toks(items):
    """the token-trace items ('tok', skip start, token start, end, state)"""
    return tuple(it for it in items if len(it) == 5 and it[0] == 'tok')


class Obj(dict):
    """reference model object: {'_cls': name, '_span': (start, end), attr: value}"""


class XRef:
    def __init__(self, name, cls):
        self.name, self.cls = name, cls

    def __repr__(self):
        return 'XRef(%r,%s)' % (self.name, self.cls)

    def __eq__(self, o):
        return isinstance(o, XRef) and (self.name, self.cls) == (o.name, o.cls)

    def __hash__(self):
        return hash((self.name, self.cls))


def convert(base, text):
    if base == 'INT':
        return int(text)
    if base in ('FLOAT', 'STRICTFLOAT'):
        return float(text)
    if base == 'BOOL':
        return text in ('True', 'true', '1')
    if base == 'STRING':
        q = text[0]
        return text[1:-1].replace('\\' + q, q)
    return text


class RefPeg:
    def __init__(self, rules, inp, skipws=True, ws=None, autokwd=False, ignore_case=False,
                 fpindex=None):
        self.rules = {r[0]: r for r in rules}
        self.order = [r[0] for r in rules]
        self.root = rules[0][0]
        self.kinds = gram.rule_kinds([r for r in rules])
        self.inp = inp
        self.n = inp.n
        self.st0 = (bool(skipws), DEFAULT_WS if ws is None else ws, False)
        self.autokwd = autokwd
        self.ignore_case = ignore_case
        self.fpindex = fpindex
        self.memo = {}
        self.rx = {}
        self.inprog = set()
        self.concrete = not inp.free
        self.comment = self.rules['Comment'][2] if 'Comment' in self.rules else None
        self.frame = []   # stack of common-rule names while evaluating (for fp keys)

    # ------------------------------------------------------------ tokens
    def add(self, d, key, o):
        if o.c is False:
            return
        old = d.get(key)
        d[key] = o if old is None else rmerge(old, o)

    def addc(self, d, key, c):
        if c is False:
            return
        d[key] = Or(d.get(key, False), c)

    @staticmethod
    def succ(res):
        return Or(*[o.c for o in res.values()]) if res else False

    def skip_ws(self, pos, st):
        skipws, ws, eol = st
        if not skipws:
            return {pos: True}
        key = ('ws', pos, ws, eol)
        r = self.memo.get(key)
        if r is not None:
            return r
        if eol:
            ws = ws.replace('\n', '').replace('\r', '')
        wsc = frozenset(CHR2CODE[c] for c in ws if c in CHR2CODE)
        out = {}
        run = True
        p = pos
        while True:
            if p >= self.n:
                self.addc(out, p, run)
                break
            isw = self.inp.inset(p, wsc)
            self.addc(out, p, And(run, Not(isw)))
            run = And(run, isw)
            if run is False:
                break
            p += 1
        self.memo[key] = out
        return out

    def skip(self, pos, st, in_comment):
        """positions after skipping whitespace and comments before a token"""
        key = ('sk', pos, st, in_comment)
        r = self.memo.get(key)
        if r is not None:
            return r
        if key in self.inprog:
            raise Unsupported('non-progressing comment rule')
        self.inprog.add(key)
        try:
            out = {}
            for p1, c1 in self.skip_ws(pos, st).items():
                if in_comment or self.comment is None:
                    self.addc(out, p1, c1)
                    continue
                res = self.ev(self.comment, p1, st, True)
                self.addc(out, p1, And(c1, Not(self.succ(res))))
                for e, o in res.items():
                    c = And(c1, o.c)
                    if c is False:
                        continue
                    if e == p1:
                        raise Unsupported('comment rule matches the empty string')
                    for p3, c3 in self.skip(e, st, False).items():
                        self.addc(out, p3, And(c, c3))
        finally:
            self.inprog.discard(key)
        self.memo[key] = out
        return out

    def regex(self, pattern):
        key = pattern
        r = self.rx.get(key)
        if r is None:
            flags = re.MULTILINE | (re.IGNORECASE if self.ignore_case else 0)
            flags = re.compile(pattern, flags).flags
            r = self.rx[key] = SymRe(pattern, flags, self.inp)
        return r

    def base_regex(self, name):
        key = ('base', name)
        r = self.rx.get(key)
        if r is None:
            flags = re.compile(gram.BASE_RE[name], re.MULTILINE).flags
            r = self.rx[key] = SymRe(gram.BASE_RE[name], flags, self.inp)
        return r

    def token(self, pos, st, inc, matcher, mkval):
        """skip, then match: dict end -> ROut"""
        out = {}
        for p, c in self.skip(pos, st, inc).items():
            for end, d in matcher(p).items():
                cc = And(c, d)
                if cc is False:
                    continue
                val = ()
                if self.concrete and cc is True:
                    # ('tok', skip start, token start, token end, state): the
                    # whitespace/comment range in front of every matched token
                    val = mkval(p, end) + (('tok', pos, p, end, st),)
                self.add(out, end, ROut(cc, 0, val, end > p))
        return out

    def text(self, a, b):
        from .symtext import code2chr
        return ''.join(code2chr(c) for c in self.inp.chars[a:b])

    def m_str(self, s):
        def matcher(p):
            if p + len(s) > self.n:
                return {}
            cs = []
            for i, ch in enumerate(s):
                if ch not in CHR2CODE:
                    return {}
                k = CHR2CODE[ch]
                cs.append(self.inp.inset(p + i, FOLDSET[k] if self.ignore_case else frozenset([k])))
            if self.autokwd and s and KW.fullmatch(s):
                e = p + len(s)
                if e < self.n:
                    cs.append(Not(self.inp.inset(e, WORD)))
            c = And(*cs)
            return {} if c is False else {p + len(s): c}
        return matcher

    # ------------------------------------------------------------ evaluation
    def ev(self, e, pos, st, inc=False):
        key = (id(e), pos, st, inc)
        r = self.memo.get(key)
        if r is not None:
            return r
        if key in self.inprog:
            raise Unsupported('left recursion')
        self.inprog.add(key)
        try:
            r = self._ev(e, pos, st, inc)
        finally:
            self.inprog.discard(key)
        self.memo[key] = r
        return r

    def _ev(self, e, pos, st, inc):
        k = e[0]
        out = {}
        if k == 'str':
            s = e[1]
            return self.token(pos, st, inc, self.m_str(s), lambda a, b: (('txt', s, a, b),))
        if k == 're':
            rx = self.regex(e[1])
            return self.token(pos, st, inc, rx.match,
                              lambda a, b: (('txt', self.text(a, b), a, b),) if b > a else ())
        if k == 'seq':
            cur = {pos: ROut(True)}
            for x in e[1]:
                nxt = {}
                for p, o1 in cur.items():
                    for end, o2 in self.ev(x, p, st, inc).items():
                        self.add(nxt, end, rseq(o1, o2))
                cur = nxt
                if not cur:
                    break
            return cur
        if k == 'alt':
            none_before = True
            for x in e[1]:
                res = self.ev(x, pos, st, inc)
                for end, o in res.items():
                    self.add(out, end, ROut(And(none_before, o.c), o.fp, o.val, o.ne))
                none_before = And(none_before, Not(self.succ(res)))
                if none_before is False:
                    break
            return out
        if k == 'opt':
            res = self.ev(e[1], pos, st, inc)
            for end, o in res.items():
                self.add(out, end, o)
            self.add(out, pos, ROut(Not(self.succ(res))))
            return out
        if k in ('star', 'plus'):
            return self._rep(e[1], e[2], e[3], k == 'plus', pos, st, inc, None)
        if k == 'ung':
            return self._ung(e, pos, st, inc)
        if k == 'and':
            self.add(out, pos, ROut(self.succ(self.ev(e[1], pos, st, inc))))
            return out
        if k == 'not':
            self.add(out, pos, ROut(Not(self.succ(self.ev(e[1], pos, st, inc)))))
            return out
        if k == 'sup':
            for end, o in self.ev(e[1], pos, st, inc).items():
                self.add(out, end, ROut(o.c, 0, tuple(it for it in o.val if it[0] == 'tok'), o.ne))
            return out
        if k == 'ref':
            return self._ref(e[1], pos, st, inc)
        if k == 'asg':
            return self._asg(e, pos, st, inc)
        raise Unsupported('ast node %r' % (k,))

    def _rep(self, body, sep, eol, plus, pos, st, inc, wrap):
        """greedy repetition: stops when the separator or the element fails or
        the element makes no progress"""
        out = {}
        st2 = (st[0], st[1], True) if eol else st
        cur = {pos: ROut(True)}
        it = 0
        while cur:
            nxt = {}
            for p, o0 in cur.items():
                if sep is not None and it > 0:
                    sres = self.ev(sep, p, st2, inc)
                    mids = [(se, so.c) for se, so in sres.items()]
                    stop = Not(self.succ(sres))
                else:
                    mids = [(p, True)]
                    stop = False
                for mp, mc in mids:
                    res = self.ev(body, mp, st2, inc)
                    noelem = Not(self.succ(res))
                    for end, d in res.items():
                        if end == mp:
                            noelem = Or(noelem, d.c)
                            if plus and it == 0:
                                # e+ is e e*: an element that succeeds without consuming anything
                                # satisfies the "one" (and ends the repetition)
                                self.add(out, mp, rseq(ROut(And(o0.c, mc), o0.fp, o0.val, o0.ne), d))
                            continue
                        self.add(nxt, end, rseq(ROut(And(o0.c, mc), o0.fp, o0.val, o0.ne), d))
                    stop = Or(stop, And(mc, noelem))
                if not (plus and it == 0):
                    self.add(out, p, ROut(And(o0.c, stop), o0.fp, o0.val, o0.ne))
            cur = nxt
            it += 1
            if it > self.n + 2:
                raise Unsupported('repetition does not terminate')
        return out

    def _ung(self, e, pos, st, inc):
        _, elems, sep = e
        out = {}
        states = {(tuple(range(len(elems))), True, pos): ROut(True)}
        rounds = 0
        while states:
            rounds += 1
            if rounds > len(elems) + 2:
                raise Unsupported('unordered group does not terminate')
            nxt = {}
            for (rem, first, p0), o in states.items():
                if not rem:
                    self.add(out, p0, o)
                    continue
                if sep is not None and not first:
                    sres = self.ev(sep, p0, st, inc)
                    starts = [(se, And(o.c, so.c)) for se, so in sres.items()]
                    nosep = And(o.c, Not(self.succ(sres)))
                else:
                    starts = [(p0, o.c)]
                    nosep = False
                # without a separator no further element can be taken
                done = nosep
                for ps, cs in starts:
                    if cs is False:
                        continue
                    none_before = cs
                    for idx in rem:
                        res = self.ev(elems[idx], ps, st, inc)
                        prog = False
                        for end, d in res.items():
                            if end == ps:
                                continue
                            prog = Or(prog, d.c)
                            self.add(nxt, (tuple(i for i in rem if i != idx), False, end),
                                     rseq(ROut(none_before, o.fp, o.val, o.ne), d))
                        none_before = And(none_before, Not(prog))
                        if none_before is False:
                            break
                    done = Or(done, none_before)
                # the group ends here: every remaining element must accept the empty string
                if done is not False:
                    ok = done
                    for idx in rem:
                        res = self.ev(elems[idx], p0, st, inc)
                        ok = And(ok, res[p0].c if p0 in res else False)
                    self.add(out, p0, ROut(ok, o.fp, o.val, o.ne))
            states = nxt
        return out

    def _rule_state(self, name, st):
        params = self.rules[name][1]
        skipws, ws, eol = st
        if 'skipws' in params:
            skipws = bool(params['skipws'])
        if 'ws' in params:
            v = params['ws']
            ws = v
        return (skipws, ws, eol)

    def _ref(self, name, pos, st, inc):
        out = {}
        if name in gram.BASE_RE:
            rx = self.base_regex(name)
            return self.token(pos, st, inc, rx.match,
                              lambda a, b: (('val', convert(name, self.text(a, b)), a, b),)
                              if b > a else ())
        if name in gram.BASE_ALT:
            none_before = True
            for alt in gram.BASE_ALT[name]:
                res = self._ref(alt, pos, st, inc)
                for end, o in res.items():
                    self.add(out, end, ROut(And(none_before, o.c), o.fp, o.val, o.ne))
                none_before = And(none_before, Not(self.succ(res)))
            return out
        if name not in self.rules:
            raise Unsupported('unknown rule %s' % name)
        kind = self.kinds[name]
        st2 = self._rule_state(name, st)
        res = self.ev(self.rules[name][2], pos, st2, inc)
        for end, o in res.items():
            fp, val = o.fp, o.val
            if kind == 'common' and self.fpindex is not None:
                fp = Add(fp, self.fpindex.w(('obj', name)))
            if self.concrete and o.c is True:
                val = self._close(name, kind, o.val, pos, end) + _toks(o.val)
            self.add(out, end, ROut(o.c, fp, val, o.ne))
        return out

    def _close(self, name, kind, items, pos, end):
        """value of a rule invocation (token-trace items are carried by the caller)"""
        if kind == 'common':
            obj = Obj()
            obj['_cls'] = name
            body = self.rules[name][2]
            many = {a: gram.ref_multiplicity(body, a) == 'many' for a in gram.attrs_of(body)}
            spans = [(it[-2], it[-1]) for it in items if it[0] in ('txt', 'val', 'obj', 'asg')]
            for it in items:
                if it[0] != 'asg':
                    continue
                _, attr, op, value, a, b = it
                if op == '?=':
                    obj[attr] = True
                elif op == '=':
                    if many[attr]:
                        obj.setdefault(attr, []).append(value)
                    else:
                        obj[attr] = value
                else:
                    obj.setdefault(attr, []).extend(value)
            if spans:
                obj['_span'] = (min(s[0] for s in spans), max(s[1] for s in spans))
            else:
                obj['_span'] = None
            # span over every matched token of the object, suppressed ones included
            toks = [(it[2], it[3]) for it in _toks(items) if it[3] > it[2]]
            obj['_span_all'] = (min(t[0] for t in toks), max(t[1] for t in toks)) if toks else None
            return (('obj', obj, obj['_span'][0] if spans else pos,
                     obj['_span'][1] if spans else pos),)
        vals = [it for it in items if it[0] in ('txt', 'val', 'obj')]
        if kind == 'abstract':
            for it in vals:
                if it[0] == 'obj':
                    return (it,)
        if not vals:
            return ()
        a, b = vals[0][-2], vals[-1][-1]
        if len(vals) == 1:
            it = vals[0]
            return (('val', it[1], a, b),)
        return (('val', ''.join(str(it[1]) for it in vals), a, b),)

    def _value_of(self, rhs, items):
        """semantic value of a matched assignment right-hand side"""
        vals = [it for it in items if it[0] in ('txt', 'val', 'obj')]
        if rhs[0] == 'objref':
            return XRef(vals[0][1] if vals else '', rhs[1]), (vals[0][-2], vals[-1][-1]) if vals else None
        if not vals:
            return None, None
        return vals[0][1], (vals[0][-2], vals[-1][-1])

    def _asg(self, e, pos, st, inc):
        _, attr, op, rhs, sep, eol = e
        out = {}
        rexpr = ('ref', rhs[2]) if rhs[0] == 'objref' else rhs
        w = self.fpindex.w(('asg', self._owner(e), attr)) if self.fpindex is not None else 0
        if op in ('=', '?='):
            res = self.ev(rexpr, pos, st, inc)
            for end, o in res.items():
                val = ()
                fp = o.fp
                if self.concrete and o.c is True:
                    v, span = self._value_of(rhs, o.val)
                    if span is not None:
                        val = (('asg', attr, op, True if op == '?=' else v, span[0], span[1]),)
                    val = val + _toks(o.val)
                # an assignment records a value when its right-hand side matched
                # something (an empty match leaves the attribute untouched)
                if w:
                    fp = Add(fp, Ite(o.ne, w, 0))
                self.add(out, end, ROut(o.c, fp, val, o.ne))
            if op == '?=':
                self.add(out, pos, ROut(Not(self.succ(res))))
            return out
        # += / *=
        st2 = (st[0], st[1], True) if eol else st
        cur = {pos: ROut(True)}
        it = 0
        while cur:
            nxt = {}
            for p, o0 in cur.items():
                if sep is not None and it > 0:
                    sres = self.ev(sep, p, st2, inc)
                    mids = [(se, so.c) for se, so in sres.items()]
                    stop = Not(self.succ(sres))
                else:
                    mids = [(p, True)]
                    stop = False
                for mp, mc in mids:
                    res = self.ev(rexpr, mp, st2, inc)
                    noelem = Not(self.succ(res))
                    for end, d in res.items():
                        if end == mp:
                            noelem = Or(noelem, d.c)
                            continue
                        val = o0.val
                        if self.concrete and o0.c is True and mc is True and d.c is True:
                            v, span = self._value_of(rhs, d.val)
                            val = o0.val + ((v, span),) + _toks(d.val)
                        self.add(nxt, end, ROut(And(o0.c, mc, d.c), Add(Add(o0.fp, d.fp), w), val, True))
                    stop = Or(stop, And(mc, noelem))
                if not (op == '+=' and it == 0):
                    val = ()
                    if self.concrete and o0.val:
                        pairs = [x for x in o0.val if len(x) == 2]
                        if pairs:
                            val = (('asg', attr, op, [v for v, _ in pairs], pairs[0][1][0],
                                    pairs[-1][1][1]),)
                        val = val + _toks(o0.val)
                    self.add(out, p, ROut(And(o0.c, stop), o0.fp, val, o0.ne))
            cur = nxt
            it += 1
            if it > self.n + 2:
                raise Unsupported('repetition does not terminate')
        return out

    def _owner(self, asg):
        key = ('owner', id(asg))
        r = self.memo.get(key)
        if r is None:
            for name in self.order:
                if any(x is asg for x in gram.subexprs(self.rules[name][2])):
                    r = name
                    break
            self.memo[key] = r
        return r

    # ------------------------------------------------------------ entry points
    def outcomes(self):
        """root rule followed by end of input: dict end(=n) -> ROut"""
        res = self._ref(self.root, 0, self.st0, False)
        out = {}
        for end, o in res.items():
            for p, c in self.skip(end, self.st0, False).items():
                if p == self.n:
                    val = o.val
                    if self.concrete and o.c is True and c is True:
                        val = val + (('tok', end, p, p, self.st0),)
                    self.add(out, p, ROut(And(o.c, c), o.fp, val, o.ne))
        return out

    def accept_fp(self):
        res = self.outcomes()
        acc = self.succ(res)
        fp = 0
        for o in res.values():
            fp = Ite(o.c, o.fp, fp)
        return acc, fp

    def tokens(self):
        """concrete mode: [(skip start, token start, token end, state)] of the
        accepting derivation (None if rejected)"""
        assert self.concrete
        for o in self.outcomes().values():
            if o.c is True:
                return [it[1:] for it in o.val if it[0] == 'tok']
        return None

    def model(self):
        """concrete mode: reference model (Obj / value) or None if rejected"""
        assert self.concrete
        res = self.outcomes()
        for o in res.values():
            if o.c is True:
                vals = [it for it in o.val if it[0] in ('obj', 'val', 'txt')]
                return (True, vals[0][1] if vals else None)
        return (False, None)
