"""
sympeg — bounded symbolic evaluation of a *live* Arpeggio parser model (the
object graph textX's grammar compiler has just produced) over a SymInput.

`ev(expr, pos, state)` returns a dict  (end, kind) -> Out  whose conditions are
mutually exclusive; a missing key means NoMatch.  The encoding follows
Arpeggio 2.0.3 operationally (see DESIGN.md 2.3).  Result kinds:

    N  None                      (suppressed match, empty optional, predicate)
    E  falsy but not None        ([] of a repetition, empty NonTerminal)
    T  truthy, non-empty when flattened
    X  truthy, but flattens to nothing   (e.g. [[]])

Out carries, besides the condition, attributes that are meaningful when the
condition holds (merged with ite, composed along sequences):

    h   {(cls, attr): bool}  single-valued attribute assigned in the current
                             object frame
    b   {(cls, attr): bool}  some frame assigned that tracked attribute twice
    fp  int                  fingerprint: sum of BASE**index over objects
                             created per rule and values assigned per attribute
"""
from arpeggio import (Sequence, OrderedChoice, Optional, ZeroOrMore, OneOrMore,
                      UnorderedGroup, And as PAnd, Not as PNot, Match, StrMatch,
                      RegExMatch, EndOfFile, Empty)

from .alg import And, Or, Not, Ite, Add
from .symtext import SymRe, CHR2CODE, FOLDSET, Unsupported

N_, E_, T_, X_ = 'N', 'E', 'T', 'X'
DEFAULT_WS = '\t\n\r '
_EMPTY = {}


class Out:
    __slots__ = ('c', 'h', 'b', 'fp')

    def __init__(self, c, h=_EMPTY, b=_EMPTY, fp=0):
        self.c, self.h, self.b, self.fp = c, h, b, fp

    def plain(self):
        return not self.h and not self.b and isinstance(self.fp, int) and self.fp == 0


def strip(o):
    """same condition, no attributes (result dropped from the parse tree)"""
    return o if o.plain() else Out(o.c)


def seq(a, b):
    """b evaluated after a (both contribute to the same object frame)"""
    c = And(a.c, b.c)
    if a.plain() and b.plain():
        return Out(c)
    if a.b or b.b:
        bb = dict(a.b)
        for k, v in b.b.items():
            bb[k] = Or(bb[k], v) if k in bb else v
    else:
        bb = _EMPTY
    if a.h and b.h:
        h = dict(a.h)
        for k, v in b.h.items():
            if k in h:
                both = And(h[k], v)
                if both is not False:
                    if bb is _EMPTY:
                        bb = {}
                    bb[k] = Or(bb.get(k, False), both)
                h[k] = Or(h[k], v)
            else:
                h[k] = v
    else:
        h = a.h or b.h
    return Out(c, h, bb, Add(a.fp, b.fp))


def _merge_dict(ca, da, db):
    if not da and not db:
        return _EMPTY
    out = {}
    for k in set(da) | set(db):
        out[k] = Ite(ca, da.get(k, False), db.get(k, False))
    return out


def merge(a, b):
    """a and b are alternative (mutually exclusive) ways to the same outcome"""
    c = Or(a.c, b.c)
    if a.plain() and b.plain():
        return Out(c)
    return Out(c, _merge_dict(a.c, a.h, b.h), _merge_dict(a.c, a.b, b.b), Ite(a.c, a.fp, b.fp))


def with_c(o, c):
    """o restricted by the additional condition c (o.c is replaced by c∧o.c)"""
    return Out(And(c, o.c), o.h, o.b, o.fp)


class FpIndex:
    """shared registry: fingerprint component -> weight BASE**i"""

    def __init__(self, base):
        self.base = base
        self.idx = {}

    def w(self, key):
        if key not in self.idx:
            self.idx[key] = len(self.idx)
        return self.base ** self.idx[key]

    def decode(self, value):
        out = {}
        for key, i in self.idx.items():
            d = (value // self.base ** i) % self.base
            if d:
                out[key] = d
        return out


def owners_of(metamodel):
    """id(assignment node) -> owning class name; id(rule root) -> class, for a
    live textX metamodel (walks each rule body without crossing root rules)."""
    owner = {}

    def walk(e, cname, top):
        if e.root and not top and not (e.rule_name or '').startswith('__asgn'):
            return
        if (e.rule_name or '').startswith('__asgn'):
            owner[id(e)] = cname
        for ch in getattr(e, 'nodes', []) or []:
            walk(ch, cname, False)
        sep = getattr(e, 'sep', None)
        if sep is not None:
            walk(sep, cname, False)

    for cls in metamodel:
        rule = getattr(cls, '_tx_peg_rule', None)
        if rule is None or cls.__name__ != getattr(rule, 'rule_name', None):
            continue
        if getattr(cls, '_tx_type', None) != 'common':
            continue
        walk(rule, cls.__name__, True)
    return owner


class SymPeg:
    def __init__(self, inp, comments_model=None, skipws=True, ws=None,
                 single=(), fpindex=None, owner=None, nodeless_ok=False):
        self.inp = inp
        self.n = inp.n
        self.comments_model = comments_model
        self.st0 = (bool(skipws), DEFAULT_WS if ws is None else ws, False)
        self.memo = {}
        self.rx = {}
        self.inprog = set()
        self.single = set(single)     # {(cls, attr)} single-valued attributes
        self.fpindex = fpindex
        self.owner = owner or {}
        self.trace = None             # set to a list to record non-terminal evaluations
        # root-cause model for known findings: a successful match that yields no
        # parse-tree node is treated as a success by choices and repetitions
        self.nodeless_ok = nodeless_ok
        self.edges = None             # set to a dict to record call edges: child key -> [(parent key, cond)]
        self.keep = []

    @classmethod
    def for_metamodel(cls, mm, inp, **kw):
        pb = mm._parser_blueprint
        return cls(inp, comments_model=pb.comments_model, skipws=pb.skipws,
                   ws=pb.ws, owner=owners_of(mm), **kw)

    # ------------------------------------------------------------ helpers
    def add(self, d, key, o):
        if o.c is False:
            return
        old = d.get(key)
        d[key] = o if old is None else merge(old, o)

    def addc(self, d, key, c):
        if c is False:
            return
        d[key] = Or(d.get(key, False), c)

    @staticmethod
    def succ(res):
        return Or(*[o.c for o in res.values()]) if res else False

    def skip_ws(self, pos, st):
        """dict pos' -> cond"""
        skipws, ws, eol = st
        if not skipws:
            return {pos: True}
        key = ('ws', pos, ws, eol)
        r = self.memo.get(key)
        if r is not None:
            return r
        if eol:
            ws = ws.replace('\n', '').replace('\r', '')
        wsc = frozenset(CHR2CODE[c] for c in ws if c in CHR2CODE)
        out = {}
        run = True
        p = pos
        while True:
            if p >= self.n:
                self.addc(out, p, run)
                break
            isw = self.inp.inset(p, wsc)
            self.addc(out, p, And(run, Not(isw)))
            run = And(run, isw)
            if run is False:
                break
            p += 1
        self.memo[key] = out
        return out

    def comments(self, pos, st):
        """dict pos' -> cond: position after `comments*` parsed from pos"""
        key = ('cm', pos, st)
        r = self.memo.get(key)
        if r is not None:
            return r
        if key in self.inprog:
            raise Unsupported('non-progressing comment rule')
        self.inprog.add(key)
        try:
            out = {}
            if not self.comments_model:
                out = {pos: True}
            else:
                res = self.ev(self.comments_model, pos, st, True)
                succ = self.succ(res)
                for (e, k), o in res.items():
                    for p2, c2 in self.skip_ws(e, st).items():
                        c = And(o.c, c2)
                        if c is False:
                            continue
                        if p2 == pos:
                            raise Unsupported('comment rule matches the empty string')
                        for p3, c3 in self.comments(p2, st).items():
                            self.addc(out, p3, And(c, c3))
                self.addc(out, pos, Not(succ))
        finally:
            self.inprog.discard(key)
        self.memo[key] = out
        return out

    def regex(self, m):
        r = self.rx.get(id(m))
        if r is None:
            if not hasattr(m, 'regex'):
                m.compile()
            r = self.rx[id(m)] = SymRe(m.regex.pattern, m.regex.flags, self.inp)
        return r

    def st_override(self, e, st):
        skipws, ws, eol = st
        if getattr(e, 'ws', None) is not None:
            ws = e.ws
        if getattr(e, 'skipws', None) is not None:
            skipws = bool(e.skipws)
        return (skipws, ws, eol)

    # ------------------------------------------------------------ evaluation
    def call(self, pk, e, pos, st, inc, cond):
        """ev() that also records under which condition the parent evaluates the child"""
        if self.edges is not None and cond is not False:
            self.edges.setdefault((id(e), pos, st, inc), []).append((pk, cond))
        return self.ev(e, pos, st, inc)

    def reach(self, key, _memo=None):
        """condition under which the real parser evaluates key (top-down over the call DAG)"""
        memo = self.__dict__.setdefault('_reach_memo', {})
        r = memo.get(key)
        if r is not None:
            return r
        inc = self.edges.get(key)
        if not inc:
            r = True
        else:
            r = Or(*[And(self.reach(pk), c) for pk, c in inc])
        memo[key] = r
        return r

    def ev(self, e, pos, st, inc=False):
        key = (id(e), pos, st, inc)
        r = self.memo.get(key)
        if r is not None:
            return r
        if key in self.inprog:
            raise Unsupported('left recursion at %s' % getattr(e, 'name', e))
        self.inprog.add(key)
        try:
            if isinstance(e, Match):
                r = self._ev_match(e, pos, st, inc)
            else:
                r = self._wrap(e, self._ev(e, pos, st, inc))
        finally:
            self.inprog.discard(key)
        self.memo[key] = r
        if self.trace is not None and not isinstance(e, Match):
            self.trace.append((e, pos, st, inc, r))
        return r

    def _wrap(self, e, r):
        """ParsingExpression.parse around _parse: suppression, [None] -> None,
        root-rule NonTerminal creation; plus attribute bookkeeping."""
        rn = e.rule_name or ''
        asg = rn.startswith('__asgn')
        cls = getattr(e, '_tx_class', None)
        common = e.root and cls is not None and getattr(cls, '_tx_type', None) == 'common'
        r2 = {}
        for (end, k), o in r.items():
            if e.suppress:
                k = N_
            if e.root and k in (T_, X_):
                k = T_ if k == T_ else E_
            if k != T_:
                o = strip(o)
            elif asg:
                o = self._assign(e, rn, o)
            elif common:
                fp = o.fp
                if self.fpindex is not None:
                    fp = Add(fp, self.fpindex.w(('obj', cls.__name__)))
                o = Out(o.c, _EMPTY, o.b, fp)
            self.add(r2, (end, k), o)
        return r2

    def _assign(self, e, rn, o):
        cname = self.owner.get(id(e))
        tag = (cname, e._attr_name)
        h, b, fp = o.h, o.b, o.fp
        if tag in self.single and rn == '__asgn_plain':
            h = dict(h)
            if tag in h and h[tag] is not False:
                b = dict(b)
                b[tag] = Or(b.get(tag, False), h[tag])
            h[tag] = True
        if self.fpindex is not None and rn in ('__asgn_plain', '__asgn_optional'):
            fp = Add(fp, self.fpindex.w(('asg', cname, e._attr_name)))
        return Out(o.c, h, b, fp)

    def _ev_match(self, e, pos, st, inc):
        out = {}
        starts = {}
        for p1, c1 in self.skip_ws(pos, st).items():
            if inc:
                self.addc(starts, p1, c1)
            else:
                for p2, c2 in self.comments(p1, st).items():
                    self.addc(starts, p2, And(c1, c2))
        for p, c in starts.items():
            for (end, k), d in self.match1(e, p).items():
                self.add(out, (end, N_ if e.suppress else k), Out(And(c, d)))
        return out

    def match1(self, m, p):
        """dict (end, kind) -> cond for Match._parse at p"""
        out = {}
        if isinstance(m, EndOfFile):
            if p == self.n:
                out[(p, T_)] = True
            return out
        if isinstance(m, StrMatch):
            s = m.to_match
            if p + len(s) > self.n:
                return out
            cs = []
            for i, ch in enumerate(s):
                if ch not in CHR2CODE:
                    return out
                k = CHR2CODE[ch]
                cs.append(self.inp.inset(p + i, FOLDSET[k] if m.ignore_case else frozenset([k])))
            c = And(*cs)
            if c is not False:
                out[(p + len(s), T_)] = c
            return out
        if isinstance(m, RegExMatch):
            for end, c in self.regex(m).match(p).items():
                self.addc(out, (end, T_ if end > p else N_), c)
            return out
        raise Unsupported('match class %s' % type(m).__name__)

    def _ev(self, e, pos, st, inc):
        out = {}
        pk = (id(e), pos, st, inc)
        if isinstance(e, OrderedChoice):
            st2 = self.st_override(e, st)
            cur = {pos: True}
            for ch in e.nodes:
                nxt = {}
                for p, c in cur.items():
                    res = self.call(pk, ch, p, st2, inc, c)
                    for (end, k), o in res.items():
                        if self.nodeless_ok:
                            self.add(out, (end, k), with_c(o, c))
                        elif k == N_:
                            self.addc(nxt, end, And(c, o.c))
                        else:
                            self.add(out, (end, T_ if k == T_ else X_), with_c(o, c))
                    self.addc(nxt, pos, And(c, Not(self.succ(res))))
                cur = nxt
                if not cur:
                    break
            return out
        if isinstance(e, Sequence):
            st2 = self.st_override(e, st)
            cur = {(pos, False, False): Out(True)}
            for ch in e.nodes:
                nxt = {}
                for (p, aT, aX), o1 in cur.items():
                    for (end, k), o2 in self.call(pk, ch, p, st2, inc, o1.c).items():
                        self.add(nxt, (end, aT or k == T_, aX or k == X_), seq(o1, o2))
                cur = nxt
                if not cur:
                    break
            for (p, aT, aX), o in cur.items():
                self.add(out, (p, T_ if aT else (X_ if aX else N_)), o)
            return out
        if isinstance(e, Optional):
            res = self.call(pk, e.nodes[0], pos, st, inc, True)
            for (end, k), o in res.items():
                # [child]: [None] -> None; [E] / [X] -> truthy but flat-empty
                self.add(out, (end, N_ if k == N_ else (T_ if k == T_ else X_)), o)
            self.add(out, (pos, N_), Out(Not(self.succ(res))))
            return out
        if isinstance(e, (ZeroOrMore, OneOrMore)):
            return self._ev_rep(e, pos, st, inc)
        if isinstance(e, UnorderedGroup):
            return self._ev_unordered(e, pos, st, inc)
        if isinstance(e, PAnd):
            c = True
            for ch in e.nodes:
                c = And(c, self.succ(self.call(pk, ch, pos, st, inc, True)))
            self.add(out, (pos, N_), Out(c))
            return out
        if isinstance(e, PNot):
            c = False
            for ch in e.nodes:
                c = Or(c, Not(self.succ(self.call(pk, ch, pos, st, inc, True))))
            self.add(out, (pos, N_), Out(c))
            return out
        if isinstance(e, Empty):
            return {(pos, N_): Out(True)}
        raise Unsupported('expression class %s' % type(e).__name__)

    def _ev_rep(self, e, pos, st, inc):
        out = {}
        pk = (id(e), pos, st, inc)
        st2 = (st[0], st[1], True) if e.eolterm else st
        one = isinstance(e, OneOrMore)
        rn = e.rule_name or ''
        elemw = 0
        if self.fpindex is not None and rn in ('__asgn_oneormore', '__asgn_zeroormore'):
            elemw = self.fpindex.w(('asg', self.owner.get(id(e)), e._attr_name))
        cur = {(pos, False): Out(True)}     # (position, any T element so far)
        it = 0
        while cur:
            nxt = {}
            for (p, aT), o0 in cur.items():
                kind_now = E_ if it == 0 else (T_ if aT else X_)
                if e.sep is not None and it > 0:
                    sres = self.call(pk, e.sep, p, st2, inc, o0.c)
                    self.add(out, (p, kind_now), with_c(o0, Not(self.succ(sres))))
                    mids = {}
                    for (se, sk), so in sres.items():
                        self.add(mids, se, with_c(o0, so.c))
                else:
                    mids = {p: o0}
                for mp, mo in mids.items():
                    res = self.call(pk, e.nodes[0], mp, st2, inc, mo.c)
                    if not (one and it == 0):
                        self.add(out, (p, kind_now), with_c(mo, Not(self.succ(res))))
                    for (end_, k), d in res.items():
                        if k in (N_, E_) and not (self.nodeless_ok and end_ > mp):
                            # falsy element: loop stops, position stays advanced
                            self.add(out, (end_, kind_now), with_c(mo, d.c))
                        else:
                            if end_ == p:
                                raise Unsupported('non-progressing repetition')
                            o = seq(mo, d)
                            if elemw:
                                o = Out(o.c, o.h, o.b, Add(o.fp, elemw))
                            self.add(nxt, (end_, aT or k == T_), o)
            cur = nxt
            it += 1
            if it > self.n + 2:
                raise Unsupported('repetition does not terminate')
        return out

    def _ev_unordered(self, e, pos, st, inc):
        out = {}
        pk = (id(e), pos, st, inc)
        st2 = (st[0], st[1], True) if e.eolterm else st
        nodes = e.nodes

        def finish(o, p, aT, aX):
            self.add(out, (p, T_ if aT else (X_ if aX else N_)), o)

        states = {(tuple(range(len(nodes))), True, pos, False, False): Out(True)}
        rounds = 0
        while states:
            rounds += 1
            if rounds > len(nodes) + 2:
                raise Unsupported('unordered group does not terminate')
            nxt = {}
            for (rem, first, p0, aT, aX), o in states.items():
                if not rem:
                    finish(o, p0, aT, aX)
                    continue
                if e.sep is not None and not first:
                    sres = self.call(pk, e.sep, p0, st2, inc, o.c)
                    branches = [(end, And(o.c, so.c), False) for (end, k), so in sres.items()]
                    branches.append((p0, And(o.c, Not(self.succ(sres))), True))
                else:
                    branches = [(p0, o.c, False)]
                for ploc, cb, sepfail in branches:
                    if cb is False:
                        continue
                    run = {(ploc, True): cb}
                    for idx in rem:
                        newrun = {}
                        for (cp, mflag), rc in run.items():
                            res = self.call(pk, nodes[idx], cp, st2, inc, rc)
                            for (end, k), ro in res.items():
                                cc = And(rc, ro.c)
                                if cc is False:
                                    continue
                                if k in (T_, X_) or (self.nodeless_ok and end > cp):
                                    if sepfail:
                                        self.addc(newrun, (ploc, False), cc)
                                    else:
                                        no = seq(Out(rc, o.h, o.b, o.fp), ro)
                                        self.add(nxt, (tuple(i for i in rem if i != idx), False,
                                                       end, aT or k == T_, aX or k == X_), no)
                                else:
                                    self.addc(newrun, (end, mflag), cc)
                            self.addc(newrun, (ploc, False), And(rc, Not(self.succ(res))))
                        run = newrun
                    for (cp, mflag), rc in run.items():
                        if mflag:
                            finish(Out(rc, o.h, o.b, o.fp), p0, aT, aX)
            states = nxt
        return out

    # ------------------------------------------------------------ entry points
    def outcomes(self, root, pos=0, st=None):
        return self.ev(root, pos, st or self.st0)

    def accept(self, root):
        return self.succ(self.outcomes(root))

    def accept_attrs(self, root):
        """(acc, dup, fp): acceptance condition, {tag: duplicate-assignment
        condition (implies acc)} and fingerprint term (meaningful under acc)"""
        res = self.outcomes(root)
        acc = self.succ(res)
        dup = {}
        for o in res.values():
            for k, v in o.b.items():
                dup[k] = Or(dup.get(k, False), And(o.c, v))
        fp = 0
        for o in res.values():
            fp = Ite(o.c, o.fp, fp)
        return acc, dup, fp
