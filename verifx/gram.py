"""
Grammar ASTs of the checked textX fragment, their rendering to textX syntax
and the *reference* static facts (rule kinds, attribute multiplicities).

Nodes are tuples:
  ('seq', [e..])  ('alt', [e..])  ('opt', e)
  ('star', e, sep, eol)  ('plus', e, sep, eol)  ('ung', [e..], sep)
  ('and', e)  ('not', e)  ('sup', e)
  ('str', s)  ('re', pattern)  ('ref', rule_name)
  ('asg', attr, op, rhs, sep, eol)   op in = += *= ?= ; rhs: str / re / ref /
                                     ('objref', cls, match_rule)
Rule = (name, params_dict, body);  Grammar = list of rules (first = root).
"""

BASETYPES = ('ID', 'BOOL', 'INT', 'FLOAT', 'STRICTFLOAT', 'STRING', 'NUMBER', 'BASETYPE')

# reference (documented) patterns of the base types: literal copies, not read
# from textx.lang on purpose.
BASE_RE = {
    'ID': r'[^\d\W]\w*\b',
    'BOOL': r'(True|true|False|false|0|1)\b',
    'INT': r'[-+]?[0-9]+',
    'FLOAT': r'[+-]?(\d+(\.\d*)?|\.\d+)([eE][+-]?\d+)?(?<=[\w\.])(?![\w\.])',
    'STRICTFLOAT': r'[+-]?(((\d+\.(\d*)?|\.\d+)([eE][+-]?\d+)?)|((\d+)([eE][+-]?\d+)))'
                   r'(?<=[\w\.])(?![\w\.])',
    'STRING': r'("(\\"|[^"])*")|(\'(\\\'|[^\'])*\')',
}
BASE_ALT = {'NUMBER': ['STRICTFLOAT', 'INT'],
            'BASETYPE': ['NUMBER', 'FLOAT', 'BOOL', 'ID', 'STRING']}


# ------------------------------------------------------------ constructors
def S(*es):
    return ('seq', list(es))


def A(*es):
    return ('alt', list(es))


def Opt(e):
    return ('opt', e)


def Star(e, sep=None, eol=False):
    return ('star', e, sep, eol)


def Plus(e, sep=None, eol=False):
    return ('plus', e, sep, eol)


def Ung(es, sep=None):
    return ('ung', list(es), sep)


def And_(e):
    return ('and', e)


def Not_(e):
    return ('not', e)


def Sup(e):
    return ('sup', e)


def Str(s, spelling=None):
    """string match; `spelling` = the source text between the quotes when it
    differs from the default rendering (e.g. written with \\x escapes)"""
    return ('str', s) if spelling is None else ('str', s, spelling)


def Re(p):
    return ('re', p)


def Ref(n):
    return ('ref', n)


def Asg(attr, op, rhs, sep=None, eol=False):
    return ('asg', attr, op, rhs, sep, eol)


def ObjRef(cls, rule='ID'):
    return ('objref', cls, rule)


def Rule(name, body, **params):
    return (name, params, body)


# ------------------------------------------------------------ rendering
def _q(s):
    return "'" + s.replace('\\', '\\\\').replace("'", "\\'").replace('\n', '\\n').replace(
        '\t', '\\t').replace('\r', '\\r') + "'"


def _mods(sep, eol):
    m = []
    if sep is not None:
        m.append(render(sep))
    if eol:
        m.append('eolterm')
    return '[' + ' '.join(m) + ']' if m else ''


def atom(e):
    """render e so that it can take a repeat operator / predicate / suppress"""
    k = e[0]
    if k in ('str', 're', 'ref'):
        return render(e)
    return '(' + render(e) + ')'


def render(e):
    k = e[0]
    if k == 'seq':
        return ' '.join(render(x) if x[0] not in ('alt', 'seq') else '(' + render(x) + ')'
                        for x in e[1])
    if k == 'alt':
        return ' | '.join(render(x) if x[0] != 'alt' else '(' + render(x) + ')' for x in e[1])
    if k == 'opt':
        return atom(e[1]) + '?'
    if k == 'star':
        return atom(e[1]) + '*' + _mods(e[2], e[3])
    if k == 'plus':
        return atom(e[1]) + '+' + _mods(e[2], e[3])
    if k == 'ung':
        return '(' + ' '.join(render(x) if x[0] not in ('alt', 'seq') else '(' + render(x) + ')'
                              for x in e[1]) + ')#' + _mods(e[2], False)
    if k == 'and':
        return '&' + atom(e[1])
    if k == 'not':
        return '!' + atom(e[1])
    if k == 'sup':
        inner = e[1]
        if inner[0] in ('opt', 'star', 'plus', 'ung'):
            return render(inner) + '-'
        return atom(inner) + '-'
    if k == 'str':
        return "'" + e[2] + "'" if len(e) > 2 else _q(e[1])
    if k == 're':
        return '/' + e[1].replace('/', '\\/') + '/'
    if k == 'ref':
        return e[1]
    if k == 'asg':
        _, attr, op, rhs, sep, eol = e
        if rhs[0] == 'objref':
            r = '[' + rhs[1] + (':' + rhs[2] if rhs[2] != 'ID' else '') + ']'
        else:
            r = render(rhs)
        return attr + op + r + _mods(sep, eol)
    raise ValueError(k)


def render_grammar(rules):
    out = []
    for name, params, body in rules:
        ps = []
        for k, v in params.items():
            if v is True:
                ps.append(k)
            elif v is False:
                ps.append('no' + k)
            else:
                ps.append('%s=%s' % (k, _q(v)))
        out.append('%s%s: %s;' % (name, '[' + ', '.join(ps) + ']' if ps else '', render(body)))
    return '\n'.join(out)


# ------------------------------------------------------------ static facts
def subexprs(e):
    yield e
    k = e[0]
    if k in ('seq', 'alt'):
        for x in e[1]:
            yield from subexprs(x)
    elif k in ('opt', 'and', 'not', 'sup'):
        yield from subexprs(e[1])
    elif k in ('star', 'plus'):
        yield from subexprs(e[1])
        if e[2] is not None:
            yield from subexprs(e[2])
    elif k == 'ung':
        for x in e[1]:
            yield from subexprs(x)
        if e[2] is not None:
            yield from subexprs(e[2])
    elif k == 'asg':
        if e[3][0] != 'objref':
            yield from subexprs(e[3])
        if e[4] is not None:
            yield from subexprs(e[4])


def rule_kinds(rules):
    """reference rule kinds: common = has assignments; abstract = no
    assignments and references (directly, outside assignments) at least one
    rule that is not a match rule; match otherwise.  Least fixpoint starting
    from 'match' (a cycle of pure references stays match)."""
    names = [r[0] for r in rules]
    bodies = {r[0]: r[2] for r in rules}
    kind = {}
    for n in names:
        kind[n] = 'common' if any(x[0] == 'asg' for x in subexprs(bodies[n])) else 'match'
    changed = True
    while changed:
        changed = False
        for n in names:
            if kind[n] != 'match':
                continue
            for x in subexprs(bodies[n]):
                if x[0] == 'ref' and x[1] in kind and kind[x[1]] != 'match':
                    kind[n] = 'abstract'
                    changed = True
                    break
    return kind


INF = 99


def max_assign(e, attr):
    """upper bound of the number of values one object can collect for attr by
    the assignments inside e (syntactic; INF = unbounded)"""
    k = e[0]
    if k == 'seq':
        return min(INF, sum(max_assign(x, attr) for x in e[1]))
    if k == 'alt':
        return max(max_assign(x, attr) for x in e[1])
    if k in ('opt', 'sup'):
        return max_assign(e[1], attr)
    if k in ('and', 'not'):
        return 0
    if k in ('star', 'plus'):
        return INF if max_assign(e[1], attr) > 0 else 0
    if k == 'ung':
        return min(INF, sum(max_assign(x, attr) for x in e[1]))
    if k == 'asg':
        if e[1] != attr:
            return 0
        return INF if e[2] in ('+=', '*=') else 1
    return 0


def attrs_of(body):
    out = []
    for x in subexprs(body):
        if x[0] == 'asg' and x[1] not in out:
            out.append(x[1])
    return out


def ref_multiplicity(body, attr):
    """'many' iff one object can (syntactically) collect more than one value"""
    return 'many' if max_assign(body, attr) > 1 else 'one'


def uses_list_op(body, attr):
    return any(x[0] == 'asg' and x[1] == attr and x[2] in ('+=', '*=') for x in subexprs(body))
