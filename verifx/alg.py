"""
Boolean / integer term algebra shared by all symbolic evaluators.

Terms are either plain Python values (bool / int — "concrete") or z3
expressions.  Every combinator constant-folds, so an evaluator run on a fully
concrete input never touches z3 (this is the "concrete mode" used to validate
the evaluators against the real code), and templates that mix concrete and
free characters only build formulas for the free part.
"""
import z3

BoolRef = z3.BoolRef


def is_c(x):
    return x is True or x is False


def And(*a):
    out = []
    for x in a:
        if x is True:
            continue
        if x is False:
            return False
        out.append(x)
    if not out:
        return True
    if len(out) == 1:
        return out[0]
    return z3.And(*out)


def Or(*a):
    out = []
    for x in a:
        if x is False:
            continue
        if x is True:
            return True
        out.append(x)
    if not out:
        return False
    if len(out) == 1:
        return out[0]
    return z3.Or(*out)


def Not(a):
    if a is True:
        return False
    if a is False:
        return True
    return z3.Not(a)


def Xor(a, b):
    if is_c(a):
        return Not(b) if a else b
    if is_c(b):
        return Not(a) if b else a
    return z3.Xor(a, b)


def Implies(a, b):
    return Or(Not(a), b)


def Iff(a, b):
    return Not(Xor(a, b))


def _same(a, b):
    if a is b:
        return True
    ca = isinstance(a, (bool, int))
    cb = isinstance(b, (bool, int))
    if ca and cb:
        return a == b and type(a) is type(b)
    if ca or cb:
        return False
    return a.eq(b)


def Ite(c, a, b):
    """if c then a else b (a, b both bool-terms or both int-terms)."""
    if c is True:
        return a
    if c is False:
        return b
    if _same(a, b):
        return a
    if isinstance(a, bool) or isinstance(b, bool) or isinstance(a, BoolRef) \
            or isinstance(b, BoolRef):
        # boolean ite, folded to and/or where possible
        if a is True:
            return Or(c, b)
        if a is False:
            return And(Not(c), b)
        if b is True:
            return Or(Not(c), a)
        if b is False:
            return And(c, a)
        return z3.If(c, a, b)
    return z3.If(c, lift_int(a), lift_int(b))


def lift_int(a):
    if isinstance(a, int):
        return z3.IntVal(a)
    return a


def lift_bool(a):
    if a is True or a is False:
        return z3.BoolVal(a)
    return a


def Add(a, b):
    if isinstance(a, int) and isinstance(b, int):
        return a + b
    if isinstance(a, int) and a == 0:
        return b
    if isinstance(b, int) and b == 0:
        return a
    return lift_int(a) + lift_int(b)


def Eq(a, b):
    """equality of two int terms"""
    if isinstance(a, int) and isinstance(b, int):
        return a == b
    return lift_int(a) == lift_int(b)


def is_false(x):
    return x is False


def is_true(x):
    return x is True


def check(solver):
    """str verdict of a z3 solver ('sat' / 'unsat' / 'unknown')."""
    return str(solver.check())
