"""
Comparison of a real textX model with the reference model computed by refpeg
(concrete mode): classes, attribute values, defaults, containment and parent
links, spans.
"""
from . import gram
from .refpeg import Obj, XRef

DEFAULTS = {'ID': '', 'INT': 0, 'FLOAT': 0.0, 'STRICTFLOAT': 0.0, 'BOOL': False, 'STRING': '',
            'NUMBER': 0.0, 'BASETYPE': ''}


def attr_type(body, attr):
    """reference attribute type name: the common right-hand side type of all
    assignments to attr, OBJECT when they differ"""
    types = set()
    for x in gram.subexprs(body):
        if x[0] == 'asg' and x[1] == attr:
            rhs = x[3]
            if x[2] == '?=':
                types.add('BOOL')
            elif rhs[0] in ('str', 're'):
                types.add('STRING')
            elif rhs[0] == 'ref':
                types.add(rhs[1])
            else:
                types.add(rhs[1])
    return types.pop() if len(types) == 1 else 'OBJECT'


def default_for(rules, rule_name, attr, auto_init):
    body = rules[rule_name][2]
    if gram.ref_multiplicity(body, attr) == 'many':
        return []
    ops = {x[2] for x in gram.subexprs(body) if x[0] == 'asg' and x[1] == attr}
    t = attr_type(body, attr)
    if ops == {'?='}:
        return False
    if t in DEFAULTS and auto_init:
        return DEFAULTS[t]
    return None


def expected(refval, rules, auto_init):
    """reference value -> canonical structure with defaults filled in"""
    if isinstance(refval, Obj):
        name = refval['_cls']
        out = {'_cls': name}
        for a in gram.attrs_of(rules[name][2]):
            if a in refval:
                v = refval[a]
                if isinstance(v, list):
                    out[a] = [expected(x, rules, auto_init) for x in v]
                else:
                    out[a] = expected(v, rules, auto_init)
            else:
                out[a] = default_for(rules, name, a, auto_init)
        return out
    if isinstance(refval, XRef):
        return {'_xref': refval.name}
    return refval


def canon_real(v, depth=0):
    cls = v.__class__
    if hasattr(cls, '_tx_attrs') and not isinstance(v, (str, int, float, bool)):
        out = {'_cls': cls.__name__}
        for an, a in cls._tx_attrs.items():
            x = getattr(v, an, '<missing>')
            if a.ref and not a.cont:
                if isinstance(x, list):
                    out[an] = [{'_xref': getattr(t, 'name', repr(t))} for t in x]
                elif x is None:
                    out[an] = None
                else:
                    out[an] = {'_xref': getattr(x, 'name', repr(x))}
            elif isinstance(x, list):
                out[an] = [canon_real(y, depth + 1) for y in x]
            else:
                out[an] = canon_real(x, depth + 1)
        return out
    return v


def same(a, b):
    """deep equality that distinguishes 0 / 0.0 / False and '' / None"""
    if isinstance(a, dict) and isinstance(b, dict):
        return set(a) == set(b) and all(same(a[k], b[k]) for k in a)
    if isinstance(a, list) and isinstance(b, list):
        return len(a) == len(b) and all(same(x, y) for x, y in zip(a, b))
    if type(a) is not type(b):
        return False
    return a == b


def first_diff(a, b, path='model'):
    if isinstance(a, dict) and isinstance(b, dict):
        for k in sorted(set(a) | set(b)):
            if k not in a or k not in b:
                return '%s.%s: %r vs %r' % (path, k, a.get(k, '<absent>'), b.get(k, '<absent>'))
            d = first_diff(a[k], b[k], '%s.%s' % (path, k))
            if d:
                return d
        return None
    if isinstance(a, list) and isinstance(b, list):
        if len(a) != len(b):
            return '%s: %d vs %d elements (%r vs %r)' % (path, len(a), len(b), a, b)
        for i, (x, y) in enumerate(zip(a, b)):
            d = first_diff(x, y, '%s[%d]' % (path, i))
            if d:
                return d
        return None
    if type(a) is not type(b) or a != b:
        return '%s: expected %r (%s), real %r (%s)' % (path, a, type(a).__name__, b,
                                                      type(b).__name__)
    return None


def check_parents(v, parent=None, root=True, problems=None):
    """containment facts on a real model: each contained object's parent is
    its container; the root has no parent"""
    problems = [] if problems is None else problems
    cls = v.__class__
    if not hasattr(cls, '_tx_attrs') or isinstance(v, (str, int, float, bool)):
        return problems
    if root:
        if hasattr(v, 'parent'):
            problems.append('root has a parent')
    elif getattr(v, 'parent', None) is not parent:
        problems.append('%s.parent is not its container' % cls.__name__)
    for an, a in cls._tx_attrs.items():
        if a.cont:
            x = getattr(v, an, None)
            for y in (x if isinstance(x, list) else [x]):
                if y is not None:
                    check_parents(y, v, False, problems)
    return problems
