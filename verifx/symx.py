"""
symx — a small path-forking symbolic executor for *real* textX callables.

The real Python code is run on proxy values; every branch on a symbolic value
(`bool(SymBool)`) asks z3 which sides are feasible under the current path
condition, takes one and queues the other.  Paths are re-executed from scratch
with the recorded decision prefix, so generators, closures and exceptions in
the real code need no special handling.  At the end of a path the property is
a validity query under the path condition (`Ctx.must`).

Proxies implement only what the targeted code needs; anything else raises
`Unsupported`, which makes the obligation inconclusive — never a verdict.
"""
import time

import z3

from .alg import And, Or, Not, lift_bool
from .symtext import CHR2CODE, code2chr, CODESET


class Abort(BaseException):
    """infeasible path (path steering; BaseException on purpose)"""


class Unsupported(Exception):
    pass


class Ctx:
    cur = None

    def __init__(self, timeout_ms=20000, max_paths=20000, free_selectors=False):
        # free_selectors: branches on plain boolean constants are independent
        # selectors (never constrained by assumptions): both sides are feasible
        # by construction, so no query is issued and the decision is kept
        # outside the solver (finite enumeration steered by the exploration)
        self.free_selectors = free_selectors
        self.selector_forks = 0
        self.solver = z3.Solver()
        self.solver.set('timeout', timeout_ms)
        self.todo = [[]]
        self.paths = 0
        self.queries = {'sat': 0, 'unsat': 0, 'unknown': 0}
        self.secs = 0.0
        self.max_paths = max_paths
        self.truncated = False
        self.unknown_branches = 0

    def _check(self):
        t0 = time.time()
        r = str(self.solver.check())
        self.secs += time.time() - t0
        r = r if r in ('sat', 'unsat') else 'unknown'
        self.queries[r] += 1
        return r

    def feasible(self, cond):
        self.solver.push()
        self.solver.add(lift_bool(cond))
        r = self._check()
        self.solver.pop()
        if r == 'unknown':
            self.unknown_branches += 1
        return r != 'unsat'

    def branch(self, cond):
        if cond is True or cond is False:
            return cond
        i = len(self.taken)
        if self.free_selectors and z3.is_const(cond) and \
                cond.decl().kind() == z3.Z3_OP_UNINTERPRETED:
            key = cond.decl().name()
            if key in self.decided:
                return self.decided[key]
            if i < len(self.prefix):
                d = self.prefix[i]
            else:
                self.todo.append(self.taken + [False])
                self.selector_forks += 1
                d = True
            self.taken.append(d)
            self.decided[key] = d
            return d
        if i < len(self.prefix):
            d = self.prefix[i]
        else:
            ft = self.feasible(cond)
            ff = self.feasible(Not(cond))
            if ft and ff:
                self.todo.append(self.taken + [False])
                d = True
            elif ft:
                d = True
            elif ff:
                d = False
            else:
                raise Abort()
        self.taken.append(d)
        self.solver.add(lift_bool(cond if d else Not(cond)))
        return d

    def assume(self, cond):
        if cond is False:
            raise Abort()
        if cond is not True:
            self.solver.add(lift_bool(cond))

    def explore(self, fn, assumptions=()):
        """run fn(ctx) on every feasible path; returns the list of results"""
        results = []
        while self.todo:
            if self.paths >= self.max_paths:
                self.truncated = True
                break
            self.prefix = self.todo.pop()
            self.taken = []
            self.decided = {}
            self.solver.push()
            for a in assumptions:
                self.solver.add(lift_bool(a))
            old = Ctx.cur
            Ctx.cur = self
            try:
                results.append(fn(self))
                self.paths += 1
            except Abort:
                pass
            finally:
                Ctx.cur = old
                self.solver.pop()
        return results

    def must(self, prop):
        """is prop valid under the path condition? -> ('unsat', None) if so,
        ('sat', model) with a counterexample, or ('unknown', None)"""
        if prop is True:
            return 'unsat', None
        self.solver.push()
        self.solver.add(lift_bool(Not(prop)))
        r = self._check()
        m = self.solver.model() if r == 'sat' else None
        self.solver.pop()
        return r, m

    def model(self):
        r = self._check()
        return self.solver.model() if r == 'sat' else None

    def unique_value(self, term):
        """the single value term can take under the path condition, or None"""
        if self._check() != 'sat':
            return None
        v = self.solver.model().eval(term, model_completion=True)
        self.solver.push()
        self.solver.add(term != v)
        r = self._check()
        self.solver.pop()
        return v if r == 'unsat' else None


def cur():
    if Ctx.cur is None:
        raise Unsupported('symbolic value used outside an exploration')
    return Ctx.cur


# ------------------------------------------------------------------ proxies
class SymBool:
    def __init__(self, t):
        self.t = t

    def __bool__(self):
        if self.t is True or self.t is False:
            return self.t
        return cur().branch(self.t)

    def __and__(self, o):
        return SymBool(And(self.t, _b(o)))

    def __or__(self, o):
        return SymBool(Or(self.t, _b(o)))

    def __invert__(self):
        return SymBool(Not(self.t))

    def __eq__(self, o):
        if isinstance(o, (bool, SymBool)):
            return SymBool(Not(z3.Xor(lift_bool(self.t), lift_bool(_b(o)))))
        return False

    def __hash__(self):
        raise Unsupported('hash of a symbolic bool')

    def __repr__(self):
        return 'SymBool(%s)' % (self.t,)


def _b(o):
    return o.t if isinstance(o, SymBool) else bool(o)


class SymInt:
    """integer term; arithmetic and comparisons stay symbolic"""

    def __init__(self, t):
        self.t = t if not isinstance(t, int) else z3.IntVal(t)

    @staticmethod
    def _t(o):
        if isinstance(o, SymInt):
            return o.t
        if isinstance(o, bool):
            return z3.IntVal(int(o))
        if isinstance(o, int):
            return z3.IntVal(o)
        return None

    def _bin(self, o, f):
        t = self._t(o)
        if t is None:
            return NotImplemented
        return SymInt(f(self.t, t))

    def __add__(self, o):
        return self._bin(o, lambda a, b: a + b)

    __radd__ = __add__

    def __sub__(self, o):
        return self._bin(o, lambda a, b: a - b)

    def __rsub__(self, o):
        return self._bin(o, lambda a, b: b - a)

    def __mul__(self, o):
        return self._bin(o, lambda a, b: a * b)

    __rmul__ = __mul__

    def __neg__(self):
        return SymInt(-self.t)

    def _cmp(self, o, f):
        t = self._t(o)
        if t is None:
            return NotImplemented
        return SymBool(z3.simplify(f(self.t, t)) if False else f(self.t, t))

    def __lt__(self, o):
        return self._cmp(o, lambda a, b: a < b)

    def __le__(self, o):
        return self._cmp(o, lambda a, b: a <= b)

    def __gt__(self, o):
        return self._cmp(o, lambda a, b: a > b)

    def __ge__(self, o):
        return self._cmp(o, lambda a, b: a >= b)

    def __eq__(self, o):
        t = self._t(o)
        if t is None:
            return False
        return SymBool(self.t == t)

    def __ne__(self, o):
        t = self._t(o)
        if t is None:
            return True
        return SymBool(self.t != t)

    def __hash__(self):
        raise Unsupported('hash of a symbolic int')

    def __index__(self):
        v = cur().unique_value(self.t)
        if v is None:
            raise Unsupported('symbolic int used as an index')
        return v.as_long()

    __int__ = __index__

    def __repr__(self):
        return 'SymInt(%s)' % (self.t,)


NameSort = z3.DeclareSort('Name')


class SymName:
    """opaque non-empty name atom: only (in)equality is observable"""

    def __init__(self, label, term=None):
        self.label = label
        self.t = term if term is not None else z3.Const(label, NameSort)

    def __eq__(self, o):
        if isinstance(o, SymName):
            if o.t.eq(self.t):
                return True
            return SymBool(self.t == o.t)
        return False

    def __ne__(self, o):
        if isinstance(o, SymName):
            if o.t.eq(self.t):
                return False
            return SymBool(self.t != o.t)
        return True

    def __hash__(self):
        # every symbolic name hashes alike: dict / set lookups then fall back
        # to ==, i.e. to a z3-decided fork (a collision is always sound)
        return 0

    def __len__(self):
        return 1

    def __bool__(self):
        return True

    def __repr__(self):
        return '<%s>' % self.label

    def __str__(self):
        return '<%s>' % self.label

    def __format__(self, spec):
        return '<%s>' % self.label


class SymFQN:
    """a dotted name whose parts are SymNames"""

    def __init__(self, parts):
        self.parts = list(parts)

    def split(self, sep=None, maxsplit=-1):
        return list(self.parts)

    def __repr__(self):
        return '.'.join(map(repr, self.parts))

    __str__ = __repr__

    def __format__(self, spec):
        return repr(self)

    def __hash__(self):
        # as for SymName: one hash for all, lookups fall back to ==
        return 0

    def __eq__(self, o):
        if isinstance(o, SymName):
            o = SymFQN([o])
        if not isinstance(o, SymFQN) or len(o.parts) != len(self.parts):
            return False
        for a, b in zip(self.parts, o.parts):
            if not (a == b):        # z3-decided fork per part
                return False
        return True

    def __ne__(self, o):
        return not self.__eq__(o)

    def __contains__(self, sub):
        if sub == '.':
            return len(self.parts) > 1
        raise Unsupported('substring test on a symbolic dotted name')

    def __len__(self):
        return 2 * len(self.parts) - 1

    def __bool__(self):
        return True


def _codes(s):
    out = []
    for ch in s:
        if ch not in CHR2CODE:
            raise Unsupported('character outside the alphabet: %r' % ch)
        out.append(CHR2CODE[ch])
    return out


class SymStr:
    """string of concrete length; chars are int codes or z3 BitVec(8)"""

    def __init__(self, chars):
        self.chars = list(chars)

    @classmethod
    def fresh(cls, name, n):
        return cls([z3.BitVec('%s%d' % (name, i), 8) for i in range(n)])

    @classmethod
    def of(cls, s):
        if isinstance(s, SymStr):
            return s
        return cls(_codes(s))

    def domain(self, codes=CODESET):
        out = []
        cs = sorted(codes)
        for c in self.chars:
            if not isinstance(c, int):
                out.append(z3.Or(*[c == k for k in cs]))
        return out

    @staticmethod
    def ceq(a, b):
        if isinstance(a, int) and isinstance(b, int):
            return a == b
        return a == b

    def __len__(self):
        return len(self.chars)

    def __bool__(self):
        return len(self.chars) > 0

    def __getitem__(self, i):
        if isinstance(i, slice):
            return SymStr(self.chars[i])
        if isinstance(i, SymInt):
            i = i.__index__()
        return SymStr([self.chars[i]])

    def __iter__(self):
        for c in self.chars:
            yield SymStr([c])

    def __add__(self, o):
        if isinstance(o, (str, SymStr)):
            return SymStr(self.chars + SymStr.of(o).chars)
        return NotImplemented

    def __radd__(self, o):
        if isinstance(o, str):
            return SymStr(SymStr.of(o).chars + self.chars)
        return NotImplemented

    def eq_term(self, o):
        if not isinstance(o, (str, SymStr)):
            return False
        o = SymStr.of(o)
        if len(o.chars) != len(self.chars):
            return False
        return And(*[self.ceq(a, b) for a, b in zip(self.chars, o.chars)])

    def __eq__(self, o):
        t = self.eq_term(o)
        return t if isinstance(t, bool) else SymBool(t)

    def __ne__(self, o):
        t = Not(self.eq_term(o))
        return t if isinstance(t, bool) else SymBool(t)

    def __hash__(self):
        raise Unsupported('hash of a symbolic string')

    def _match_at(self, i, pat):
        if i + len(pat) > len(self.chars):
            return False
        return And(*[self.ceq(self.chars[i + k], pat[k]) for k in range(len(pat))])

    def startswith(self, p):
        return bool(SymBool(self._match_at(0, _codes(p))))

    def endswith(self, p):
        pc = _codes(p)
        if len(pc) > len(self.chars):
            return False
        return bool(SymBool(self._match_at(len(self.chars) - len(pc), pc)))

    def __contains__(self, sub):
        if isinstance(sub, SymStr):
            pc = sub.chars
        else:
            pc = _codes(sub)
        return bool(SymBool(Or(*[self._match_at(i, pc) for i in range(len(self.chars) - len(pc) + 1)])))

    def replace(self, old, new, count=-1):
        if isinstance(old, SymStr) or isinstance(new, SymStr) or count != -1:
            raise Unsupported('replace with symbolic arguments')
        oc, nc = _codes(old), _codes(new)
        if not oc:
            raise Unsupported('replace of the empty string')
        out = []
        i = 0
        n = len(self.chars)
        while i < n:
            if bool(SymBool(self._match_at(i, oc))):
                out.extend(nc)
                i += len(oc)
            else:
                out.append(self.chars[i])
                i += 1
        return SymStr(out)

    def find(self, sub, start=0):
        pc = _codes(sub)
        for i in range(start, len(self.chars) - len(pc) + 1):
            if bool(SymBool(self._match_at(i, pc))):
                return i
        return -1

    def index(self, sub, start=0):
        r = self.find(sub, start)
        if r < 0:
            raise ValueError('substring not found')
        return r

    def count(self, sub):
        pc = _codes(sub)
        i = 0
        k = 0
        while i + len(pc) <= len(self.chars):
            if bool(SymBool(self._match_at(i, pc))):
                k += 1
                i += len(pc)
            else:
                i += 1
        return k

    def lower(self):
        raise Unsupported('lower() of a symbolic string')

    def concretize(self):
        c = cur()
        out = []
        for ch in self.chars:
            if isinstance(ch, int):
                out.append(code2chr(ch))
            else:
                v = c.unique_value(ch)
                if v is None:
                    raise Unsupported('symbolic string needed as a real str')
                out.append(code2chr(v.as_long()))
        return ''.join(out)

    def __str__(self):
        return self.concretize()

    def decode(self, model):
        out = []
        for ch in self.chars:
            if isinstance(ch, int):
                out.append(code2chr(ch))
            else:
                out.append(code2chr(model.eval(ch, model_completion=True).as_long()))
        return ''.join(out)

    def __repr__(self):
        return 'SymStr(%s)' % ''.join(code2chr(c) if isinstance(c, int) else '?' for c in self.chars)


# ------------------------------------------------------------------ str-compatible proxy
_MARKERS = {}


class SymText(str):
    """A symbolic string that *is* a `str` (for code that needs real str
    instances: dict keys, **kwargs, isinstance checks, f-strings).  The
    underlying str content is a unique marker; every operation the targeted
    code uses is overridden and delegates to a SymStr.  Operations that are
    not overridden would silently act on the marker, so they raise instead."""

    def __new__(cls, sym):
        marker = '\x00S%d\x00' % (len(_MARKERS) + 1)
        self = str.__new__(cls, marker)
        self.sym = sym if isinstance(sym, SymStr) else SymStr.of(sym)
        self.marker = marker
        _MARKERS[marker] = self
        return self

    @staticmethod
    def wrap(v):
        if isinstance(v, SymStr):
            if all(isinstance(c, int) for c in v.chars):
                return ''.join(code2chr(c) for c in v.chars)
            return SymText(v)
        return v

    @staticmethod
    def unmark(s):
        """the SymText a marker string stands for (or the string itself)"""
        return _MARKERS.get(s, s)

    def _o(self, o):
        return o.sym if isinstance(o, SymText) else o

    def __len__(self):
        return len(self.sym)

    def __bool__(self):
        return len(self.sym) > 0

    def __getitem__(self, i):
        return SymText.wrap(self.sym[i])

    def __iter__(self):
        for c in self.sym:
            yield SymText.wrap(c)

    def __add__(self, o):
        return SymText.wrap(self.sym + self._o(o))

    def __radd__(self, o):
        return SymText.wrap(SymStr.of(self._o(o)) + self.sym)

    def __eq__(self, o):
        if not isinstance(o, str):
            return False
        return bool(self.sym == self._o(o))

    def __ne__(self, o):
        return not self.__eq__(o)

    def __hash__(self):
        return hash(self.concretize_fork())

    def __contains__(self, sub):
        return self._o(sub) in self.sym

    def startswith(self, p, *a):
        if a or not isinstance(p, str) or isinstance(p, SymText):
            raise Unsupported('startswith variant')
        return self.sym.startswith(p)

    def endswith(self, p, *a):
        if a or not isinstance(p, str) or isinstance(p, SymText):
            raise Unsupported('endswith variant')
        return self.sym.endswith(p)

    def replace(self, old, new, count=-1):
        return SymText.wrap(self.sym.replace(old, new, count))

    def strip(self, chars=None):
        if chars is None:
            chars = ' \t\n\r'
        cs = _codes(chars)
        ch = list(self.sym.chars)

        def isin(c):
            return Or(*[SymStr.ceq(c, k) for k in cs])
        while ch and bool(SymBool(isin(ch[0]))):
            ch.pop(0)
        while ch and bool(SymBool(isin(ch[-1]))):
            ch.pop()
        return SymText.wrap(SymStr(ch))

    def find(self, sub, start=0):
        return self.sym.find(sub, start)

    def index(self, sub, start=0):
        return self.sym.index(sub, start)

    def count(self, sub):
        return self.sym.count(sub)

    def concretize_fork(self, domain=None):
        """pin every symbolic character by forking over the feasible values"""
        c = cur()
        out = []
        for chv in self.sym.chars:
            if isinstance(chv, int):
                out.append(code2chr(chv))
                continue
            u = c.unique_value(chv)
            if u is not None:
                out.append(code2chr(u.as_long()))
                continue
            dom = domain or getattr(c, 'char_domain', None) or sorted(CODESET)
            for k in dom:
                if c.branch(chv == k):
                    out.append(code2chr(k))
                    break
            else:
                raise Abort()
        return ''.join(out)

    def concretize(self):
        return self.sym.concretize()

    def __str__(self):
        return self

    def __repr__(self):
        return repr(self.sym)

    def __format__(self, spec):
        if spec:
            raise Unsupported('format spec on a symbolic string')
        return self.marker

    def decode(self, model):
        return self.sym.decode(model)


def _unsupported(name):
    def f(self, *a, **k):
        raise Unsupported('str.%s on a symbolic string' % name)
    return f


for _n in ('lower', 'upper', 'split', 'rsplit', 'splitlines', 'join', 'partition', 'rpartition',
           'lstrip', 'rstrip', 'isdigit', 'isalpha', 'isalnum', 'isidentifier', 'isspace', 'title',
           'capitalize', 'casefold', 'center', 'ljust', 'rjust', 'zfill', 'encode', 'format',
           'translate', 'expandtabs', 'swapcase', 'removeprefix', 'removesuffix', '__mod__',
           '__mul__', '__rmul__', '__lt__', '__le__', '__gt__', '__ge__'):
    setattr(SymText, _n, _unsupported(_n))
