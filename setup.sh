#!/bin/sh
# Build the overlay venv used by every check (offline; idempotent).
set -e
cd "$(dirname "$0")"
if [ -x .venv/bin/python ] && .venv/bin/python -c "import z3, textx, arpeggio" 2>/dev/null; then
  exit 0
fi
rm -rf .venv
/venv/bin/python -m venv .venv
SP=$(.venv/bin/python -c "import sysconfig; print(sysconfig.get_paths()['purelib'])")
printf "import site; site.addsitedir('/venv/lib/python3.12/site-packages')\n" > "$SP/overlay.pth"
PIP_NO_INDEX=1 .venv/bin/pip install -q --no-index --find-links /opt/veriftools/wheels z3-solver >/dev/null
.venv/bin/python -c "import z3, textx, arpeggio; print('verif venv ok: z3', z3.get_version_string(), 'textx from', textx.__file__)"
