#!/usr/bin/env python3
"""prints the prompt for a mutation-seeding sub-agent: agent_prompt.py <PROP> <name> [hint]"""
import json, sys
pid, name = sys.argv[1], sys.argv[2]
hint = sys.argv[3] if len(sys.argv) > 3 else ''
p = json.load(open('/tmp/seed/props.json'))[pid]
print(f"""You are helping to evaluate a verification effort for the open-source Python project textX (a meta-language that compiles Xtext-like grammars into Arpeggio PEG parsers plus dynamic metamodel classes, then builds linked object models with scoping). You have your own scratch git worktree of the project at /tmp/wt/{name}. Work ONLY there and in /tmp/seed/{name}. Never modify /repo, and do not read or use anything under /verif.

PROPERTY {pid} — {p['title']}
{p['statement']}
(Quantified over: {p['quantifier']})

TASK: produce ONE realistic change to the textX source under /tmp/wt/{name}/textx (the kind of bug a developer could plausibly introduce: refactoring slip, off-by-one, wrong condition, lost flag, swapped order, stale cache, missing cleanup, an 'optimisation' ...) that BREAKS this property while
 (a) the package still imports and
 (b) the existing test suite still passes exactly as before.
The change must need something specific to manifest — a particular unusual input, a multi-step sequence of operations, a particular schedule / fault point, an unusual configuration, or two cooperating sites that each look fine alone — NOT something ordinary use would expose at once. Keep it small (about 1-15 changed lines), in the files most related to the property. {hint}

Running the tests: `cd /tmp/wt/{name} && PYTHONPATH=/tmp/wt/{name} /venv/bin/python -m pytest -q -p no:cacheprovider --timeout=900 --continue-on-collection-errors -rf 2>&1 | tail -40`. On the unmodified tree exactly 313 tests pass and 27 fail (the failing ones are in tests/functional/registration/ and tests/functional/subcommands/, because helper projects are not installed in this sandbox) — that is the baseline. Your change must not alter the set of passing tests. (`import textx` picks up the tree given in PYTHONPATH.)

DELIVER in /tmp/seed/{name}/ :
 - patch.diff : output of `git -C /tmp/wt/{name} diff`
 - demo.py : a standalone script run as `PYTHONPATH=<tree> /venv/bin/python demo.py` that exits 0 on the unmodified tree (use PYTHONPATH=/repo, read-only, for that) and exits 1, printing what went wrong, with your change applied (PYTHONPATH=/tmp/wt/{name}); it must demonstrate a violation of the property through textX's public API (not by inspecting the source).
 - meta.json with keys: property, summary (what you changed and why it breaks the property), needs (what specific condition is needed for it to manifest), files (list of changed files), tests_run (what you ran and the outcome).
Verify all of it yourself: demo exits 0 on /repo and 1 on your tree; the failing-test set is the same 27 as the baseline. Do not commit anything. NEVER use `git stash` (the stash is shared with other people's worktrees of the same repository and they are working in parallel): to get a baseline, save `git diff > /tmp/seed/{name}/patch.diff`, run `git checkout -- .`, test, then `git apply /tmp/seed/{name}/patch.diff` again — or simply use PYTHONPATH=/repo for the unmodified tree. Your final answer: a 5-line summary.""")
