#!/usr/bin/env python3
"""Regenerates /verif/MANIFEST.json from the table below (kept next to the code so
the claimed level / technique of every check is edited in one place)."""
import json, os
ROOT = os.path.dirname(os.path.dirname(os.path.abspath(__file__)))
ALL = ['C%02d' % i for i in range(1, 35)]

TRUST = ("z3; CPython 3.12 (re, str, int); Arpeggio 2.0.3 as modelled by sympeg (differentially "
         "validated against the real parser on every run); the finite alphabet (103 symbols); "
         "bounds as written in the evidence file")

CHECKS = {
 'C24': dict(
   category='model_checking', engine='sympeg',
   technique='SMT (z3) equivalence query over two live parser models encoded by symbolic evaluation (sympeg) over a bounded symbolic text; counterexamples replayed on the real parsers',
   text=("Bounded solver verdict: for each of 25 (quick) / 50 (thorough) grammar-text templates and every window "
         "length <= 5 / 8 free characters over a 103-symbol alphabet, z3 decides whether some window makes exactly one of "
         "{parser built from lang.py+rrel.py, parser built from textx.tx} accept; unsat = equal on every window. "
         "Both parser models are read from the running textX. Nothing is claimed outside the templates/bounds."),
   design_ref='DESIGN.md 4 (C24)'),
}

CHECKS.update({
 'C01': dict(
   category='model_checking', engine='sympeg+refpeg',
   technique='SMT (z3) query over a bounded symbolic input: live compiled parser model (sympeg) vs reference PEG semantics from the grammar AST (refpeg), acceptance + structural fingerprint; solver-enumerated class witnesses replayed on the real textX for the model clause',
   text=("Bounded solver verdict per corpus grammar and input length n <= 5 (quick) / 8 (thorough) over a 103-symbol alphabet: "
         "no input makes the parser compiled by lang.py differ (acceptance, objects per rule, values per attribute) from the documented PEG semantics, "
         "except through the recorded Arpeggio root cause (node-less success), which is itself a solver predicate. "
         "The model clause (attribute values, defaults, parent links) is witness replay: one representative per accepted character-class string, "
         "loaded by the real textX with auto_init_attributes on and off. Grammars are a finite corpus (+ seeded random grammars in the thorough tier)."),
   design_ref='DESIGN.md 4 (C01)'),
 'C02': dict(
   category='model_checking', engine='sympeg',
   technique='SMT (z3) query over a bounded symbolic input with a per-object assignment algebra on the live parser model, against the live attribute multiplicities; witnesses replayed on the real textX; class-witness replay against the reference model for order/exactly-once',
   text=("Bounded solver verdict per grammar of the repeated-assignment family and input length n <= 6 / 9: no accepted input assigns an attribute that "
         "lang.py typed as single-valued twice in one object (the only way to get 'Multiple assignments' or a silent overwrite); attributes typed as lists "
         "must be able to collect two values according to a syntactic reference analysis. Value order / exactly-once is witness replay against the reference model."),
   design_ref='DESIGN.md 4 (C02)'),
 'C19': dict(
   category='model_checking', engine='sympeg',
   technique='SMT (z3) query over a bounded symbolic input: reachable evaluations sharing a packrat cache slot must have equal outcomes (call-DAG reach conditions from symbolic evaluation of the live parser model); candidates and class witnesses replayed with memoization on/off',
   text=("Bounded sufficient condition per grammar and input length n <= 5 / 8: the solver shows that no two reachable evaluations that share an Arpeggio cache slot "
         "(same expression under two whitespace states, or two expression objects sharing one cache dict) have different outcomes; satisfiable pairs are candidates and "
         "are decided by replay (memoization on vs off: acceptance, model, error position). Plus witness replay on one input per character-class string."),
   design_ref='DESIGN.md 4 (C19)'),
})

PTRUST = ("z3 (branch feasibility and validity queries); CPython; the harness-side stubs listed in the evidence file; "
          "bounds as written in the evidence file")
CHECKS.update({
 'C04': dict(
   category='model_checking', engine='sympeg+symx',
   technique='SMT (z3) validity queries over priority-exact encodings of the live base-type regexes (symre/sympeg) and symbolic execution (symx) of the live STRING processor on a symbolic string; counterexamples replayed through model_from_str',
   text=("Bounded solver verdict: for every string of <= 4 (quick) / 6 (thorough) characters over the 103-symbol alphabet, both quote characters, "
         "every escape shape and several same-line continuations, the live STRING regex match ends exactly at the closing quote and the live processor returns the string; "
         "for every decimal integer / float literal of <= 6 / 9 characters the live INT / FLOAT / STRICTFLOAT / NUMBER matchers take exactly the literal. "
         "int()/float() values are trusted CPython builtins (witnesses replayed)."),
   design_ref='DESIGN.md 4 (C04)'),
 'C10': dict(
   category='model_checking', engine='symx', note=PTRUST,
   technique='path-forking symbolic execution (symx, z3-decided branches) of the real providers.FQN.__call__ over opaque symbolic names; per-path z3 validity query against the containment-chain semantics; counterexamples replayed with concrete names',
   text=("Solver verdict over names: on 3 (quick) / 8 (thorough) real model shapes with <= 8 named objects, every referencing object and 1-3 name parts, every feasible "
         "path of the real FQN provider is explored with all names symbolic (uninterpreted sort, sibling-uniqueness assumed) and its result is proved equal to the qualified-name "
         "semantics for all name assignments of that path, except where the recorded root cause (walk over all public attributes) explains the difference."),
   design_ref='DESIGN.md 4 (C10)'),
 'C08': dict(
   category='exploration', engine='symx', note=PTRUST,
   technique='solver-steered exhaustive path exploration (symx): whole real loads under every feasible Postponed schedule (symbolic boolean per reference and attempt)',
   text=("Path-exhaustive, finite space: every postponement schedule (up to 2 / 3 postponable attempts per reference) of 3 / 5 reference-list models is one real load; "
         "each successful load must give the textual order. This is exhaustive enumeration steered by z3, not a solver verdict over a large space."),
   design_ref='DESIGN.md 4 (C08)'),
 'C09': dict(
   category='exploration', engine='symx', note=PTRUST,
   technique='solver-steered path exploration (symx) of whole real loads over a symbolic dependency matrix; least-fixpoint oracle as a z3 formula checked for validity under each path condition',
   text=("Path-exhaustive over dependency matrices of 3 (quick) / 4 (thorough) references in one- and two-file models: termination (call budget), success iff the least fixpoint "
         "resolves everything, and the error names exactly the unresolved references; the oracle is a z3 formula over the matrix entries the resolver never looked at."),
   design_ref='DESIGN.md 4 (C09)'),
})

ENUM_NOTE = ("finite space enumerated exhaustively through the path-forking executor; the selectors are unconstrained, so z3 decides "
             "nothing for this property (stated in DESIGN.md); real textX code is executed on every path")
CHECKS.update({
 'C12': dict(
   category='exploration', engine='symx', note=ENUM_NOTE,
   technique='exhaustive enumeration of RREL expression trees (symx selectors) through the real __repr__ / rrel.parse round trip; no solver verdict',
   text=("Path-exhaustive over a finite tree space: every RREL expression tree up to the stated bounds (all node kinds, '*', brackets, ',', heads '^' / dots, "
         "flags '', m, p, mp; a nesting family of depth 2) is printed by the real __repr__ methods, re-parsed by the real rrel.parse and compared structurally."),
   design_ref='DESIGN.md 4 (C12)'),
 'C28': dict(
   category='exploration', engine='symx', note=ENUM_NOTE,
   technique='exhaustive enumeration (symx selectors) of error kind x location x reference form x layout through whole real loads; no solver verdict',
   text=("Path-exhaustive: 4 error kinds x {string, main file, imported file} x {single reference, 1st/2nd/3rd list element} x 5 whitespace layouts = 240 real loads; "
         "the reported file/line/col must be those of the offending token, computed independently from the file text."),
   design_ref='DESIGN.md 4 (C28)'),
 'C30': dict(
   category='model_checking', engine='symx', note=PTRUST,
   technique='path-forking symbolic execution (symx, z3-decided branches) of the real `textx generate` click callback on symbolic argument strings (str-compatible proxies); per-path comparison with the reference argument semantics; counterexamples replayed concretely',
   text=("Solver-steered exploration of the real argument loop: argument names (<= 2/3 chars over 'a - _') and values (<= 2/3 chars over 'a - \" ' space') are symbolic; "
         "every z3-feasible decision pattern of startswith/strip/normalisation is one path, names are pinned by forking when hashed; the kwargs the generator receives and the exit "
         "status (declared / undeclared / mandatory parameters) are compared with the reference. `textx check` exit codes are replayed on concrete files."),
   design_ref='DESIGN.md 4 (C30)'),
 'C31': dict(
   category='fault_enumeration', engine='symx', note=ENUM_NOTE,
   technique='exhaustive fault enumeration (symx selectors): every write/flush/close call of the three built-in generators is made to fail once; no solver verdict',
   text=("Every write / flush / close call made while the built-in dot and PlantUML generators export is a fault point (about 50); each is one real run with an injected OSError; "
         "afterwards the target must not exist and a second run without overwrite must produce the complete file."),
   design_ref='DESIGN.md 4 (C31)'),
 'C33': dict(
   category='model_checking', engine='symx', note=PTRUST,
   technique='path-forking symbolic execution (symx) of whole real loads with a failing processor whose supplied location fields are symbolic integers; z3 validity of the resulting error fields per path; counterexamples replayed concretely',
   text=("For every processed object / match of the test models, every subset of {line, col, filename, nchar} supplied by the failing processor (values are symbolic integers: all values), "
         "raise vs textxerror_wrap, string vs file: z3 proves per path that supplied fields are kept and missing ones equal the independently computed location of the processed text."),
   design_ref='DESIGN.md 4 (C33)'),
})

CHECKS.update({
 'C03': dict(
   category='model_checking', engine='sympeg+refpeg',
   technique='SMT (z3) query over a bounded symbolic input (compiled parser vs reference semantics incl. objects created per rule) on the rule-kind grammar family; static comparison of live rule kinds; solver-enumerated class witnesses replayed on the real textX for object classes, match values and textx_isinstance',
   text=("Bounded solver verdict per grammar of the rule-kind family (abstract chains, diamonds, cycles, match/common mixes) and input length n <= 6 / 8 as in C01; the "
         "rule classification of lang.py is compared statically with the reference; the abstract-result selection of model.py and textx_isinstance (termination, exact relation) "
         "are decided by witness replay on one representative per accepted character-class string."),
   design_ref='DESIGN.md 4 (C03)'),
})

CHECKS.update({
 'C32': dict(
   category='exploration', engine='symx', note=ENUM_NOTE,
   technique='exhaustive enumeration (symx selectors) of scope-provider registrations through whole real loads; no solver verdict',
   text=("Path-exhaustive: 2 x 1296 configurations (which of six registration keys are present, each bound to a marker provider / a provider returning None / an RREL string; "
         "grammar RREL on or off); each is one real load whose resolved targets or error must be those of the first provider in the documented order."),
   design_ref='DESIGN.md 4 (C32)'),
 'C07': dict(
   category='model_checking', engine='symx', note=PTRUST,
   technique='path-forking symbolic execution (symx, z3-decided branches) of whole real loads whose object names, reference texts and builtins keys are opaque symbolic names (substituted in pre_ref_resolution_callback); per-reference z3 validity queries; counterexamples replayed with concrete names',
   text=("Solver verdict over names: on 3 (quick) / 5 (thorough) model shapes (abstract targets, equally named reference attributes with different target rules, list references, "
         "with and without a two-slot builtins mapping) every feasible path of the real default resolution is explored with all names symbolic, and for each reference z3 proves the "
         "unique-match / builtin / Unknown-object / not-unique case distinction for all name assignments of that path."),
   design_ref='DESIGN.md 4 (C07)'),
})

CHECKS.update({
 'C20': dict(
   category='model_checking', engine='sympeg',
   technique='relational SMT (z3) query: two symbolic inputs equal up to letter case over the live parser model compiled with ignore_case=True (sympeg); acceptance and fingerprint must coincide; witness pairs replayed on the real textX',
   text=("Bounded relational solver verdict per grammar of the keyword/regex family, autokwd on and off, and input length n <= 6 / 8: no pair of inputs that differ only in letter case "
         "is accepted differently or with a different structure; a case-sensitive metamodel of the same grammar is built first in the same process. Values keeping their case is checked on replayed witness pairs."),
   design_ref='DESIGN.md 4 (C20)'),
 'C21': dict(
   category='model_checking', engine='sympeg',
   technique='SMT (z3) queries over the live matchers and parser models compiled with autokwd on and off (sympeg): per literal and position, and per whole input with an input-level glue predicate; counterexamples replayed',
   text=("Bounded solver verdict per grammar and input length n <= 5 / 8: (1) no identifier-like literal's live matcher succeeds when a word character follows, at any position; "
         "(2) other literals match identically with and without autokwd; (3) every input accepted with autokwd in which no keyword-like literal is directly followed by a word "
         "character is accepted without autokwd with the same fingerprint."),
   design_ref='DESIGN.md 4 (C21)'),
 'C22': dict(
   category='exploration', engine='sympeg+refpeg',
   technique='solver-enumerated base inputs (z3 AllSAT over character classes of the live parser model) mutated at every reference token boundary and replayed on the real textX against the reference semantics; verdict by replay',
   text=("Witness replay, labelled as such: for every accepted character-class string of length <= 5 / 7 of each grammar (solver-enumerated, i.e. every parse structure), every token "
         "boundary of the reference derivation receives every active whitespace character, a Comment match, and every inactive whitespace character; the real outcome must equal the "
         "reference semantics, and active insertions must leave the real model unchanged."),
   design_ref='DESIGN.md 4 (C22)'),
})

CHECKS.update({
 'C23': dict(
   category='exploration', engine='sympeg',
   technique='solver-enumerated grammar texts (z3 AllSAT over refined character classes of the live textX meta-grammar parser encoded by sympeg) compiled by the real metamodel_from_str; verdict by replay only',
   text=("Witness replay only (stated exception in DESIGN.md): for 50+ grammar-text templates and windows of <= 2 / 4 free characters the solver enumerates one text per accepted "
         "(and a sample of rejected) character-class string of the live meta-grammar parser, the classes being refined by the characters the visitor distinguishes; each text is compiled "
         "under three configurations and must give a metamodel or a TextXError with a message."),
   design_ref='DESIGN.md 4 (C23)'),
})

CHECKS.update({
 'C13': dict(
   category='exploration', engine='symx', note=ENUM_NOTE,
   technique='exhaustive enumeration (symx selectors) of replacement decisions over whole real loads with recording processors and user classes; no solver verdict',
   text=("Path-exhaustive: for one-file, two-file and import-cycle models every subset of Leaf / Item processor calls returning a replacement is one real load (up to 256 per case); "
         "the processor call log per model file must equal the reference post-order (own rule, then abstract rule, Model last, once each), every user __init__ of the load must "
         "precede the first processor, no processor may see an unresolved reference, and replacements must land in the containing attribute."),
   design_ref='DESIGN.md 4 (C13)'),
 'C14': dict(
   category='fault_enumeration', engine='symx', note=ENUM_NOTE,
   technique='exhaustive fault enumeration (symx selectors): every scope-provider / object-processor / model-processor call raises once, plus self-failing loads, over user-class variants; no solver verdict',
   text=("Every callback call of one-file, two-file and import-cycle loads (user classes plain / __slots__ / own __setattr__+__getattribute__) is a fault point = one real load, "
         "plus syntax-error and unknown-reference loads in main and imported files: user objects are initialised once with exactly the rule attributes + parent, references resolved, "
         "before any processor; after every load the class dictionaries are identical to the snapshot and _tx_obj_attrs is empty."),
   design_ref='DESIGN.md 4 (C14/C15)'),
 'C15': dict(
   category='fault_enumeration', engine='symx', note=ENUM_NOTE,
   technique='exhaustive fault enumeration (symx selectors) over whole real loads with and without a global repository; per-path GC observation (weak references), class snapshot comparison and reload comparison; no solver verdict',
   text=("Every callback call raises once (two exception flavours in the thorough tier), plus self-failing loads, single/multi-file, global repository on and off: after each failing "
         "load every object seen is garbage (weakrefs dead after gc.collect), user classes are uninstrumented, and a following load with the same metamodel equals a fresh-metamodel load."),
   design_ref='DESIGN.md 4 (C14/C15)'),
})

CHECKS.update({
 'C05': dict(
   category='model_checking', engine='symx+sympeg', note=PTRUST,
   technique='path-forking symbolic execution (symx) of the real get_children with uninterpreted selector / should_follow predicates (one symbolic boolean per object) on solver-enumerated witness models (z3 AllSAT over the live parser model); per-path comparison with a reference traversal derived from the grammar AST',
   text=("For every model obtained from one witness per accepted character-class string (n <= 7 / 10) of the recursive / abstract-containment / back-reference grammars, and a scenario "
         "where the same user classes serve two metamodels, every valuation of the selector and should_follow predicates that the traversal can observe (and children_first) is one path; "
         "the returned list must equal the reference traversal. get_children_of_type, get_parent_of_type, get_model and parent links are checked on the same models."),
   design_ref='DESIGN.md 4 (C05)'),
 'C06': dict(
   category='exploration', engine='sympeg+refpeg',
   technique='solver-enumerated inputs (z3 AllSAT over character classes of the live parser model, refined by newline / CR / tab) replayed on the real textX (strings and files) against reference spans from the reference derivation; verdict by replay',
   text=("Witness replay: for every accepted character-class string (n <= 6 / 8, all whitespace / comment layouts of that length) each object's _tx_position/_tx_position_end must delimit "
         "its matched text, children nest inside parents, list siblings are ordered and disjoint, and get_location must give the independently computed line/col, nchar and file name."),
   design_ref='DESIGN.md 4 (C06)'),
})

CHECKS.update({
 'C11': dict(
   category='model_checking', engine='symx', note=PTRUST,
   technique='path-forking symbolic execution (symx, z3-decided branches) of the real rrel.find over opaque symbolic names; per-path z3 validity queries against a denotational reference semantics of RREL (soundness, completeness, precedence, +p: path); counterexamples replayed with concrete names',
   text=("Solver verdict over names: for 20 expressions (every operator, nesting, ',', '+p:'), 2 / 3 model shapes, up to 3 start objects per kind and 1-3 name parts, every feasible path "
         "of the real RREL evaluation is explored with all object names and name parts symbolic (sibling uniqueness assumed); z3 proves per path that the result is the target of a "
         "derivation of the reference semantics that consumed every part, that None means no derivation exists, that no earlier alternative has one, and that the proxy path is that "
         "derivation's named objects."),
   design_ref='DESIGN.md 4 (C11)'),
})

CHECKS.update({
 'C26': dict(
   category='exploration', engine='symx', note=ENUM_NOTE,
   technique='exhaustive enumeration (symx selectors) of registry operation histories through the real textx.registration functions, compared step by step with a reference map model; no solver verdict',
   text=("Path-exhaustive over histories: every sequence of 3 (quick, starting with a registration) / 4 (thorough) operations out of 35 over a small universe (case variants of a name, "
         "instance- and factory-registered metamodels, patterns, files, generator targets) runs through the real registry and must agree at every step with a case-insensitive map model "
         "(duplicates refused, entry points back after clearing, pattern matching, cached vs fresh metamodels)."),
   design_ref='DESIGN.md 4 (C26)'),
 'C29': dict(
   category='exploration', engine='symx', note=ENUM_NOTE,
   technique='exhaustive enumeration (symx selectors) of strings over the DOT-relevant characters in every string slot of a model, exported by the real exporters and read back by an independent DOT reader; no solver verdict',
   text=("Path-exhaustive: every string of <= 2 / 3 characters over {\" \\ | { } < > newline ? a} in each string slot (object name, string attribute, primitive list element, "
         "mixed-list element first / later, file name) is exported by the real model_export_to_file and must be readable by an independent DOT reader (Graphviz lexical rules, statement "
         "and record-label grammar) with a node for every object; metamodel DOT and PlantUML exports of grammars with hostile literals are checked for well-formedness and completeness."),
   design_ref='DESIGN.md 4 (C29)'),
 'C34': dict(
   category='exploration', engine='symx', note=ENUM_NOTE,
   technique='exhaustive enumeration (symx selectors) of postponement schedules over whole real loads with textx_tools_support=True; positions compared with those known from the assembled input text; no solver verdict',
   text=("Path-exhaustive over postponement schedules (1 / 2 postponable attempts per reference) of a single-file and a two-file model with plain and qualified references and nested "
         "objects sharing spans: every model's _pos_crossref_list must list each reference once, ordered, with exact start/end and the target's file and span; _pos_rule_dict must map "
         "every span to the innermost object with that span and list inner spans before the spans containing them."),
   design_ref='DESIGN.md 4 (C34)'),
})

CHECKS.update({
 'C27': dict(
   category='exploration', engine='symx', note=PTRUST,
   technique='path-forking symbolic execution (symx) of whole real model_from_str / model_from_file loads in which declared and given parameter names are opaque symbolic name atoms (str subclass, z3-decided equality); acceptance compared per path with a z3 formula (validity under the path condition); closure inspected after accepted loads; counterexamples replayed with concrete names',
   text=("Path-exhaustive over equality patterns of symbolic names: 0-2 declared and 0-2 given parameter names, three providers (ImportURI search path, ImportURI glob, GlobalRepo), "
         "three load kinds (file, string with file name, string), global repository on/off, a three-file import closure with a cycle: the load is rejected with 'unknown parameter' "
         "exactly when z3 proves under the path condition that some given name equals no declared one, and after an accepted load every model of the closure exposes exactly the given "
         "names and values."),
   design_ref='DESIGN.md 4 (C27)'),
})

CHECKS.update({
 'C16': dict(
   category='model_checking', engine='sympeg', note=TRUST,
   technique='histories enumerated, inputs solver-quantified: after every history of loads (accepted, rejected, dangling reference, from file) and sibling-metamodel constructions, the live Arpeggio parser model of the subject metamodel is re-encoded by sympeg and z3 decides equivalence (acceptance and attribute fingerprint, all inputs of the bounded length) with the encoding of a fresh metamodel built in a separate pristine process (transported as SMT-LIB text); witness replay of accepted / rejected class strings for state the encoding cannot see',
   text=("Solver verdict over inputs, per history: for 12 scenarios (grammars with references, keywords, regex literals, whitespace modes, comments, recursion; memoization, "
         "ignore_case, autokwd, user classes) and every history of <= 2 / 3 operations out of 8, z3 proves that no input of length 4 (quick) / 2, 4, 6, 7 (thorough) distinguishes the "
         "subject's live parser model from a fresh one; 8 / 30 accepted and rejected witnesses per length are then loaded by the subject and must give the model or the error "
         "(type, message, line, column) of fresh metamodels. Reference side and histories run in processes forked from one in which no metamodel was ever built."),
   design_ref='DESIGN.md 4 (C16)'),
})

CHECKS.update({
 'C17': dict(
   category='model_checking', engine='symx', note=PTRUST,
   technique='path-forking symbolic execution (symx) of whole real multi-file loads in which all element names and reference texts of all files are opaque symbolic names (substituted when resolution starts); per reference a z3 validity query (under the path condition) for the documented lookup order own file / directly imported files in import order / builtin model, incl. the error cases; load-once, identity and repeated-load facts checked concretely on every path; counterexamples replayed with concrete names',
   text=("Solver verdict over namings: three import graphs (diamond with a cycle back to the main file, self-import plus chain, glob pattern), PlainNameImportURI and FQNImportURI, "
         "global repository on/off, builtin model on/off; for every feasible equality pattern between the names of all elements and all reference texts z3 proves that each reference "
         "resolved to the unique element of the first scope level that has one (or that the load failed with the prescribed error); on every path each file was parsed exactly once, "
         "one model object per file is registered, every reference is an element of the registered model of its file, and a second load returns the cached model (global repository) "
         "or loads the closure afresh once."),
   design_ref='DESIGN.md 4 (C17)'),
})

CHECKS.update({
 'C18': dict(
   category='fault_enumeration', engine='symx', note=ENUM_NOTE,
   technique='exhaustive enumeration (symx selectors) of failing file x failure kind x provider x global repository x prior successful load over whole real multi-file loads; repository contents, identities and the repaired reload compared with the prescribed state; no solver verdict',
   text=("Path-exhaustive: after an optional successful load of good -> lib.m, main -> lib.m, mid.m -> deep.m is loaded while one of main / mid.m / deep.m fails by a syntax error, an "
         "unknown reference, a missing import target, an object processor or a model processor (2 providers, global repository on/off = 120 runs): the global repository must hold "
         "exactly the earlier cached models (same objects), no surviving repository may hold a model of the attempt, a second load must fail alike, and after the repair the load "
         "succeeds with one model per file, cached files being the cached objects and all references pointing into registered models."),
   design_ref='DESIGN.md 4 (C18)'),
})

CHECKS.update({
 'C25': dict(
   category='exploration', engine='symx', note=ENUM_NOTE,
   technique='exhaustive enumeration (symx selectors) of generated grammar-file trees (which files define the shared rule name, import orders, cycle, diamond) compiled by the real metamodel_from_file and compared with a reference implementation of the documented lookup order; no solver verdict',
   text=("Path-exhaustive: 7 grammar files in nested directories (root, two root-level files, pkg/a, pkg/leaf, pkg/sub/deep, pkg/sub/leaf); every subset of files defining the shared "
         "rule X, 3 x 2 import orders, cycle and diamond on/off (3072 trees): the class of every reference is the class object of the prescribed file's X and reports its file-based "
         "qualified name, metamodel['base.X'] and [base.X] select base.tx's rule, every importer shares one namespace object per file, and a model using every reference loads with "
         "objects of the prescribed definitions."),
   design_ref='DESIGN.md 4 (C25)'),
})

NA = {
}
PENDING = "check not built yet in this round (design in DESIGN.md 4); not claimed until its check exists"

def main():
    checks = []
    for pid in ALL:
        if pid in CHECKS:
            c = CHECKS[pid]
            checks.append({
                'property_id': pid,
                'quick_cmd': './check %s --tier quick' % pid,
                'thorough_cmd': './check %s --tier thorough' % pid,
                'evidence_file': '/verif/evidence/%s.json' % pid,
                'replay_cmd_template': './check %s --replay {path}' % pid,
                'engine': c['engine'],
                'level_claimed': {'category': c['category'], 'text': c['text'], 'design_ref': c['design_ref']},
                'level_note': c.get('note', TRUST),
                'technique': c['technique'],
            })
    na = []
    for pid in ALL:
        if pid in CHECKS:
            continue
        na.append({'property_id': pid, 'reason': NA.get(pid, PENDING)})
    man = {
        'version': 1,
        'setup_cmd': './setup.sh',
        'hooks': {'guard': 'TEXTX_VERIF', 'enable': 'none needed: checks import textX from /repo working tree; no source hooks are committed',
                  'baseline_off_cmd': 'cd /repo && /venv/bin/python -m pytest -ra -q -p no:cacheprovider --timeout=900 --continue-on-collection-errors',
                  'source_commits': [], 'add_only': True},
        'engines': [
            {'name': 'sympeg', 'path': 'verifx/sympeg.py', 'kind_free_text': 'bounded symbolic evaluation (z3) of live Arpeggio parser models and Python re patterns over a symbolic text', 'serves_properties': sorted(p for p, c in CHECKS.items() if c['engine'].startswith('sympeg'))},
            {'name': 'symx', 'path': 'verifx/symx.py', 'kind_free_text': 'path-forking symbolic execution (z3-decided branches) of real textX callables on proxy values', 'serves_properties': sorted(p for p, c in CHECKS.items() if c['engine'].startswith('symx'))},
        ],
        'checks': checks,
        'not_applicable': na,
        'notes': 'Solver-based checking of the real code; see DESIGN.md. Known findings: known_findings.jsonl.',
    }
    with open(os.path.join(ROOT, 'MANIFEST.json'), 'w') as f:
        json.dump(man, f, indent=1)
    print('MANIFEST.json: %d checks, %d not applicable' % (len(checks), len(na)))

if __name__ == '__main__':
    main()
