#!/bin/sh
# usage: mkwt.sh <name>   -> creates scratch worktree /tmp/wt/<name> of /repo HEAD and /tmp/seed/<name>
set -e
git -C /repo worktree add --detach /tmp/wt/$1 HEAD -q
mkdir -p /tmp/seed/$1
echo /tmp/wt/$1
