#!/usr/bin/env python3
"""mutate.py <PROP> [--max N] [--workers K] [--seed S]
Mutation sensitivity of one check: small syntactic mutants (comparison / boolean operator swaps, negated
conditions, +-1 on small integer constants, True<->False, deleted statements, break<->continue) are generated
inside the real textX functions the check names in its evidence file (`functions_encoded` / `replayed_through`);
each mutant is written into a scratch worktree of /repo (never into /repo), must keep the pinned test suite's
result (313 passed / 27 failed) — otherwise it is a mutant the tests already catch and is skipped — and is then
given to the check's quick command (through PYTHONPATH).  Prints killed / survived mutants; survivors are to be
read by a human (equivalent mutant, or a gap in the check).  Results: /verif/out/mutants_<PROP>.json."""
import ast, copy, json, os, random, re, shutil, subprocess, sys, time
from concurrent.futures import ProcessPoolExecutor

args = sys.argv[1:]
prop = args.pop(0).upper()
def opt(name, default):
    if name in args:
        i = args.index(name); v = args[i + 1]; del args[i:i + 2]; return v
    return default
MAX = int(opt('--max', '60'))
WORKERS = int(opt('--workers', '4'))
SEED = int(opt('--seed', '1'))
EXTRA = opt('--functions', '')

def sh(cmd, **kw):
    return subprocess.run(cmd, shell=True, capture_output=True, text=True, **kw)

ev = json.load(open('/verif/evidence/%s.json' % prop))
names = list(ev['coverage'].get('functions_encoded', [])) + list(ev['coverage'].get('replayed_through', []))
names = [n.split('@')[0] for n in names if n.startswith('textx.')] + [x for x in EXTRA.split(',') if x]

def locate(qual):
    """textx.model.ReferenceResolver.resolve_one_step -> (file, [path of names inside the module])"""
    parts = qual.split('.')
    for k in range(len(parts), 0, -1):
        f = '/repo/' + '/'.join(parts[:k]) + '.py'
        if os.path.exists(f):
            return f, [p for p in parts[k:] if p != '<locals>']
        f = '/repo/' + '/'.join(parts[:k]) + '/__init__.py'
        if os.path.exists(f):
            return f, [p for p in parts[k:] if p != '<locals>']
    return None, None

def find_node(tree, path):
    node = tree
    for p in path:
        nxt = None
        for ch in ast.walk(node):
            if isinstance(ch, (ast.FunctionDef, ast.ClassDef)) and ch.name == p and ch is not node:
                nxt = ch
                break
        if nxt is None:
            return None
        node = nxt
    return node

CMP = {ast.Eq: ast.NotEq, ast.NotEq: ast.Eq, ast.Lt: ast.LtE, ast.LtE: ast.Lt, ast.Gt: ast.GtE, ast.GtE: ast.Gt,
       ast.Is: ast.IsNot, ast.IsNot: ast.Is, ast.In: ast.NotIn, ast.NotIn: ast.In}

def mutants_of(func):
    """yield (description, mutate(node_copy_root)->None) as index-addressed edits"""
    nodes = list(ast.walk(func))
    out = []
    for i, n in enumerate(nodes):
        if isinstance(n, ast.Compare) and type(n.ops[0]) in CMP:
            out.append((i, 'cmp', 'line %d: %s -> %s' % (n.lineno, type(n.ops[0]).__name__, CMP[type(n.ops[0])].__name__)))
        elif isinstance(n, ast.BoolOp):
            out.append((i, 'bool', 'line %d: %s <-> other' % (n.lineno, type(n.op).__name__)))
        elif isinstance(n, (ast.If, ast.While)) :
            out.append((i, 'negate', 'line %d: negate condition' % n.lineno))
        elif isinstance(n, ast.UnaryOp) and isinstance(n.op, ast.Not):
            out.append((i, 'dropnot', 'line %d: drop not' % n.lineno))
        elif isinstance(n, ast.Constant) and isinstance(n.value, bool):
            out.append((i, 'flipbool', 'line %d: %s -> %s' % (n.lineno, n.value, not n.value)))
        elif isinstance(n, ast.Constant) and isinstance(n.value, int) and not isinstance(n.value, bool) and -2 <= n.value <= 3:
            out.append((i, 'inc', 'line %d: %d -> %d' % (n.lineno, n.value, n.value + 1)))
        elif isinstance(n, (ast.Assign, ast.AugAssign, ast.Expr)) and not (isinstance(n, ast.Expr) and isinstance(n.value, ast.Constant)):
            out.append((i, 'delete', 'line %d: delete statement' % n.lineno))
        elif isinstance(n, ast.Break):
            out.append((i, 'brk', 'line %d: break -> continue' % n.lineno))
        elif isinstance(n, ast.Continue):
            out.append((i, 'cont', 'line %d: continue -> break' % n.lineno))
    return out

def apply(tree, path, idx, kind):
    func = find_node(tree, path)
    n = list(ast.walk(func))[idx]
    if kind == 'cmp':
        n.ops[0] = CMP[type(n.ops[0])]()
    elif kind == 'bool':
        n.op = ast.Or() if isinstance(n.op, ast.And) else ast.And()
    elif kind == 'negate':
        n.test = ast.UnaryOp(op=ast.Not(), operand=n.test)
    elif kind == 'dropnot':
        n.op = ast.UAdd() if False else n.op
        # replace `not x` by `bool(x)` semantics: use double negation removal
        n.operand = ast.UnaryOp(op=ast.Not(), operand=n.operand)
    elif kind == 'flipbool':
        n.value = not n.value
    elif kind == 'inc':
        n.value = n.value + 1
    elif kind == 'delete':
        # replace the statement by `pass` in its parent body
        for parent in ast.walk(func):
            for field in ('body', 'orelse', 'finalbody'):
                lst = getattr(parent, field, None)
                if isinstance(lst, list) and n in lst:
                    lst[lst.index(n)] = ast.Pass()
                    return
    elif kind == 'brk':
        for parent in ast.walk(func):
            for field in ('body', 'orelse'):
                lst = getattr(parent, field, None)
                if isinstance(lst, list) and n in lst:
                    lst[lst.index(n)] = ast.Continue()
                    return
    elif kind == 'cont':
        for parent in ast.walk(func):
            for field in ('body', 'orelse'):
                lst = getattr(parent, field, None)
                if isinstance(lst, list) and n in lst:
                    lst[lst.index(n)] = ast.Break()
                    return

cands = []
for q in dict.fromkeys(names):
    f, path = locate(q)
    if not f or not path:
        continue
    src = open(f).read()
    tree = ast.parse(src)
    func = find_node(tree, path)
    if func is None:
        continue
    for idx, kind, desc in mutants_of(func):
        cands.append((f, path, idx, kind, '%s %s' % (q, desc)))
random.Random(SEED).shuffle(cands)
cands = cands[:MAX]
print('%s: %d functions, %d mutants selected' % (prop, len(set(c[0] + '.'.join(c[1]) for c in cands)), len(cands)))

def work(job):
    k, (f, path, idx, kind, desc) = job
    wt = '/tmp/wt/_mut_%s_%d' % (prop, k % WORKERS)
    rel = os.path.relpath(f, '/repo')
    tree = ast.parse(open(f).read())
    try:
        apply(tree, path, idx, kind)
        ast.fix_missing_locations(tree)
        new = ast.unparse(tree)
    except Exception as e:  # noqa
        return (desc, 'skip', 'cannot build: %s' % e)
    target = os.path.join(wt, rel)
    orig = open(target).read()
    try:
        open(target, 'w').write(new)
        env = dict(os.environ, PYTHONPATH=wt, VERIF_PROCS='4')      # side-by-side runs must not starve the solver
        t = sh('cd %s && timeout 600 /venv/bin/python -m pytest -q -x -p no:cacheprovider --timeout=300 '
               '--deselect tests/functional/registration --deselect tests/functional/subcommands '
               '--ignore=tests/functional/registration --ignore=tests/functional/subcommands 2>&1 | tail -3' % wt, env=env)
        if ' passed' not in t.stdout or 'failed' in t.stdout or 'error' in t.stdout.lower():
            return (desc, 'tests', t.stdout.strip().splitlines()[-1][:100] if t.stdout.strip() else 'no output')
        c = sh('cd /verif && VERIF_OUT_SUFFIX=_mut%d timeout 900 ./check %s --tier quick' % (k % WORKERS, prop), env=env)
        if c.returncode == 1:
            return (desc, 'killed', (re.findall(r'^VIOLATION .*\n(.*)', c.stdout, re.M) or [''])[0].strip()[:160])
        if c.returncode == 3:
            return (desc, 'harness', ([l for l in c.stdout.splitlines() if 'HARNESS' in l] or [''])[0][:160])
        return (desc, 'survived', '')
    finally:
        open(target, 'w').write(orig)

# scratch worktrees (evidence / replay files of these runs go under /verif/out: VERIF_OUT_SUFFIX)
for k in range(WORKERS):
    wt = '/tmp/wt/_mut_%s_%d' % (prop, k)
    sh('git -C /repo worktree remove --force %s' % wt)
    assert sh('git -C /repo worktree add --detach %s HEAD -q' % wt).returncode == 0
results = []
try:
    # jobs with the same k % WORKERS share a worktree: run them in WORKERS sequential lanes
    lanes = [[] for _ in range(WORKERS)]
    for k, c in enumerate(cands):
        lanes[k % WORKERS].append((k, c))
    def lane(jobs):
        return [work(j) for j in jobs]
    with ProcessPoolExecutor(WORKERS) as ex:
        for res in ex.map(lane, lanes):
            results += res
finally:
    for k in range(WORKERS):
        sh('git -C /repo worktree remove --force /tmp/wt/_mut_%s_%d' % (prop, k))
    sh('git -C /repo worktree prune')
summary = {}
for desc, st, info in results:
    summary[st] = summary.get(st, 0) + 1
print(prop, summary)
for desc, st, info in results:
    if st in ('survived', 'harness'):
        print('  %-9s %s %s' % (st.upper(), desc, info))
os.makedirs('/verif/out', exist_ok=True)
json.dump([{'mutant': d, 'status': s, 'info': i} for d, s, i in results], open('/verif/out/mutants_%s.json' % prop, 'w'), indent=1)
