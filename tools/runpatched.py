#!/usr/bin/env python3
"""runpatched.py <patch.diff> [--tier quick|thorough] [ID ...]
Runs the checks against /repo's HEAD + the given patch, applied in a scratch worktree (never in /repo);
the checks see it through PYTHONPATH.  Evidence files are restored afterwards.  Used for negative controls
(behaviour-preserving refactorings: no check may report a violation) and for trying a seeded change against
every check."""
import json, os, re, shutil, subprocess, sys, time
args = sys.argv[1:]
patch = os.path.abspath(args.pop(0))
tier = 'quick'
if '--tier' in args:
    i = args.index('--tier'); tier = args[i + 1]; del args[i:i + 2]
man = json.load(open('/verif/MANIFEST.json'))
ids = args or [c['property_id'] for c in man['checks']]
def sh(cmd, **kw):
    return subprocess.run(cmd, shell=True, capture_output=True, text=True, **kw)
WT = '/tmp/wt/_patched_%d' % os.getpid()
assert sh('git -C /repo worktree add --detach %s HEAD -q' % WT).returncode == 0
save = '/tmp/_evsave_%d' % os.getpid()
shutil.copytree('/verif/evidence', save)
try:
    ap = sh('git -C %s apply %s' % (WT, patch))
    if ap.returncode != 0:
        print('patch does not apply:', ap.stderr); sys.exit(2)
    env = dict(os.environ, PYTHONPATH=WT, VERIF_TIER=tier)
    bad = 0
    for pid in ids:
        t0 = time.time()
        c = sh('cd /verif && ./check %s --tier %s' % (pid, tier), env=env)
        viol = re.findall(r'^VIOLATION .*\n(.*)', c.stdout, re.M)
        print('%s rc=%d %ds %s' % (pid, c.returncode, time.time() - t0, ('| ' + viol[0].strip()[:220]) if viol else
                                   (('| ' + [l for l in c.stdout.splitlines() if 'HARNESS' in l][0][:220]) if c.returncode == 3 else '')))
        bad += c.returncode != 0
    print('%d of %d checks report something' % (bad, len(ids)))
finally:
    shutil.rmtree('/verif/evidence'); shutil.copytree(save, '/verif/evidence'); shutil.rmtree(save)
    sh('git -C /repo worktree remove --force %s' % WT); sh('git -C /repo worktree prune')
