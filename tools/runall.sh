#!/bin/sh
# runs every claimed check (quick by default) on the current tree, rewrites evidence, validates schemas
cd "$(dirname "$0")/.."
TIER=${1:-quick}
git -C /repo status --porcelain | grep -q . && { echo "/repo is not clean"; exit 2; }
fail=0
for p in $(python3 -c "import json; print(' '.join(c['property_id'] for c in json.load(open('MANIFEST.json'))['checks']))"); do
  s=$(date +%s)
  out=$(timeout 3600 ./check $p --tier $TIER 2>&1); rc=$?
  e=$(date +%s)
  echo "$p rc=$rc $((e-s))s $(echo "$out" | grep -c '^KNOWN-FINDING') known  $(echo "$out" | grep -c '^VIOLATION') viol"
  [ $rc -ne 0 ] && { fail=1; echo "$out" | tail -5; }
done
python3-vt - <<'PY'
import json, jsonschema, glob
jsonschema.validate(json.load(open('/verif/MANIFEST.json')), json.load(open('/root/.vp/MANIFEST.schema.json')))
for f in sorted(glob.glob('/verif/evidence/*.json')):
    jsonschema.validate(json.load(open(f)), json.load(open('/root/.vp/EVIDENCE.schema.json')))
print('schemas valid')
PY
exit $fail
