#!/usr/bin/env python3
"""seed.py <name> <PROP> [--no-tests] [--tier quick|thorough]
Confirms a sub-agent's seeded change (/tmp/seed/<name> or /verif/seeded/<name>) and records it:
 demo passes on clean /repo, fails with the patch; test-suite pass set unchanged; runs our check
 against the patched tree; always restores /repo.  Result is written to /verif/seeded/<name>/meta.json."""
import json, os, re, shutil, subprocess, sys, time
name, prop = sys.argv[1], sys.argv[2]
run_tests = '--no-tests' not in sys.argv
tier = sys.argv[sys.argv.index('--tier') + 1] if '--tier' in sys.argv else 'quick'
src = '/tmp/seed/%s' % name
dst = '/verif/seeded/%s' % name
os.makedirs(dst, exist_ok=True)
for f in ('patch.diff', 'demo.py', 'meta.json'):
    if os.path.exists(os.path.join(src, f)):
        shutil.copy(os.path.join(src, f), os.path.join(dst, f))
meta = {}
try:
    meta = json.load(open(os.path.join(dst, 'meta.json')))
except Exception:
    pass
def sh(cmd, **kw):
    return subprocess.run(cmd, shell=True, capture_output=True, text=True, **kw)
# the patch is applied in a scratch worktree of /repo's HEAD (never in /repo itself, so that this can
# run while other work uses /repo); the checks see it through PYTHONPATH, which takes precedence
# over the editable install
assert sh('git -C /repo status --porcelain').stdout.strip() == '', '/repo not clean'
conf = {'repo_head': sh('git -C /repo rev-parse --short HEAD').stdout.strip()}
WT = '/tmp/wt/_seedtest_%s' % name
sh('git -C /repo worktree remove --force %s' % WT)
assert sh('git -C /repo worktree add --detach %s HEAD -q' % WT).returncode == 0
env = dict(os.environ, PYTHONPATH='/repo')
r = sh('/venv/bin/python %s/demo.py' % dst, env=env, cwd='/tmp'); conf['demo_clean_exit'] = r.returncode
ap = sh('git -C %s apply %s/patch.diff' % (WT, dst))
if ap.returncode != 0:
    sh('git -C /repo worktree remove --force %s' % WT)
    print('patch does not apply:', ap.stderr); sys.exit(2)
env = dict(os.environ, PYTHONPATH=WT)
try:
    r = sh('/venv/bin/python %s/demo.py' % dst, env=env, cwd='/tmp'); conf['demo_patched_exit'] = r.returncode
    conf['demo_patched_output'] = (r.stdout + r.stderr)[-600:]
    if run_tests:
        t = sh('cd %s && /venv/bin/python -m pytest -q -p no:cacheprovider --timeout=900 --continue-on-collection-errors -rf 2>&1 | tail -45' % WT, env=env)
        failed = sorted(set(re.findall(r'^FAILED (\S+)', t.stdout, re.M)))
        m = re.search(r'(\d+) failed, (\d+) passed', t.stdout)
        conf['tests'] = {'failed': int(m.group(1)) if m else None, 'passed': int(m.group(2)) if m else None,
                         'failed_outside_baseline': [f for f in failed if not ('registration' in f or 'subcommands' in f)]}
    t0 = time.time()
    evf = '/verif/evidence/%s.json' % prop
    saved = open(evf).read() if os.path.exists(evf) else None
    c = sh('cd /verif && VERIF_TIER=%s ./check %s --tier %s' % (tier, prop, tier), env=env)
    if saved is not None:      # evidence of a run on a patched tree must not be kept
        open(evf, 'w').write(saved)
    viol = re.findall(r'^VIOLATION .*', c.stdout, re.M)
    conf['check'] = {'cmd': './check %s --tier %s' % (prop, tier), 'exit': c.returncode, 'violation_lines': len(viol),
                     'first': (viol[0] if viol else ''), 'wall_s': round(time.time() - t0, 1),
                     'detail': [l for l in c.stdout.splitlines() if l.startswith('  ')][:2]}
finally:
    sh('git -C /repo worktree remove --force %s' % WT)
    sh('git -C /repo worktree prune')
conf['detected'] = conf.get('check', {}).get('exit') == 1
meta['property'] = prop
meta['confirmation'] = conf
json.dump(meta, open(os.path.join(dst, 'meta.json'), 'w'), indent=1)
print(json.dumps(conf, indent=1))
